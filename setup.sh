#!/bin/sh
# Offline setup: hypothesis into /venv if missing; atheris into /verif/.deps (thorough tiers only; optional).
set -e
here=$(cd "$(dirname "$0")" && pwd)
cd "$here"
W=/opt/veriftools/wheels
/venv/bin/python -c 'import hypothesis' 2>/dev/null || /venv/bin/pip install --no-index --find-links $W hypothesis
/venv/bin/python -c 'import webencodings, six' 
mkdir -p .deps
if ! PYTHONPATH=.deps /venv/bin/python -c 'import atheris' 2>/dev/null; then
  /venv/bin/pip install --no-index --find-links $W --target .deps atheris >/dev/null 2>&1 || echo "note: atheris not installable; fuzz tier disabled"
fi
echo setup ok
