#!/usr/bin/env python3
"""Regenerate /verif/MANIFEST.json from the table below (keeps it valid at all times)."""
import json
import os

HERE = os.path.dirname(os.path.dirname(os.path.abspath(__file__)))

# id -> (technique, level text, level note, design ref)
CHECKS = {}


def reg(pid, technique, text, note, ref):
    CHECKS[pid] = (technique, text, note, ref)


reg("C18",
    "property-based testing: Hypothesis token streams + exhaustive insertion-order permutations vs. a sorted-permutation oracle and a permutation-invariance metamorphic relation",
    "Generated-input exploration: every Start/Empty tag's output attribute list must equal the input items sorted by (ns or '', local), "
    "other tokens must be the same objects, and the result must not depend on the incoming order; all orders of 6-key colliding sets are enumerated. Serializer level: trees rendered by HTMLSerializer(alphabetical_attributes=True) together with the other filters and output encodings are read back by the reference lexer; every start tag's attribute names must be in order; streams of up to 5000 tokens; foreign elements with adjusted and plain attributes of equal local names through both backends: written names per element == etree-parsed attributes sorted by (namespace, local name). "
    "Held on everything explored; not a proof.",
    "Trusts CPython's sorted()/dict ordering for the oracle; domain = namespaces None or any str incl. '' with at most one attribute per sort key (ties would make order-independence undecidable).",
    "DESIGN.md §3 C18")

reg("C02",
    "differential testing vs. an independent reference WHATWG tokenizer: bounded-exhaustive enumeration over a 46-symbol class alphabet, state-reaching prefixes x all short suffixes, Hypothesis soup/random Unicode",
    "Exploration with exhaustive sub-domains: all strings of <=3 alphabet symbols in 13 (start state, last start tag, CDATA allowed / not allowed / not allowed with namespacing off) configurations, all of length 4 in the data state "
    "(thorough: <=4 everywhere, 5 in data), ~290 state-reaching prefixes x all suffixes of <=2 (3) symbols, plus generated soup, references drawn from every name of the standard's table and every ';'-less stem that is not in it, a third of the generated cases delivered through a short-read text stream. Token lists must be equal to the reference's. "
    "Evidence reports reference (state, class) transition coverage. Held on everything explored.",
    "Trusted: vf/ref/tokenizer.py (own transcription of the June-2020 standard, html.entities.html5 as entity table). DOCTYPE name missing == '' (cannot be told apart).",
    "DESIGN.md §3 C02")

reg("C14",
    "exhaustive enumeration of the finite reference space against an independent oracle (html.entities.html5 + numeric rules from the standard) + encode/decode round trip over all code points",
    "Bounded-exhaustive: all 2231 names x 17 followers x 5 contexts through the tokenizer (and parseFragment), all special numeric values and overflow samples x 6 spellings x ';'/none x followers; "
    "the plain numeric space 0..0x110000 (quick: seed-rotated 1/8 slice; thorough: all) batched ~400 per document; reverse direction: every non-surrogate code point entity-encoded under ascii (+ samples of 5 other codecs) and parsed back; every code point with a name in the table x 7 follower strings x text/attribute in every tier; every ';'-less stem that is not in the table (must stay literal); references as content of pre/listing/textarea/table cells in both tree builders against the reference tree constructor; Unicode-only white space at text edges through tree -> walker -> serializer(strip_whitespace); every entity name as a walker-format Entity token x resolve_entities x following text through the serializer. "
    "Thorough tier is exhaustive over the stated domain.",
    "Trusted: html.entities.html5 as the standard's table; numeric rules written from the standard. Known findings: C1 controls cannot be expressed by any reference; CR is written raw.",
    "DESIGN.md §3 C14")

reg("C20",
    "exhaustive enumeration of all BMP code points in first/later name position + Hypothesis names/comments/public ids x all 64 flag sets, judged by expat and round-trip/injectivity checks",
    "Exhaustive on the BMP sub-domain (65536 code points x 2 positions x element/attribute): expat must accept the coerced name and report it unchanged, legal colon-free names must be returned as they are; "
    "generated names (astral, U+hex look-alikes, one filter object reused) add fromXmlName(toXmlName(n)) == n (decoded by the same and by a new filter object, and by treebuilders/etree.py's tostring() for every enumerated name) and injectivity; every BMP character through coercePubid; legal colon-free names under all 64 flag sets; comments/public ids over all flag sets. Held on everything explored.",
    "Trusted: expat as the XML parser of reference (XML 1.0 4th-edition names). Known finding: astral name characters are passed through.",
    "DESIGN.md §3 C20")

reg("C13",
    "property-based testing: Hypothesis + enumerated (previous, token, next) triples of walker tokens through the filter, judged by identity-subsequence check and an independent transcription of the standard's optional-tag rules; parse-equivalence round trip on generated conforming documents",
    "Exploration: every triple with an omittable-name tag in the middle over a 160-token alphabet is enumerated (both tiers), other triples at a seed-rotated stride, plus generated balanced/free streams; "
    "each removed token must be an attribute-less start tag or end tag the standard allows to omit given its neighbours; survivors must be the same objects in order. Conforming documents: filtered and unfiltered serialisations must parse to the same tree. Serializer level: the same documents rendered with and without omit_optional_tags under sanitize / strip_whitespace / alphabetical options are read by the reference lexer; every tag missing from the omitted rendering must be omittable between its neighbours in the final markup. The conforming generator includes datalist, consecutive optgroups, tables with many distinct custom elements per cell, HTML integration points and text nodes over 1024 characters.",
    "Trusted: vf/ref/optionaltags.py (own transcription of the June-2020 rules); 'no more content in parent' == next token is an end tag or stream end. Two known findings are demanded by the repo's own test data.",
    "DESIGN.md §3 C13")

reg("C03",
    "fuzzing-style property-based testing: Hypothesis bytes/Unicode/markup soup + parameterised pathological depth/length families through every builder/namespacing/document-or-fragment/container/scripting combination; crash oracle + document-skeleton validity predicate",
    "Exploration: no exception of any type may escape parse()/parseFragment(); documents must have the skeleton doctype?/comments/html(head, body|frameset). ~70 nesting units x prefixes x closers at N up to 3500 (thorough 20000) reach depth-related failures; three foreign/table tiny alphabets and a 3168-document grammar of foreign elements named like table-structure elements, every truncation of every <meta> spelling (byte input), lexical-length families (one reference / name / value / comment of up to 200000 characters) and many-distinct-names inputs reach limits of the host language and cache evictions; a watchdog (repeating timer) hands hangs to a dispatch-counting parse that proves tree-constructor livelocks deterministically (total count and 5000 dispatches without input consumption); other hangs are 'inconclusive'. Held on everything explored.",
    "Termination is decided for tree-constructor livelocks only. Known finding: the standard's own algorithm can put a reconstructed formatting element after frameset under html (classifier: the reference tree has the same anomaly).",
    "DESIGN.md §3 C03")

reg("C04",
    "differential property-based testing across tree builders: generated markup soup parsed by dom / etree / etree-fullTree x namespaceHTMLElements on/off; directly traversed abstract trees must be pairwise equal",
    "Exploration: 16 biased soup campaigns (table/foster, formatting/adoption, foreign, select, fragments in 45 contexts); all six builder configurations must yield the same flat abstract tree (namespace None == XHTML when namespacing is off; root-element form == html subtree, requested with fullTree=False spelled out and left out); two shards run long sequences over formatting elements whose attributes are written in different orders. Non-triviality is measured with the reference tree constructor's trace. Held on everything explored.",
    "Trees are observed by own traversal (vf/obs.py), not by html5lib walkers. Two known findings are limitations of xml.dom.minidom (colon-bearing attribute / doctype names), modelled exactly by obs.minidom_colon_model.",
    "DESIGN.md §3 C04")

reg("C16",
    "differential property-based testing strict vs. non-strict parsing over generated markup soup and all truncations (EOF sites) of generated documents, plus a validity predicate over every recorded error",
    "Exploration: strict mode must raise exactly html5parser.ParseError iff the non-strict parse recorded an error, with the first error's formatted message; every recorded error needs a template in constants.E that formats with its variables and a position inside the input; conforming generated documents must record none in four spellings (explicit, optional tags omitted by the reference rules, two with '/>' / other quoting / upper case); (first, input) pairs on one strict and one non-strict parser object must give the second input the outcome of new objects. Evidence lists the error codes reached (115 of 132; the rest have no call site). Held on everything explored.",
    "Positions are judged against the newline-normalised input. Trusted for the absolute leg: vf/ref/treebuilder.py (127 marked parse-error sites). Five defects found by this check were repaired in /repo (fix: commits).",
    "DESIGN.md §3 C16")

reg("C05",
    "metamorphic property-based testing: identical characters delivered through 6 source kinds x generated read-size schedules x internal chunk sizes x 15 encodings must reproduce the tree and (code, line, col) error list of the one-shot str parse",
    "Exploration: generated CR/LF/surrogate/multibyte-rich markup under read schedules (file-like objects returning 1..9 characters or bytes per read), _defaultChunkSize 1..10240, and byte sources in 12 argument-declared encodings + 3 BOM kinds; sources also as genuine StringIO/BytesIO subclasses with short reads and as a StringIO whose prefix was consumed before; text sources that begin with U+FEFF; entry points HTMLParser.parse / html5lib.parse() / HTMLParser.parseFragment / html5lib.parseFragment(); evidence reports how many boundaries fell inside CRLF pairs, at surrogates, inside multi-byte sequences, tags and character references. Held on everything explored.",
    "Reference = parse of the same text as one str at the default chunk size. Known findings: chunk-dependent position/order of stream-level invalid-codepoint errors; BOM sniffing trusts read(4). Five input-stream defects found here were repaired in /repo.",
    "DESIGN.md §3 C05")

reg("C11",
    "round-trip + differential property-based testing of the tree walkers: own stream validator, html5lib's Lint filter, own rebuild(stream) == direct traversal, etree-stream == dom-stream, over trees parsed from generated markup soup and several start nodes",
    "Exploration: trees from soup (documents, fragments in 45 contexts, namespacing on/off) are walked by both walkers from the document, fragment, root element and an inner element; the stream must be well formed, accepted by Lint, rebuild to exactly the tree obtained by direct traversal, and be the same for both walkers after concatenating character tokens; a walker object walked again after an abandoned walk must give the same stream; treewalkers.concatenateCharacterTokens must agree with plain concatenation; long documents included; if the two backends hold different trees for a document this is a violation unless the exact model of the recorded minidom limitations explains it. Held on everything explored.",
    "Doctype name None == '' (cannot be told apart). Known finding: a void-listed element with children (event-source).",
    "DESIGN.md §3 C11")

reg("C19",
    "round-trip property-based testing of to_sax: a recording handler validates the SAX event grammar and a tree rebuilt from the events (own builder; independently xml.dom.pulldom.SAX2DOM) must equal the directly traversed source tree minus comments/doctype",
    "Exploration: trees parsed from generated soup (void, SVG/MathML, xlink:/xml:/xmlns attributes, namespacing on/off, documents and fragments) walked by both walkers; one startDocument/endDocument pair, balanced prefix mappings, properly nested element events, rebuilt tree == source tree (attributes as mappings); the qualified name of every namespaced attribute resolves through the announced prefix mappings. Held on everything explored.",
    "SAX2DOM is compared on elements/namespaces/text only (it has attribute quirks of its own). Known finding: to_sax asserts on the walker's error token for a void-listed element with children.",
    "DESIGN.md §3 C19")

reg("C01",
    "differential testing vs. an independently written reference WHATWG tree constructor (on a reference tokenizer): Hypothesis markup soup x {document, fragment in 45 contexts} x scripting, exhaustive insertion-mode-prefix x token-pair product over a core alphabet, quirks-table enumeration, determinism re-runs in a fresh interpreter",
    "Exploration with enumerated sub-domains: ~95 prefixes (one or more per insertion mode / stack shape) x every ordered pair of a 109-token core alphabet (both tiers; full 290-token alphabet at a stride in quick, completely in thorough), the standard's quirks tables x spelling/system-id variants observed through <p><table>, 10 biased soup campaigns; directly traversed html5lib trees (etree fullTree) must equal the reference's, attribute order included. "
    "Recorded deviations are accepted only if the reference with exactly the compat switches whose trigger fired reproduces html5lib's tree; revision-ambiguous steps are excluded and counted. Held on everything explored.",
    "Trusted: vf/ref/treebuilder.py + vf/ref/tokenizer.py (own transcriptions of the June-2020 standard, SPEC_NOTES.md); 27 recorded deviations of html5lib from the standard are listed in known_findings.json with pinned inputs.",
    "DESIGN.md §3 C01")

reg("C07",
    "round-trip property-based testing: abstract trees generated from a grammar of the HTML content model -> html5lib tree -> HTMLSerializer under generated option records / walkers / output encodings -> re-parse; the re-parsed tree must equal the generated tree",
    "Exploration: conforming documents (tables, lists, forms, select, ruby, pre/textarea, raw-text elements, SVG/MathML islands, comments, markup-significant and non-ASCII text and attribute values) x the cross product of 10 serializer options x 8 encodings x 2 walkers x {new serializer object, object used before with another encoding} x {walker object fresh / walked before} x namespaceHTMLElements on/off; recorded serializer defects are accepted only when the re-parsed tree equals the exactly predicted wrong tree (expected-difference transformers). Held on everything explored.",
    "The generator defines 'conforming' (content model encoded in vf/gen/conforming.py; doctype always present); trees that html5lib does not parse back from our explicit writer are excluded and counted. 6 recorded findings, 2 repaired defects.",
    "DESIGN.md §3 C07")

reg("C17",
    "property-based testing against an independent whitespace-collapse model + idempotence law, over etree and dom walker streams of whitespace-rich generated markup",
    "Exploration: streams from trees with all five ASCII whitespace characters, non-ASCII spaces, character references to whitespace and nested preserve elements; text is compared group-wise (maximal runs of text tokens) with the model: collapsed outside pre/textarea/raw-text elements, identical inside, non-text tokens identical, F(F(x)) == F(x); the filter on the live walker must equal the filter on a copy of its tokens and leave a second walk unchanged; HTMLSerializer(strip_whitespace=True, other options) must write what it writes for the hand-filtered stream. Held on everything explored.",
    "Raw-text elements = constants.rcdataElements of the pinned tree (incl. noscript); text inside title/plaintext/listing and foreign namesakes is not judged. Known finding: per-token collapsing leaves one space per token when a run is split across tokens (modelled exactly).",
    "DESIGN.md §3 C17")

reg("C06",
    "model-based + round-trip property-based testing: byte documents from a prescan-oriented grammar x all subsets/values of the five *_encoding arguments; documentEncoding vs. a reference precedence chain + reference WHATWG prescan + late-<meta> model; tree vs. parse(decode(bytes, reported))",
    "Exploration: generated byte documents (BOMs, declarations in every spelling and context, declarations within +-40 bytes of offset 1024, non-ASCII bodies) x argument subsets over valid/invalid/UTF-16 labels and look-alikes that only Unicode case mapping or white-space stripping would accept x bytes/BytesIO/non-seekable streams x {parse, parseFragment(div)}; declarations in the middle of table/select/formatting structure and CR-terminated chunks (state that must not survive the restart); padding targets 1024 and 10240. Three oracles: a certain source is never overridden; the tree equals the tree of the bytes decoded with the reported encoding; the reported encoding equals the reference prediction. Held on everything explored.",
    "Trusted: webencodings for labels; vf/ref/prescan.py (own transcription of the WHATWG prescan) and the reference tree constructor for the late-meta path. chardet absent. Known findings: html5lib's prescan variant (modelled separately), truncated multi-byte sequence at EOF. Three defects repaired.",
    "DESIGN.md §3 C06")

reg("C09",
    "property-based testing with an independent allow-list predicate (URL-standard scheme parsing, data: MIME essence, CSS declaration split) over attack-vocabulary markup, default and randomly restricted allow-lists",
    "Exploration: obfuscated URL schemes (case, embedded TAB/LF/CR, leading controls, character references, prefixes), data: URLs with MIME variants, style attributes (properties, shorthand keywords, url( spellings, escapes, comments), SVG/MathML, namespaced attributes, comments, unknown elements - (tags with several URI attributes, values a URL parser rejects, long documents, trees built with namespaceHTMLElements on and off) through parse, walk and the sanitizer filter with the default lists or seed-derived subsets of all ten constructor arguments; every output token is judged by the predicate, plus non-invention/inert-text checks. Held on everything explored.",
    "Attribute values are judged as stored in the tree; numbers/units/colours in CSS values are not constrained. One defect (KeyError with restricted protocols) repaired.",
    "DESIGN.md §3 C09")

reg("C10",
    "round-trip property-based testing for mutation XSS: generated mXSS-shaped markup -> parse -> serialize(sanitize=True) under generated options -> re-parse as document/fragment (20 contexts, scripting on/off) -> allow-list predicate on the re-parsed tree + element-origin check",
    "Exploration: raw-text/RCDATA elements with markup-looking text, attribute values carrying terminators, foreign content and integration points, table/select/formatting misnesting, noscript, comments, CDATA, combined with the C09 attack vocabulary; serializer options incl. quoting modes, omission, escape flags, whitespace stripping, output encoding and inject_meta_charset; doctype identifiers, control characters before on* names, integration points with omitted end tags and RCDATA break-outs in attribute values are part of the vocabulary; first parse with namespaceHTMLElements on/off, re-parse on a new parser or on the first parse's parser object. Every violating record is classified on its own. The re-parsed tree must contain no comment, only allow-listed elements/attributes that correspond to let-through tags, and URI/style values that satisfy the C09 predicate. Held on everything explored.",
    "Default allow-lists (the serializer's sanitize option offers no others). Two known findings stem from the serializer dropping namespaces (element and attribute namespace shift), each with an exact classifier.",
    "DESIGN.md §3 C10")

reg("C08",
    "round trip through an independent reference lexer (vf/ref/tokenizer.py) driven by the known element context: serializer output over walker streams of trees parsed from arbitrary generated markup must read back as exactly the given tokens, or a serialization error must have been reported (and raised in strict mode)",
    "Exploration: streams from soup-parsed trees (documents, fragments, both scripting flags, etree/dom walkers) x generated serializer option records (incl. output encoding and inject_meta_charset, whose designed rewrite is applied to the expectation by the tree-level model shared with C15) with optional-tag omission off; tags, attribute names/values, concatenated text, comments and doctype fields are compared token by token. Recorded serializer defects are attributed by feature classifiers on the given stream (named triggers), everything else is a violation. Held on everything explored.",
    "Trusted: the reference tokenizer (C02). 13 recorded findings (raw-text handling by element name only, plaintext, namespaced attribute prefixes, boolean minimisation, doctype quoting, element children of RCDATA elements, and under an output encoding: lone surrogates, C1 controls, raw text; CR written raw...). One defect repaired.",
    "DESIGN.md §3 C08")

reg("C15",
    "model-based round-trip property-based testing: conforming documents with generated <meta> declarations serialized under 40 output labels; the bytes parsed with no hints must report the label's encoding and give the tree predicted by a tree-level model of the meta injection applied to the unencoded serialization's tree",
    "Exploration: documents with 0..3 extra meta elements (charset / http-equiv in all spellings, in head and body), look-alike declarations inside script/style text, optionally more than 10240 bytes before the first declaration, > 1024 bytes before head, non-ASCII and astral text/attribute values x every label in a 40-label list that codecs and webencodings both accept x omission on/off x walker. the bytes are re-parsed as bytes, BytesIO or a read-only stream; documentEncoding must be the label's canonical encoding, the tree must equal model(tree of the unencoded serialization), and a declaration must sit inside head. Held on everything explored.",
    "Comments and script/style text are constructed inside the codec's repertoire (no character references there). UTF-16 output is a recorded finding; noscript raw text (C07) is excluded by construction and counted.",
    "DESIGN.md §3 C15")

reg("C12",
    "model-based stateful testing (Hypothesis RuleBasedStateMachine) of object reuse: generated histories of parse / parseFragment / strict-mode aborts / faulting input sources / serialize on shared objects and read-level thread schedules of independent parsers, compared step by step with brand-new objects and, for a sample, with a fresh interpreter",
    "Exploration: histories of <= 8 (thorough 12) steps over shared HTMLParser(etree), HTMLParser(etree root-element form), HTMLParser(dom), HTMLParser(strict) and four HTMLSerializer objects; documents include error-free ones over the stateful spots and such documents cut open plus one offending token, so strict aborts happen at varied error sites; aborts by ParseError at the first error and by IOError injected after k reads; 'threads' steps run 2-3 shared parsers - or 2-3 concurrent calls of the module-level html5lib.parse() with equal configurations - concurrently (the harness grants ONE read at a time and waits for the worker to ask for the next, so the generated schedule is the interleaving); a rule parses bytes under encoding labels and their look-alikes one after the other; a rule keeps all threads inside character references with sources gated so that the harness releases one read at a time along a generated schedule. After every step the result must equal that of brand-new objects; a sample of calls is re-computed in one freshly forked interpreter state per call (process-wide caches) and a larger batch in one fresh interpreter. Held on everything explored.",
    "Thread interleavings are owned at read() granularity only; preemptive races inside a token are out of reach. One defect (phase-object state leaking after an aborted parse) repaired.",
    "DESIGN.md §3 C12")

# clauses added after seeding round 5 (appended to the level text of the property)
EXTRA = {
    "C01": " Enumerated families added later: foreign elements named like HTML structure elements, integration point x mis-nested formatting element x one following token, newlines in and after pre/listing/textarea.",
    "C02": " A case may have another document parsed by html5lib.parse() in the same process before it (tokens a tree builder modified must not leak into later tokenizer output) and may arrive as an io.StringIO whose beginning was already read. Token granularity: html5lib's raw character-token boundaries must be the same for one-piece and short-read input; a case may also be preceded by an ABANDONED strict parse in the same process.",
    "C03": " Byte documents whose declaration lies behind the prescan window are enumerated over an alphabet of ISO-2022-JP escape sequences and <meta> declarations x encoding hints (bytes that are markup in one decoding pass and text in the other). Length families may carry a counter (thousands of DISTINCT formatting elements / attributes inside marker scopes that are then closed).",
    "C05": " Texts contain <meta> declarations of other encodings followed by non-ASCII text (a declaration must not matter once the encoding is certain).",
    "C07": " A second shard enumerates EVERY Unicode scalar value (runs of 127 consecutive code points as text and as attribute value) through two narrow output encodings and reads it back. A 'family' shard sends hand-written conforming documents (one or more per optional-tag rule, empty head/body and comment combinations) through four option records.",
    "C08": " Re-render leg: the caller's own token list object is rendered once with alphabetical_attributes and then again by the judged run; nothing of it may be missing the second time.",
    "C10": " The sanitized output may also be re-read as BYTES without any encoding information (BOM / <meta> prescan / default decide), with quotes, <meta> look-alikes and ISO-2022-JP escapes inside attribute values in the vocabulary.",
    "C11": " The etree walker is also taken for a second ElementTree implementation (pure-Python module loaded beside the accelerated one), requested after the default walker: same document, same stream. Doctype identifiers are compared as they are ('' is not None). The recorded finding about a void-listed element with children names event-source only (the one such element the unchanged parser gives children).",
    "C12": " A fifth parser kind uses getTreeBuilder('etree', implementation=<second ElementTree implementation>) without further keywords; the class of the returned object is part of the compared result. Rule 'rewalk': ONE tree walker object (over a fragment or a single element) rendered 2-4 times with in-place editing filters in between; every rendering equals a brand-new walker's.",
    "C13": " The conforming documents are also run under the eight other DOCTYPEs a conforming document may carry; the grammar includes empty body elements and a comment after </body>. A 'family' shard runs hand-written conforming documents (markup entry; one or more per optional-tag rule x heads x tails, document-level empty head/body/comment combinations) with both walkers, independent of generator statistics.",
    "C15": " Both parses may run with scripting=True (documents without a declaration inside head noscript and without unencodable text); every Unicode scalar value is written under narrow encodings in runs of 127 and read back.",
    "C16": " Absolute leg: for a document on which html5lib records no error, the reference tree constructor must not have passed any parse-error step of the standard (one-directional: it reports missing errors); exercised by conforming documents with one mutation (cut, DOCTYPE variant, inserted token). Byte-input shard: strict vs. non-strict when the first decoding pass is abandoned for a re-parse. Byte input: every recorded position is validated against the text as finally decoded; lexical leg: a conforming document with ONE tokenizer-level mistake at the end of body (51 snippets, each a parse error by the standard) must record an error.",
    "C17": " A second leg is judged against the tree (own traversal) instead of the walker's stream: all non-whitespace characters of the tree come out in order, and text the tree places outside preserve elements keeps no tab/LF/FF/CR. The filtered dom stream must not depend on how the text arrives (same text through a short-read stream).",
    "C18": " The serializer clause also goes through html5lib.serializer.serialize(), preceded by calls with other options of equal values.",
    "C19": " to_sax is also run over getTreeWalker('etree', implementation=<second ElementTree implementation>) requested after the default walker; the events must equal the default implementation's. to_sax is also run over a SUBTREE walk (an element with following siblings) with both walkers.",
    "C04": " Validity predicate on every etree result: no two elements hold the same attribute mapping object.",
    "C09": " Custom lists are subsets of nine constructor arguments and SUPERSETS of attr_val_is_uri (a caller adds attributes it wants scheme-checked).",
    "C14": " References in text directly inside table / tr / tbody (pending table text), select and caption.",
    "C20": " The shared filter object also coerces public identifiers and comments between names; names may contain non-ASCII decimal digits after 'U'.",
}

NOT_APPLICABLE = {}


def main():
    props = [json.loads(l) for l in open(os.path.join(HERE, "properties.jsonl"))]
    ids = [p["id"] for p in props]
    checks = []
    for pid in ids:
        if pid not in CHECKS:
            continue
        tech, text, note, ref = CHECKS[pid]
        text = text + EXTRA.get(pid, "")
        checks.append({
            "property_id": pid,
            "quick_cmd": "./check %s --tier quick" % pid,
            "thorough_cmd": "./check %s --tier thorough" % pid,
            "evidence_file": "evidence/%s.json" % pid,
            "replay_cmd_template": "./check %s --replay {path}" % pid,
            "engine": "vf-runner",
            "level_claimed": {"category": "exploration", "text": text, "design_ref": ref},
            "level_note": note,
            "technique": tech,
        })
    na = []
    for pid in ids:
        if pid not in CHECKS:
            na.append({"property_id": pid,
                       "reason": NOT_APPLICABLE.get(pid, "check not built yet (in progress; see DESIGN.md §8 build order) - not claimed until its check is quiet on the unchanged tree")})
    m = {
        "version": 1,
        "setup_cmd": "./setup.sh",
        "hooks": {"guard": "HTML5LIB_VERIF", "enable": "no source hooks are needed: checks import html5lib from /repo's working tree via PYTHONPATH (env HTML5LIB_VERIF=1 is set by ./check but nothing in /repo reads it)",
                  "baseline_off_cmd": "cd /repo && /venv/bin/python -m pytest -ra -q -p no:cacheprovider --timeout=900 --continue-on-collection-errors",
                  "source_commits": [], "add_only": True},
        "engines": [
            {"name": "vf-runner", "path": "vf/core.py", "serves_properties": sorted(CHECKS),
             "kind_free_text": "sharded (16 processes) Hypothesis generation + bounded-exhaustive enumeration against explicit oracles (reference models in vf/ref, round trips, differential and metamorphic relations); collect-then-ddmin shrinking; JSON replay files"},
        ],
        "checks": checks,
        "not_applicable": na,
        "notes": "All checks honour VERIF_SEED and VERIF_TIER. Exit 0 = held on everything explored (KNOWN-FINDING lines allowed), 1 = VIOLATION, 2 = harness error. known_findings.json lists recorded/fixed defects.",
    }
    with open(os.path.join(HERE, "MANIFEST.json"), "w") as f:
        json.dump(m, f, indent=1)
        f.write("\n")
    print("MANIFEST: %d checks, %d not_applicable" % (len(checks), len(na)))


if __name__ == "__main__":
    main()
