#!/bin/sh
# tools/seed6.sh <PID> : evaluate the round-6 seeds of one property (scratch worktree /tmp/w6_<PID>, removed afterwards by hand)
id=$1
for k in 1 2; do
  [ -f /tmp/w6_$id/seed_out/$k/patch.diff ] || continue
  echo "== $id-r6-$k"
  timeout 3000 python3 /verif/tools/seedtest.py $id /tmp/w6_$id/seed_out/$k $id-r6-$k 2>&1 | tail -6
done
