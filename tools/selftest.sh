#!/bin/sh
# tools/selftest.sh <ID> [tier]  : run the check against every mutant in mutants/<ID>/; each must be detected (exit 1).
# mutants/<ID>/neutral-*.patch must NOT be detected (exit 0).  Not a registered check; scratch copies live under $TMPDIR.
id=$1; tier=${2:-quick}
ok=0; bad=0
export VERIF_FAST_FAIL=1     # only "exit 1 or not" matters here: stop at the first failing case (vf/core.py)
for p in /verif/mutants/$id/*.patch; do
  [ -f "$p" ] || continue
  n=$(basename $p .patch)
  if [ -n "$SR_LOCK" ]; then mkdir "$SR_LOCK/mut-$id-$n" 2>/dev/null || continue; fi
  out=$(/verif/tools/mut.sh $p $id --tier $tier 2>&1); rc=$?
  case $n in neutral-*) want=0;; *) want=1;; esac
  if [ $rc -eq $want ]; then ok=$((ok+1)); echo "ok   $id/$n rc=$rc $(echo "$out" | grep -m1 bucket= | cut -c1-150)";
  else bad=$((bad+1)); echo "MISS $id/$n rc=$rc (want $want)"; echo "$out" | tail -3; fi
done
echo "selftest $id: $ok as expected, $bad not"
[ $bad -eq 0 ]
