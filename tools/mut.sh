#!/bin/sh
# tools/mut.sh <patch-file|-> <ID> [check args...]   : run a check against a scratch copy of /repo with a patch applied.
# The copy lives under $TMPDIR (default /tmp), is removed afterwards; evidence/replays go to the scratch dir too.
patch=$1; id=$2; shift 2
case "$patch" in -|/*) ;; *) patch=$(pwd)/$patch;; esac
d=$(mktemp -d ${TMPDIR:-/tmp}/h5mut.XXXXXX)
mkdir -p $d/repo && cp -r /repo/html5lib $d/repo/ && find $d/repo -name __pycache__ -prune -exec rm -rf {} +
if [ "$patch" != "-" ]; then (cd $d/repo && patch -p1 -s < "$patch") || { echo "patch failed"; rm -rf $d; exit 3; }; fi
VERIF_REPO=$d/repo VERIF_OUT=$d/out /verif/check $id "$@"
rc=$?
[ -n "$KEEP" ] && echo "kept $d" || rm -rf $d
exit $rc
