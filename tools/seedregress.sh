#!/bin/sh
# tools/seedregress.sh [pattern] : re-run the quick check of every stored seed's property against the seed (scratch copies under $TMPDIR, removed);
# (a seed whose meta.json has check_with is run against that property's check: its change breaks the clause another listed property owns)
# prints one line per seed; every line must say rc=1 (seeds made for a tree before a later fix rewrote the same lines, and the one
# seed that a fix neutralised, are listed as n/a with the reason from their meta.json).
export VERIF_FAST_FAIL=1     # only "exit 1 or not" matters here: stop at the first failing case (vf/core.py)
for d in /verif/seeded/${1:-*}; do
  n=$(basename $d)
  # several instances can share the work: with SR_LOCK=<dir> a seed is taken by whoever creates its lock directory first
  if [ -n "$SR_LOCK" ]; then mkdir "$SR_LOCK/$n" 2>/dev/null || continue; fi
  na=$(python3 -c "
import json;m=json.load(open('$d/meta.json'))
print(m.get('applies_to') or ('not a valid seed on the current tree' if m.get('valid_seed') is False else ''))")
  id=$(python3 -c "import json;m=json.load(open('$d/meta.json'));print(m.get('check_with') or m['property'])")
  if [ -n "$na" ]; then echo "$n $id n/a ($na)"; continue; fi
  out=$(/verif/tools/mut.sh $d/patch.diff $id 2>&1); rc=$?
  echo "$n $id rc=$rc $(echo "$out" | grep -a -m1 'bucket=' | cut -c1-120)"
done
