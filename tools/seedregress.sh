#!/bin/sh
# tools/seedregress.sh [pattern] : re-run the quick check of every stored seed's property against the seed (scratch copies under $TMPDIR, removed);
# prints one line per seed; every line must say rc=1.
for d in /verif/seeded/${1:-*}; do
  n=$(basename $d); id=$(python3 -c "import json;print(json.load(open('$d/meta.json'))['property'])")
  out=$(/verif/tools/mut.sh $d/patch.diff $id 2>&1); rc=$?
  echo "$n $id rc=$rc $(echo "$out" | grep -a -m1 'bucket=' | cut -c1-120)"
done
