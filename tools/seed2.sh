#!/bin/sh
# tools/seed2.sh <PID> : evaluate the round-2 seeds of one property (scratch worktree /tmp/w2_<PID>, removed afterwards by hand)
id=$1
for k in 1 2 3; do
  [ -f /tmp/w2_$id/seed_out/$k/patch.diff ] || continue
  echo "== $id-r2-$k"
  timeout 3000 python3 /verif/tools/seedtest.py $id /tmp/w2_$id/seed_out/$k $id-r2-$k 2>&1 | tail -6
done
