#!/usr/bin/env python3
"""tools/seednote.py <seed name> <text> : record that a seed was missed at first and what was strengthened."""
import json, sys
p = "/verif/seeded/%s/meta.json" % sys.argv[1]
m = json.load(open(p))
m["first_run_detected"] = False
m["strengthening"] = sys.argv[2]
json.dump(m, open(p, "w"), indent=1)
