#!/bin/sh
# tools/seed6.sh <PID> : evaluate the round-7 seeds of one property (scratch worktree /tmp/w7_<PID>, removed afterwards by hand)
id=$1
for k in 1; do
  [ -f /tmp/w7_$id/seed_out/$k/patch.diff ] || continue
  echo "== $id-r7-$k"
  timeout 3000 python3 /verif/tools/seedtest.py $id /tmp/w7_$id/seed_out/$k $id-r7-$k 2>&1 | tail -6
done
