#!/usr/bin/env python3
"""tools/seedtest.py <PID> <seed_out dir> <name>
Verify an independently produced seeded defect and run the property's quick check against it.
 1. scratch copy of /repo + patch: baseline suite must pass, demo.py must exit 1; on the unpatched copy demo.py must exit 0;
 2. ./check <PID> against the patched copy (VERIF_REPO) must exit 1;
 3. the seed is stored as /verif/seeded/<name>/ {patch.diff, demo.py, notes.md, meta.json}.
Scratch copies live under $TMPDIR and are removed."""
import json, os, shutil, subprocess, sys, tempfile, time
HERE = os.path.dirname(os.path.dirname(os.path.abspath(__file__)))
pid, src, name = sys.argv[1:4]
extra = sys.argv[4:]
d = tempfile.mkdtemp(prefix="h5seed.")
meta = {"property": pid, "source": "independent sub-agent working from the property text only", "ran": []}
try:
    clean = os.path.join(d, "clean"); mut = os.path.join(d, "mut")
    for t in (clean, mut):
        subprocess.check_call(["git", "-C", "/repo", "worktree", "add", "-q", "--detach", t, "HEAD"])
    r = subprocess.run(["git", "-C", mut, "apply", os.path.join(src, "patch.diff")], capture_output=True, text=True)
    if r.returncode:
        print("patch does not apply:", r.stderr[:300]); meta["result"] = "patch-does-not-apply"; raise SystemExit(3)
    env = dict(os.environ, PYTHONDONTWRITEBYTECODE="1")
    t = subprocess.run(["/venv/bin/python", "-m", "pytest", "-q", "-p", "no:cacheprovider", "-x"], cwd=mut, capture_output=True, text=True, env=env, timeout=900)
    tail = t.stdout.strip().splitlines()[-1] if t.stdout.strip() else ""
    meta["ran"].append("baseline suite on patched copy: " + tail)
    suite_ok = t.returncode == 0
    dm = subprocess.run(["timeout", "300", "/venv/bin/python", os.path.join(src, "demo.py"), mut], capture_output=True, text=True, env=env)
    dc = subprocess.run(["timeout", "300", "/venv/bin/python", os.path.join(src, "demo.py"), clean], capture_output=True, text=True, env=env)
    meta["ran"].append("demo.py on patched copy: exit %d; on clean copy: exit %d" % (dm.returncode, dc.returncode))
    demo_ok = dm.returncode == 1 and dc.returncode == 0
    print("suite_ok=%s (%s) demo patched=%d clean=%d" % (suite_ok, tail, dm.returncode, dc.returncode))
    out = os.path.join(d, "out")
    t0 = time.time()
    env2 = dict(os.environ, VERIF_REPO=mut, VERIF_OUT=out)
    c = subprocess.run([os.path.join(HERE, "check"), pid, "--tier", "quick"] + extra, capture_output=True, text=True, env=env2, timeout=3600)
    lines = [l for l in c.stdout.splitlines() if l.startswith("VIOLATION") or l.strip().startswith("bucket=")]
    meta["ran"].append("./check %s --tier quick against the patched copy: exit %d in %.0fs; %s" % (pid, c.returncode, time.time() - t0, "; ".join(l.strip()[:200] for l in lines[:4])))
    print("check rc=%d" % c.returncode)
    for l in lines[:4]:
        print("  ", l.strip()[:220])
    meta["valid_seed"] = bool(suite_ok and demo_ok)
    meta["detected_by_quick_check"] = c.returncode == 1
    dst = os.path.join(HERE, "seeded", name)
    os.makedirs(dst, exist_ok=True)
    for f in ("patch.diff", "demo.py", "notes.md"):
        if os.path.exists(os.path.join(src, f)):
            shutil.copy(os.path.join(src, f), os.path.join(dst, f))
    try:
        notes = open(os.path.join(src, "notes.md")).read()
    except Exception:
        notes = ""
    meta["needs_to_manifest"] = notes[:1500]
    try:
        old = json.load(open(os.path.join(dst, "meta.json")))
    except Exception:
        old = {}
    # the first evaluation of a seed is remembered; later runs (after strengthening a check) do not overwrite it
    meta["first_run_detected"] = old.get("first_run_detected", meta["detected_by_quick_check"])
    if "strengthening" in old:
        meta["strengthening"] = old["strengthening"]
    json.dump(meta, open(os.path.join(dst, "meta.json"), "w"), indent=1)
finally:
    for t in ("clean", "mut"):
        subprocess.run(["git", "-C", "/repo", "worktree", "remove", "--force", os.path.join(d, t)], capture_output=True)
    shutil.rmtree(d, ignore_errors=True)
