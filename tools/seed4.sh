#!/bin/sh
# tools/seed2.sh <PID> : evaluate the round-4 seeds of one property (scratch worktree /tmp/w4_<PID>, removed afterwards by hand)
id=$1
for k in 1 2; do
  [ -f /tmp/w4_$id/seed_out/$k/patch.diff ] || continue
  echo "== $id-r4-$k"
  timeout 3000 python3 /verif/tools/seedtest.py $id /tmp/w4_$id/seed_out/$k $id-r4-$k 2>&1 | tail -6
done
