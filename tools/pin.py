#!/usr/bin/env python3
"""tools/pin.py <PID> <finding-id> <known|fixed> <title> <case.json | replay path> [commit]
Adds/updates an entry in known_findings.json with a pinned replay replays/<PID>/pin-<finding-id>.json."""
import json, os, sys
HERE = os.path.dirname(os.path.dirname(os.path.abspath(__file__)))
pid, fid, status, title, src = sys.argv[1:6]
commit = sys.argv[6] if len(sys.argv) > 6 else None
rec = json.load(open(src if os.path.isabs(src) else os.path.join(HERE, src)))
case = rec["case"] if "case" in rec and "property" in rec else rec
rel = "replays/%s/pin-%s.json" % (pid, fid)
os.makedirs(os.path.join(HERE, "replays", pid), exist_ok=True)
json.dump({"property": pid, "kind": "known" if status == "known" else "regression", "finding": fid, "case": case,
           "created_by": "tools/pin.py"}, open(os.path.join(HERE, rel), "w"), indent=1, sort_keys=True)
kf = os.path.join(HERE, "known_findings.json")
L = json.load(open(kf))
L = [e for e in L if e["id"] != fid]
e = {"id": fid, "property": pid, "status": status, "title": title, "pinned": rel}
if commit:
    e["commit"] = commit
L.append(e)
L.sort(key=lambda e: (e["property"], e["id"]))
json.dump(L, open(kf, "w"), indent=1)
print("pinned", fid, rel)

# keep the plain-text view in step
import subprocess, os
subprocess.call(["python3", os.path.join(os.path.dirname(os.path.abspath(__file__)), "mkfindings.py")])
