#!/usr/bin/env python3
"""tools/mkmut.py <ID> <name> <file relative to /repo> <old> <new> [count]
Create mutants/<ID>/<name>.patch replacing one occurrence (the count-th, default must be unique) of <old> by <new>."""
import difflib, os, sys
HERE = os.path.dirname(os.path.dirname(os.path.abspath(__file__)))
pid, name, rel, old, new = sys.argv[1:6]
nth = int(sys.argv[6]) if len(sys.argv) > 6 else None
old = old.encode().decode("unicode_escape") if "\\n" in old else old
new = new.encode().decode("unicode_escape") if "\\n" in new else new
src = open(os.path.join("/repo", rel)).read()
n = src.count(old)
if n == 0 or (n > 1 and nth is None):
    sys.exit("old text occurs %d times" % n)
if nth is None:
    dst = src.replace(old, new, 1)
else:
    parts = src.split(old)
    dst = old.join(parts[:nth]) + new + old.join(parts[nth:])
diff = "".join(difflib.unified_diff(src.splitlines(True), dst.splitlines(True), "a/" + rel, "b/" + rel))
os.makedirs(os.path.join(HERE, "mutants", pid), exist_ok=True)
open(os.path.join(HERE, "mutants", pid, name + ".patch"), "w").write(diff)
print("wrote mutants/%s/%s.patch" % (pid, name))
