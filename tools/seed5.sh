#!/bin/sh
# tools/seed2.sh <PID> : evaluate the round-5 seeds of one property (scratch worktree /tmp/w5_<PID>, removed afterwards by hand)
id=$1
for k in 1 2; do
  [ -f /tmp/w5_$id/seed_out/$k/patch.diff ] || continue
  echo "== $id-r5-$k"
  timeout 3000 python3 /verif/tools/seedtest.py $id /tmp/w5_$id/seed_out/$k $id-r5-$k 2>&1 | tail -6
done
