"""Markup "soup": Hypothesis strategies producing arbitrary (mostly malformed) HTML source text.

Any Unicode string is a legal parser input, so soundness is trivial; the job of this module is
completeness/bias: reach table, select, formatting-misnesting, foreign-content, head/noscript,
frameset, raw-text and after-body machinery with high probability.
A case is drawn as a list of lexical items (so structure is meaningful) and joined into one string.
"""
from hypothesis import strategies as st

HTML_NAMES = """a abbr address applet area article aside audio b base basefont bdi bdo bgsound big blink
blockquote body br button canvas caption center cite code col colgroup command data datalist dd del details dfn
dialog dir div dl dt em embed fieldset figcaption figure font footer form frame frameset h1 h2 h3 h4 h5 h6 head
header hgroup hr html i iframe image img input ins isindex kbd keygen label legend li link listing main map mark
marquee menu menuitem meta meter multicol nav nextid nobr noembed noframes noscript object ol optgroup option
output p param picture plaintext pre progress q rb rp rt rtc ruby s samp script section select slot small source
spacer span strike strong style sub summary sup table tbody td template textarea tfoot th thead time title tr
track tt u ul var video wbr xmp event-source""".split()

SVG_NAMES = """svg foreignObject foreignobject desc title path g circle use altGlyph altglyph clipPath
lineargradient textPath script style a font image""".split()
MATH_NAMES = "math mi mo mn ms mtext annotation-xml mglyph malignmark semantics mrow".split()
ODD_NAMES = ["a\xc9", "a\xe9", "a\u212a", "ak", "a\u0130", "ai\u0307", "m\u03a9", "m\u03c9", "a}b", "o:p", "x\xa0y", "x", "m", "h", "ht", "htm", "tml", "a:b", "xlink:href", "é", "a<b", "a\"b", "a=b", "p\x00", "DIV", "Table",
             "sVg", "MATH", "h7", "x-y", "a1", "tr/", "b\ud800", "x}pre", "my}script", "t}textarea", "p}", "\U0001F600x".replace("\U0001F600", "q\U0001F600")]

FORMATTING = "a b big code em font i nobr s small strike strong tt u".split()
TABLE = "table caption colgroup col tbody thead tfoot tr td th".split()
SELECT = "select option optgroup input keygen textarea".split()
HEAD = "head title meta link base basefont bgsound style script noscript noframes template command".split()
BLOCK = "div p ul ol li dl dt dd h1 h2 pre listing form button address blockquote center section main dialog details summary hr br".split()
RAW = "title textarea style script xmp iframe noembed noframes noscript plaintext".split()
FRAMESET = "frameset frame noframes".split()
FOREIGN = SVG_NAMES + MATH_NAMES
RUBY = "ruby rb rt rp rtc".split()
SCOPE = "applet marquee object".split()

PROFILES = {
    "general": [(6, BLOCK), (4, FORMATTING), (3, TABLE), (2, SELECT), (2, HEAD), (2, FOREIGN), (1, RAW), (1, RUBY),
                (1, SCOPE), (1, FRAMESET), (3, HTML_NAMES), (1, ODD_NAMES), (1, ["html", "body", "head"])],
    "table": [(8, TABLE), (3, FORMATTING), (3, BLOCK), (2, SELECT), (1, ["form", "input", "script", "style", "template"]),
              (1, HTML_NAMES), (1, FOREIGN)],
    "formatting": [(8, FORMATTING), (5, BLOCK), (2, TABLE), (1, SCOPE), (1, ["button", "select", "svg", "math"]), (1, HTML_NAMES)],
    "foreign": [(7, FOREIGN), (3, BLOCK), (2, FORMATTING), (2, TABLE), (1, ["font", "br", "p", "img", "span", "ruby", "body", "head"]),
                (1, HTML_NAMES), (1, ODD_NAMES)],
    "select": [(8, SELECT), (3, TABLE), (2, BLOCK), (1, FORMATTING), (1, ["script", "template", "hr", "svg"]), (1, HTML_NAMES)],
    "head": [(8, HEAD), (2, ["html", "body", "head", "frameset"]), (2, BLOCK), (1, HTML_NAMES), (1, ["br", "p"])],
    "frameset": [(8, FRAMESET), (2, ["html", "body", "head", "noframes"]), (2, BLOCK), (1, ["input", "br", "svg", "p"]), (1, HTML_NAMES)],
    "raw": [(7, RAW), (3, BLOCK), (2, FORMATTING), (1, FOREIGN), (1, HTML_NAMES), (1, TABLE)],
    "ruby": [(7, RUBY), (3, BLOCK), (2, FORMATTING), (1, HTML_NAMES)],
    "body": [(8, ["body", "html", "head", "p", "b", "br"]), (2, BLOCK), (2, FORMATTING), (1, HTML_NAMES)],
}
PROFILE_NAMES = sorted(PROFILES)


ATTR_NAMES = ["id", "class", "a", "b", "title", "type", "encoding", "color", "face", "size", "xlink:href", "xml:lang",
              "xmlns", "xmlns:xlink", "definitionurl", "viewbox", "A", "href", "src", "style", "action", "prompt", "name",
              "xml:base", "xlink:title", "charset", "http-equiv", "content", "checked", "é", "a\"", "<", "a'b", "=x", "0"]
ATTR_VALUES = ["&amp;lt;", "&amp;#60;x", "&amp;amp", "a&amp;b;", "", "1", "x", "hidden", "HIDDEN", "text/html", "TEXT/HTML", "application/xhtml+xml", "a b", "&amp;", "&amp",
               "&lt", "a>b", "a<b", "'", "\"", "`", "=", "\x00", "é", "\U0001F600", "javascript:alert(1)", "x\ny",
               "&#x41;", "&notit;", "utf-8", "text/html; charset=utf-8", "content-type", "</p>", "-->", "\ud83d",
               "\xc9cole", "\xc4=1", "\xd1;", "\xc0", "\u2264", "\u2229\u222a"]     # capitals whose legacy entity name exists without ';' (matters under a narrow output encoding)


TEXT_ATOMS = ["&amp;lt;", "&amp;#60;", "&amp;amp;", "a", "b", "x", "y", "1", " ", " ", "\n", "\t", "\f", "\r", "\r\n", "\x00", "&amp;", "&lt", "&#x41;", "&", "&#0;",
              "&notit;", "<", ">", "\U0001F600", "\ud800", "\udc00", "\x01", "\ufffe", "é", "ab cd", "  ", "]]>", "--", "=", "\"", "'",
              "&#xD800;", "&#x80;", "\x7f", " ", "/", "!",
              "\xc9;", "\xc9c", "&#x10FFFF;", "&#x110000;", "&#1114111", "&#xFFFF;",
              # references to characters that are white space to Unicode / Python but not to HTML
              "&nbsp;", "&#160;", "&emsp;", "&#x2003;", "&#11;", "&#x1f;", "&#x2028;", "&thinsp;", "&#x3000;", "\x0b", "\x1c", "\u2003", "&#13;", "a&#xD;b", "\u2264", "\u2229x", "\u2282", "\u2220", "\ufeff"]

COMMENTS = ["<!--c-->", "<!---->", "<!-->", "<!--->", "<!--a--!>", "<!-- -- -->", "<!--a--", "<!--", "<!x>", "<!>", "<?pi?>", "<?",
            "</ x>", "</>", "<!--<!---->", "<!--a-b--c--->", "<!--\x00-->", "<!---\x00-->", "<!--a\r\nb-->", "<!-- <p> -->",
            "<!--[if x]>", "<![endif]-->", "<!-"]
DOCTYPES = ["<!DOCTYPE html PUBLIC \"\">", "<!DOCTYPE html SYSTEM ''>", "<!DOCTYPE html PUBLIC \"\" \"\">", "<!DOCTYPE html PUBLIC \"-//W3C//DTD HTML 4.01//EN\" \"\">",
            "<!DOCTYPE x PUBLIC '' 'sys'>", "<!DOCTYPE x SYSTEM \"a\">", "<!DOCTYPE html SYSTEM '\"a'>", "<!DOCTYPE html SYSTEM 'a\"b'>", "<!DOCTYPE html PUBLIC \"p\" 'a\"b'>", "<!DOCTYPE html PUBLIC 'a\"b'>", "<!DOCTYPE html SYSTEM \"a'b\">",
            "<!DOCTYPE html>", "<!doctype html>", "<!DOCTYPE>", "<!DOCTYPE html PUBLIC \"-//W3C//DTD HTML 4.01//EN\">",
            "<!DOCTYPE html PUBLIC \"-//W3C//DTD HTML 4.01 Transitional//EN\">",
            "<!DOCTYPE html PUBLIC \"-//W3C//DTD HTML 4.01 Transitional//EN\" \"http://www.w3.org/TR/html4/loose.dtd\">",
            "<!DOCTYPE html PUBLIC \"-//W3C//DTD XHTML 1.0 Transitional//EN\" \"x\">",
            "<!DOCTYPE html PUBLIC \"-//W3C//DTD HTML 3.2//EN\">", "<!DOCTYPE html SYSTEM \"about:legacy-compat\">",
            "<!DOCTYPE html SYSTEM \"http://www.ibm.com/data/dtd/v11/ibmxhtml1-transitional.dtd\">",
            "<!DOCTYPE x>", "<!DOCTYPE html PUBLIC \"HTML\">", "<!DOCTYPE html PUBLIC 'a' 'b' c>", "<!DOCTYPE html PUBLIC>",
            "<!DOCTYPE html SYSTEM>", "<!DOCTYPE html x>", "<!DOCTYPE html", "<!DOCTYPE\x00", "<!DOCTYPE html PUBLIC \"-//W3O//DTD W3 HTML Strict 3.0//EN//\">",
            "<!DOCTYPE HTML PUBLIC \"-//IETF//DTD HTML//EN\">", "<!DOCTYPE html PUBLIC \"-//W3C//DTD XHTML 1.0 Frameset//EN\">",
            "<!DOCTYPE html PUBLIC \"-//W3C//DTD HTML 4.01 Frameset//EN\">", "<!DOCTYPE html PUBLIC \"-/W3C/DTD HTML 4.0 Transitional/EN\">",
            "<!DOCTYPE html PUBLIC \"-//w3c//dtd html 4.0 transitional//en\">"]
CDATA = ["<![CDATA[x]]>", "<![CDATA[a]]]>", "<![CDATA[<p>]]>", "<![CDATA[", "<![CDATA[\x00]]>", "<![cdata[x]]>", "<![CDATA[a]]b]]>"]
JUNK = ["<svg><a\xc9>x</a\xe9>y", "<math><m\u03a9>x</m\u03c9>y", "<svg><a\u212a>x</ak>y</svg>z", "<svg><a\u0130>x</ai\u0307>y", "<input type=hidden>", "<input type=HIDDEN>", "<p><b></p></b>", "<table><input type=hidden>", "<", "</", "<a", "<a b=\"", "<a b='x", "<a b", "<a b=", "<a /", "</a ", "<a/b=c>", "<a =b>", "< a>", "<a\x00b>", "<3",
        "</3>", "<a b=c d>", "<a b=\"c\"d>", "<a b=c/>", "<p/>", "<br/>", "<svg/>", "<a a=1 a=2>"]



def foreign_namesake_docs():
    """Foreign elements that are NAMED like HTML table-structure / select / frameset elements, an integration point beneath them, a
    complete HTML table or select inside it, then a table-structure token: every place where html5lib looks at a name without
    looking at the namespace is one step of this grammar (enumerated completely: 2 x 11 x 6 x 3 x 8 documents)."""
    out = []
    for root in ("<svg>", "<math>"):
        for name in ("tr", "td", "th", "tbody", "thead", "tfoot", "caption", "colgroup", "select", "frameset", "html"):
            for ip in ("<foreignObject>", "<desc>", "<title>", "<mi>", "<mtext>", "<annotation-xml encoding=text/html>"):
                for inner in ("<select></select>", "<table></table>", "<table><tr><td></table>"):
                    for follow in ("<caption>", "<col>", "<tr>", "<td>", "<tbody>", "x", "<option>", "</table>"):
                        out.append("%s<%s>%s%s%s" % (root, name, ip, inner, follow))
                # the integration point directly followed by tokens that look at the stack by name
                for follow in ("<frameset>", "<body a=1>", "<html b=2>", "</body>", "</html>x", "<head>", "<frameset><frame>"):
                    out.append("%s<%s>%s%s" % (root, name, ip, follow))
    # an HTML element open, a foreign element of the SAME name inside it, an integration point, then the HTML element's own end tag /
    # a start tag that implies it: "pop until an X element has been popped" means an HTML X
    for ctx, name in (("<table><tr><td>", "td"), ("<table><tr><th>", "th"), ("<table><caption>", "caption"), ("<p>", "p"), ("<div>", "div"), ("<ul><li>", "li"), ("<dl><dd>", "dd"),
                      ("<h1>", "h2"), ("<object>", "object"), ("<select>", "select"), ("<table>", "table"), ("<span>", "span"), ("<button>", "button"), ("<table><tr>", "tr"), ("<form>", "form")):
        for root in ("<svg>", "<math>"):
            for ip in ("<foreignObject>", "<desc>", "<mi>", "<annotation-xml encoding=text/html>"):
                for follow in ("</%s>x", "<%s>x", "</%s><%s>y", "x</%s>z"):
                    out.append(ctx + root + "<" + name + ">" + ip + follow.replace("%s", name))
    return out


def integration_afe_docs():
    """Inside an integration point: a block and a formatting element opened, mis-nested so that the formatting element is left in
    the list of active formatting elements, then ONE token - what decides between the current insertion mode (reconstruct the
    formatting elements) and the foreign-content rules.  6 x 7 x 14 documents, each also with the foreign root closed afterwards."""
    out = []
    for ip in ("<svg><foreignObject>", "<svg><desc>", "<svg><title>", "<math><annotation-xml encoding=text/html>", "<math><mi>", "<math><mtext>"):
        for inner in ("<p><b></p>", "<b><p></b>", "<div><i><a href=u></div>", "<p><b><i></p>", "<a><table></a>", "<b></b><p><nobr></p>", "<p><font color=red></p>"):
            for nxt in (" x", "\n", "\tx", "x", "&#32;x", "\x0c", "\r\ny", "<i>", "</svg>", "</math>", "\x00", "<!--c-->", "  </p>z", "<br>"):
                out.append(ip + inner + nxt)
                out.append(ip + inner + nxt + "</svg></math>w")
    return out


def newline_docs():
    """Newlines in and around the elements whose first newline is dropped (pre, listing, textarea) and their look-alikes: the newline as
    first character, after a character reference, after a stray '<', after NUL, as CR / CRLF / reference."""
    out = []
    for el in ("textarea", "pre", "listing", "title", "div", "svg"):
        for lead in ("", "\n", "a", "&amp;", "<", "\x00", "a&#50;", "<b>", " "):
            for mid in ("\n", "\r\n", "&#10;", "\r", "\n\n"):
                for tail in ("b", "", "\nb</%s>\nc" % el):
                    out.append("<%s>%s%s%s" % (el, lead, mid, tail))
                    out.append("<%s>%s%s%s</%s><%s>x%sy" % (el, lead, mid, tail, el, el, mid))
    return out


def long_docs():
    """A few LONG documents (thousands of tokens when walked): block-wise buffering, caches that fill up and counters are only
    exercised by inputs of this size; nothing any property states depends on how much came before."""
    return [
        "<p a=1 b=2>x</p>" * 700,
        "<ul>" + "<li>i <b>b</b> </li>" * 420 + "</ul>",
        "<table>" + "<tr><td>c</td><th> h </th></tr>\n" * 300 + "</table>",
        "<pre>" + " x  y\n" * 400 + "</pre>" + "<p> a   b\t\n c </p>" * 350 + "<textarea>\n q  r</textarea>",
        "".join("<a href='%s:x' style='color: red; position: fixed' title=t onclick=x id=i%d>l</a><!--c--><script>s</script> " % (("http", "javascript", "data", "HTTPS")[i % 4], i) for i in range(330)),
        "<svg>" + "<g xlink:href='#a' xml:lang=en><circle r=1 /></g>" * 400 + "</svg>" + "<math><mi xlink:href=x>m</mi></math>" * 100,
        "<select>" + "<option>o<optgroup label=l>" * 400 + "</select>" + "<dl>" + "<dt>t<dd>d" * 400 + "</dl>",
        "x" * 1100 + "<b>" + " y" * 2000 + "</b>" + "&amp;" * 1200,
        # ONE text node with hundreds of white-space runs of different shapes (any per-string limit on substitutions shows here)
        "<p>" + "w \n x  y\t" * 220 + "</p><div>" + "a  b " * 300 + "\n\n c</div>",
    ]


class Dec(object):
    """Decode structured choices from a byte string (data-provider style, shared by the Hypothesis
    strategies and the atheris fuzz targets).  Exhausted input yields zeros."""
    __slots__ = ("d", "i")

    def __init__(self, data):
        self.d = data
        self.i = 0

    def more(self):
        return self.i < len(self.d)

    def byte(self):
        if self.i < len(self.d):
            b = self.d[self.i]
            self.i += 1
            return b
        return 0

    def below(self, n):
        if n <= 1:
            return 0
        if n <= 256:
            return self.byte() % n
        return ((self.byte() << 8) | self.byte()) % n

    def pick(self, seq):
        return seq[self.below(len(seq))]

    def chance(self, num, den):
        return self.byte() % den < num


_WPOOL = {}


def _wpool(profile):
    p = _WPOOL.get(profile)
    if p is None:
        p = []
        for w, names in PROFILES[profile]:
            p.extend([names] * w)
        _WPOOL[profile] = p
    return p


def _name(dec, profile):
    return dec.pick(dec.pick(_wpool(profile)))


def _mangled(dec, name):
    r = dec.below(16)
    if r == 0:
        return name.upper()
    if r == 1:
        return name.title()
    return name


def _rand_text(dec, n):
    out = []
    for _ in range(n):
        b = dec.byte()
        if b < 128:
            out.append(chr(b))
        elif b < 192:
            out.append(chr(0x80 + dec.byte()))
        elif b < 224:
            out.append(chr(((b & 31) << 8) | dec.byte()))
        elif b < 240:
            out.append(chr(0xD800 + (((b & 7) << 8) | dec.byte())))   # surrogate range
        else:
            out.append(chr(0x10000 + (((b & 15) << 16) | (dec.byte() << 8) | dec.byte())))
    return "".join(out)


def _attr(dec):
    name = dec.pick(ATTR_NAMES)
    form = dec.below(7)
    if form == 0:
        return name
    val = dec.pick(ATTR_VALUES) if dec.chance(5, 6) else _rand_text(dec, dec.below(5))
    if form in (1, 2):
        return '%s="%s"' % (name, val.replace('"', ""))
    if form == 3:
        return "%s='%s'" % (name, val.replace("'", ""))
    if form == 4:
        v = val
        for ch in " \t\n\f\r>":
            v = v.replace(ch, "")
        return "%s=%s" % (name, v)
    if form == 5:
        return '%s = "%s"' % (name, val.replace('"', ""))
    return '%s="%s"' % (name.upper(), val.replace('"', ""))


def decode_items(data, profile=None, max_items=40):
    """bytes -> (profile, [lexical items])."""
    dec = Dec(data)
    if profile is None:
        profile = dec.pick(PROFILE_NAMES)
    items = []
    opened = []
    if dec.below(6) == 0:
        items.append(dec.pick(DOCTYPES))
    while dec.more() and len(items) < max_items:
        k = dec.below(20)
        if k <= 7:      # start tag
            name = _name(dec, profile)
            opened.append(name)
            nm = _mangled(dec, name)
            attrs = []
            if dec.below(3) == 0:
                attrs = [_attr(dec) for _ in range(1 + dec.below(2))]
            sc = "/" if dec.below(12) == 0 else ""
            items.append("<%s%s%s>" % (nm, "".join(" " + a for a in attrs), sc))
        elif k <= 11:   # end tag
            if opened and dec.below(5) > 0:
                i = len(opened) - 1 if dec.below(2) else dec.below(len(opened))
                name = opened.pop(i)
            else:
                name = _name(dec, profile)
            items.append("</%s>" % _mangled(dec, name))
        elif k <= 15:   # text
            items.append("".join(dec.pick(TEXT_ATOMS) for _ in range(1 + dec.below(4))))
        elif k == 16:
            items.append(dec.pick(COMMENTS))
        elif k == 17:
            items.append(dec.pick(DOCTYPES + CDATA))
        elif k == 18:
            items.append(dec.pick(JUNK))
        else:
            items.append(_rand_text(dec, dec.below(7)))
    return profile, items


def decode_text(data, profile=None, max_items=40):
    profile, items = decode_items(data, profile, max_items)
    return profile, "".join(items)


def soup_text(profile=None, max_items=40, max_bytes=None):
    """Hypothesis strategy: (profile, text)."""
    mb = max_bytes or max_items * 6
    return sized_binary(4, mb).map(lambda b: decode_text(b, profile, max_items))


def sized_binary(lo, hi):
    """Byte strings whose length is drawn first (st.binary alone is heavily biased to short values)."""
    return st.integers(lo, hi).flatmap(lambda n: st.binary(min_size=n, max_size=n))


CONTEXTS = ["div", "p", "span", "table", "tbody", "thead", "tfoot", "tr", "td", "th", "caption", "colgroup", "select",
            "optgroup", "option", "title", "textarea", "style", "script", "xmp", "iframe", "noembed", "noframes",
            "noscript", "plaintext", "html", "head", "body", "frameset", "button", "form", "a", "b", "pre", "template",
            "svg", "math", "unknown", "li", "ruby", "object", "h1", "br", "input"]
