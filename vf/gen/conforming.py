"""Conforming HTML documents: a grammar of the HTML content model producing *abstract trees*.

Node forms (JSON friendly):  ["e", ns, name, [[attr_ns, attr_local, value], ...], [children]]   ["t", data]   ["c", data]
Document: {"doctype": bool, "pre": [comment nodes], "html": element node, "post": [comment nodes]}

The tree is constructed (never filtered) so that
  * every element stands where the content model allows it, all tags could be written explicitly,
  * text occurs only where text is allowed, adjacent text is merged, no NUL/CR/surrogates/controls/noncharacters,
  * raw-text and RCDATA element content respects the syntactic restrictions (no "</name", no "<!--" in script),
  * comments have no "--", do not start with ">" or "->", do not end with "-".
writer(doc) renders fully explicit markup; flat(doc) is the expected abstract tree (vf.obs flat form).
"""
from vf.gen.soup import Dec
from vf.obs import HTML_NS, MATHML_NS, SVG_NS, XLINK_NS, XML_NS

VOID = frozenset("area base br col embed hr img input link meta param source track wbr".split())
RAWTEXT = frozenset("style script".split())
RCDATA = frozenset("title textarea".split())

TEXT_ATOMS = ["\xc9COLE", "\xd1=1", "\xc0B", "\xd6l", "a", "b", "x", "y", "z", "1", "2", " ", " ", " ", "\n", "\t", "ab", "foo bar", "<", ">", "&", "\"", "'", "`", "=", "/", "&amp;", "&lt", "&#38;", "</p>", "<b>", "-->", "]]>",
              "\xe9", "\xa0", "\u2028", "\u8a9e", "\U0001F600", "-", "--", "!", "?", "#", ";", "amp;", "&notit;", "\x0c", "I", "\u0130", "\u212a"]
WORD_ATOMS = ["\xc9COLE", "\xd1=1", "\xc0b", "a", "b", "x", "foo", "1", "\xe9", "\U0001F600", "&", "<", ">", "\"", "'", "-", "=", "`", "/"]
ATTR_NAMES = ["id", "class", "title", "lang", "dir", "data-x", "data-y", "style", "accesskey", "tabindex", "role", "aria-label"]
BOOL_GLOBAL = ["hidden", "irrelevant", "itemscope"]
PHRASING_FMT = ["b", "i", "em", "strong", "span", "code", "small", "s", "u", "cite", "q", "abbr", "kbd", "sub", "sup", "mark", "bdo", "var", "samp", "dfn", "big", "tt", "font"]
SECTIONS = ["div", "section", "article", "aside", "nav", "header", "footer", "main", "blockquote", "figure", "fieldset", "details", "center", "address"]
HEADINGS = ["h1", "h2", "h3", "h4", "h5", "h6"]


def E(name, attrs=None, children=None, ns=HTML_NS):
    return ["e", ns, name, attrs or [], children or []]


def T(data):
    return ["t", data]


def C(data):
    return ["c", data]


class Gen(object):
    def __init__(self, data, size=60, features=None):
        self.d = Dec(data)
        self.budget = size
        self.f = features or {}

    # ---- leaves
    def text(self, atoms=TEXT_ATOMS, maxn=4):
        d = self.d
        s = "".join(d.pick(atoms) for _ in range(1 + d.below(maxn)))
        return s

    def comment(self):
        d = self.d
        s = "".join(d.pick(["c", " ", "x", "-", "<p>", "&amp;", "\xe9", "<!", ">", "!", "[if x]", "\n"]) for _ in range(d.below(4)))
        s = s.replace("--", "- ")
        while s.startswith(">") or s.startswith("->"):
            s = "x" + s
        if s.endswith("-"):
            s += " "
        s = s.replace("<!--", "<!-").replace("--!>", "-!>")
        return C(s)

    def attrs(self, name, extra=()):
        d = self.d
        out = []
        seen = set()
        n = d.below(4) if d.chance(1, 2) else 0
        pool = ATTR_NAMES + list(extra)
        for _ in range(n):
            k = d.pick(pool)
            if k in seen:
                continue
            seen.add(k)
            out.append([None, k, self.attr_value()])
        if d.chance(1, 25) and "lang" not in seen:
            # an attribute whose NAME contains a colon on an HTML element (no namespace involved: the name is just 'xml:lang')
            out.append([None, "xml:lang", d.pick(["en", "fr"])])
        if d.chance(1, 8):
            k = d.pick(BOOL_GLOBAL + BOOL_FOR.get(name, []))
            if k not in seen:
                # conforming boolean attribute values: "" or the attribute's name
                out.append([None, k, "" if d.chance(3, 4) else k])
        return out

    def attr_value(self):
        d = self.d
        r = d.below(10)
        if r == 0:
            return ""
        if r <= 5:
            return "".join(d.pick(WORD_ATOMS) for _ in range(1 + d.below(3)))
        return self.text(maxn=3)

    def maybe_comment(self, out):
        if self.d.chance(1, 14):
            out.append(self.comment())

    # ---- content models
    def phrasing(self, depth, in_a=False, in_label=False):
        """list of phrasing nodes (text merged)"""
        d = self.d
        out = []
        n = 1 + d.below(4)
        for _ in range(n):
            if self.budget <= 0:
                break
            k = d.below(20)
            self.budget -= 1
            if k <= 8 or depth > 5:
                self._text(out, self.text())
            elif k <= 12:
                name = d.pick(PHRASING_FMT)
                extra = ["color", "face", "size"] if name == "font" else []
                out.append(E(name, self.attrs(name, extra), self.phrasing(depth + 1, in_a, in_label)))
            elif k == 13:
                out.append(E(d.pick(["br", "wbr"]), self.attrs("br")))
            elif k == 14:
                out.append(E("img", self.attrs("img", ["src", "alt", "width", "ismap"])))
            elif k == 15 and not in_a:
                out.append(E("a", self.attrs("a", ["href", "target", "rel"]), self.phrasing(depth + 1, True, in_label)))
            elif k == 16 and not in_a:
                out.append(self.form_control(depth))
            elif k == 17:
                out.append(self.ruby(depth))
            elif k == 18:
                out.append(self.foreign(depth))
            else:
                self.maybe_comment(out)
                self._text(out, self.text())
        return out

    def _text(self, out, s):
        if not s:
            return
        if out and out[-1][0] == "t":
            out[-1] = T(out[-1][1] + s)
        else:
            out.append(T(s))

    def form_control(self, depth):
        d = self.d
        k = d.below(6)
        if k == 0:
            return E("input", self.attrs("input", ["type", "name", "value", "placeholder"]))
        if k == 1:
            s = self.text()
            if d.chance(1, 10):
                s = "\n" + s
            return E("textarea", self.attrs("textarea", ["name", "rows"]), [T(s)] if s else [])
        if k == 2:
            return self.select()
        if k == 3:
            return E("button", self.attrs("button", ["type", "name"]), self.phrasing(depth + 1, in_a=True))
        if k == 4:
            return E("label", self.attrs("label", ["for"]), self.phrasing(depth + 1, in_a=True, in_label=True))
        if d.chance(1, 3):
            # options outside select: datalist
            return E("datalist", self.attrs("datalist"), self._ws_between([self.option() for _ in range(d.below(4))]))
        return E("output", self.attrs("output"), self.phrasing(depth + 1, in_a=True))

    def select(self):
        d = self.d
        kids = []
        for _ in range(d.below(5)):
            if d.chance(2, 5):
                opts = [self.option() for _ in range(d.below(3))]
                kids.append(E("optgroup", self.attrs("optgroup", ["label"]), self._ws_between(opts)))
            else:
                kids.append(self.option())
        return E("select", self.attrs("select", ["name"]), self._ws_between(kids))

    def option(self):
        s = self.text(["a", "b", " ", "x", "&", "<", "\xe9", "1"], 3)
        s = s.strip(" ")      # text in option: leading/trailing space is fine for the parser, keep it simple
        return E("option", self.attrs("option", ["value"]), [T(s)] if s else [])

    def _ws_between(self, nodes):
        """inter-element whitespace (allowed where only elements are expected)"""
        d = self.d
        out = []
        for n in nodes:
            if d.chance(1, 5):
                self._text(out, d.pick([" ", "\n", "\n  ", "\t"]))
            if d.chance(1, 16):
                out.append(self.comment())
            out.append(n)
        if nodes and d.chance(1, 6):
            self._text(out, d.pick([" ", "\n"]))
        return out

    def ruby(self, depth):
        d = self.d
        kids = []
        self._text(kids, self.text(["a", "b", "\u8a9e", "x"], 2))
        for _ in range(1 + d.below(2)):
            if d.chance(1, 3):
                kids.append(E("rp", [], [T("(")]))
            kids.append(E("rt", self.attrs("rt"), [T(self.text(["a", "b", "x"], 2))]))
            if d.chance(1, 3):
                kids.append(E("rp", [], [T(")")]))
        return E("ruby", self.attrs("ruby"), kids)

    def foreign(self, depth):
        d = self.d
        if d.chance(1, 2):
            kids = []
            for _ in range(d.below(3)):
                k = d.below(7)
                if k == 5:
                    # HTML integration points: HTML flow content inside SVG
                    inner = d.pick([[E("div", [], [T("x")])], [E("p", [], [T("y")]), E("ul", [], [E("li", [], [T("i")])])], [E("h2", [], [T("h")])], [T("t"), E("b", [], [T("b")])]])
                    kids.append(E("foreignObject", [[None, "width", "1"]] if d.chance(1, 2) else [], inner, SVG_NS))
                elif k == 6:
                    kids.append(E(d.pick(["desc", "title"]), [], [T("d"), E("em", [], [T("e")])] if d.chance(1, 2) else [E("p", [], [T("q")])], SVG_NS))
                elif k == 0:
                    kids.append(E("circle", [[None, "r", "1"]] + ([[None, "cx", self.attr_value()]] if d.chance(1, 2) else []), [], SVG_NS))
                elif k == 1:
                    kids.append(E("g", [], [E("path", [[None, "d", "M0 0"]], [], SVG_NS)], SVG_NS))
                elif k == 2:
                    kids.append(E("use", [[XLINK_NS, "href", "#a"]], [], SVG_NS))
                elif k == 3:
                    kids.append(E("text", [[XML_NS, "lang", "en"]] if d.chance(1, 2) else [], [T(self.text(["a", "b", " ", "<", "&", "\xe9"], 3))], SVG_NS))
                else:
                    kids.append(E("linearGradient", [[None, "gradientUnits", "userSpaceOnUse"]], [], SVG_NS))
            attrs = [[None, "viewBox", "0 0 1 1"]] if d.chance(1, 2) else []
            if d.chance(1, 3):
                attrs.append([None, "class", self.attr_value()])
            return E("svg", attrs, kids, SVG_NS)
        kids = []
        for _ in range(d.below(3)):
            nm = d.pick(["mi", "mo", "mn"])
            kids.append(E(nm, [], [T(d.pick(["x", "+", "1", "y", "\u2211", "&", "<"]))], MATHML_NS))
        if d.chance(1, 4):
            # MathML text integration point / annotation-xml with HTML content
            kids.append(E("mtext", [], [T("t"), E("b", [], [T("b")])], MATHML_NS) if d.chance(1, 2) else
                        E("annotation-xml", [[None, "encoding", d.pick(["text/html", "application/xhtml+xml"])]], [E("div", [], [T("a")]), E("p", [], [T("p")])], MATHML_NS))
        if d.chance(1, 3):
            kids = [E("mrow", [], kids, MATHML_NS)]
        attrs = [[None, "definitionURL", "u"]] if d.chance(1, 4) else []
        return E("math", attrs, kids, MATHML_NS)

    def flow(self, depth, in_form=False, no_table=False):
        d = self.d
        out = []
        n = 1 + d.below(4)
        for _ in range(n):
            if self.budget <= 0:
                break
            self.budget -= 1
            k = d.below(24)
            if depth > 4:
                k = k % 6
            if k <= 3:
                out.append(E("p", self.attrs("p"), self.phrasing(depth + 1)))
            elif k <= 5:
                # a run of phrasing content directly in flow
                for x in self.phrasing(depth + 1):
                    if x[0] == "t":
                        self._text(out, x[1])
                    else:
                        out.append(x)
            elif k <= 8:
                out.append(E(d.pick(SECTIONS), self.attrs("div"), self.flow(depth + 1, in_form, no_table)))
            elif k == 9:
                out.append(E(d.pick(HEADINGS), self.attrs("h1"), self.phrasing(depth + 1)))
            elif k == 10:
                items = [E("li", self.attrs("li", ["value"]), self.flow(depth + 1, in_form, no_table)) for _ in range(d.below(4))]
                out.append(E(d.pick(["ul", "ol", "menu"]), self.attrs("ul"), self._ws_between(items)))
            elif k == 11:
                items = []
                for _ in range(d.below(3)):
                    items.append(E("dt", self.attrs("dt"), self.phrasing(depth + 1)))
                    if d.chance(3, 4):
                        items.append(E("dd", self.attrs("dd"), self.flow(depth + 1, in_form, no_table)))
                out.append(E("dl", self.attrs("dl"), self._ws_between(items)))
            elif k == 12 and not no_table:
                out.append(self.table(depth, in_form))
            elif k == 13 and not in_form:
                out.append(E("form", self.attrs("form", ["action", "method"]), self.flow(depth + 1, True, no_table)))
            elif k == 14:
                s = self.text()
                if d.chance(1, 8):
                    s = "\n" + s
                kids = [T(s)]
                if d.chance(1, 3):
                    kids.append(E("b", [], [T(self.text())]))
                out.append(E(d.pick(["pre", "pre", "listing"]), self.attrs("pre"), kids))
            elif k == 15:
                out.append(E("hr", self.attrs("hr")))
            elif k == 16:
                out.append(self.rawtext("script" if d.chance(1, 2) else "style"))
            elif k == 17:
                self.maybe_comment(out)
                out.append(self.comment())
            elif k == 18:
                out.append(E("noscript", [], self.flow(depth + 2, in_form, True)) if not self.f.get("scripting") else E("hr"))
            elif k == 19:
                out.append(E("details", self.attrs("details", ["open"]), [E("summary", [], self.phrasing(depth + 1))] + self.flow(depth + 1, in_form, no_table)))
            elif k == 20:
                out.append(E("figure", [], self.flow(depth + 1, in_form, no_table) + [E("figcaption", [], self.phrasing(depth + 1))]))
            else:
                out.append(E("div", self.attrs("div"), self.flow(depth + 1, in_form, no_table)))
        return out

    def table(self, depth, in_form):
        d = self.d
        kids = []
        if d.chance(1, 4):
            kids.append(E("caption", self.attrs("caption"), self.flow(depth + 2, in_form, no_table=True)))
        for _ in range(d.below(2)):
            cols = [E("col", self.attrs("col", ["span"])) for _ in range(d.below(3))]
            kids.append(E("colgroup", self.attrs("colgroup", ["span"]), self._ws_between(cols)))
        rich = d.chance(1, 5)

        def cell_content():
            if rich:
                # many DISTINCT element names inside the cells of one table (autonomous custom elements are conforming phrasing content)
                k0 = d.below(8)
                return [E(d.pick(["p", "div"]), [], [E("x-%s" % "abcdefghijklmnopqrstuvwxyz"[(k0 + i) % 26], [], [T(d.pick(["a", "b", " "]))]) for i in range(5 + d.below(12))])]
            return self.flow(depth + 2, in_form)

        def rows(cell):
            out = []
            for _ in range(d.below(3) + (1 if rich else 0)):
                cells = [E(d.pick([cell, "td", "th"]), self.attrs("td", ["colspan", "headers"]), cell_content()) for _ in range(d.below(3) + (1 if rich else 0))]
                out.append(E("tr", self.attrs("tr"), self._ws_between(cells)))
            return self._ws_between(out)
        if d.chance(1, 3):
            kids.append(E("thead", self.attrs("thead"), rows("th")))
        for _ in range(1 + d.below(2)):
            kids.append(E("tbody", self.attrs("tbody"), rows("td")))
        if d.chance(1, 4):
            kids.append(E("tfoot", self.attrs("tfoot"), rows("td")))
        return E("table", self.attrs("table", ["border"]), self._ws_between(kids))

    def rawtext(self, name):
        d = self.d
        s = "".join(d.pick(["a", "b", " ", "\n", "x=1;", "<", ">", "&", "&amp;", "</", "<b>", "\"", "'", "\xe9", "\U0001F600", "/*", "*/", "//", "<!", "-", "p{}", "</p>", "<sc", "ript"])
                    for _ in range(d.below(5)))
        low = s.lower()
        if ("</" + name) in low or (name == "script" and ("<!--" in low or "<script" in low)):
            s = s.replace("<", "< ")
        return E(name, self.attrs(name, ["type"]), [T(s)] if s else [])

    def head(self):
        d = self.d
        kids = []
        order = []
        if d.chance(3, 4):
            s = self.text(["a", "b", " x", "&", "<", ">", "\xe9", "</p>", "<b>", "\"", "&amp;", "t"], 3)
            if "</title" in s.lower():
                s = s.replace("<", "< ")
            order.append(E("title", self.attrs("title"), [T(s)] if s else []))
        for _ in range(d.below(3)):
            order.append(E("meta", [[None, "name", d.pick(["a", "description", "viewport"])], [None, "content", self.attr_value()]]))
        if d.chance(1, 4):
            # pragma directives other than the encoding declaration: nothing may take them for one
            order.append(E("meta", [[None, "http-equiv", d.pick(["refresh", "X-UA-Compatible", "default-style", "Refresh", "content-security-policy", "content-language"])],
                                    [None, "content", d.pick(["5; url=x", "IE=edge", "x", "default-src 'self'", "\xe9", "text/html; charset=koi8-r"])]]))
        if d.chance(1, 3):
            order.append(E("link", [[None, "rel", "stylesheet"], [None, "href", self.attr_value()]]))
        if d.chance(1, 5):
            order.append(E("base", [[None, "href", "x"]]))
        if d.chance(1, 4):
            order.append(self.rawtext("style"))
        if d.chance(1, 4):
            order.append(self.rawtext("script"))
        # shuffle deterministically
        for i in range(len(order) - 1, 0, -1):
            j = d.below(i + 1)
            order[i], order[j] = order[j], order[i]
        for n in order:
            if d.chance(1, 10):
                kids.append(self.comment())
            kids.append(n)
        return E("head", self.attrs("head") if d.chance(1, 6) else [], kids)

    def document(self, always_doctype=False):
        d = self.d
        d.chance(5, 6)
        doc = {"doctype": True, "pre": [], "post": []}     # a conforming document has a doctype (without one the parser is in quirks mode)
        # drawn first: once the bytes are used up every later draw is 0, which would make these two the rule instead of the exception
        empty_body = d.chance(1, 9)
        comment_after_body = d.chance(1, 7)
        if d.chance(1, 8):
            doc["pre"].append(self.comment())
        head = self.head()
        body_kids = self.flow(0)
        if d.chance(1, 6):
            body_kids = [self.comment()] + body_kids
        if d.chance(1, 6):
            body_kids = [T(d.pick([" ", "\n", "\n\n"]))] + body_kids if not (body_kids and body_kids[0][0] == "t") else body_kids
        if d.chance(1, 12) and not (body_kids and body_kids[0][0] == "t"):
            # text that begins with a character which is white space for Unicode but not for HTML, as the first thing in body
            body_kids = [T(d.pick(["\xa0", "\u2003", "\u3000", "\x0b" if False else "\u2009"]) + d.pick(["hello", "x", " y"]))] + body_kids
        if d.chance(1, 14) and not (body_kids and body_kids[0][0] == "t"):
            # a LONG text node (more than 1024 characters) that begins with white space, as the first thing in body
            body_kids = [T(d.pick([" ", "\n", " \n"]) + d.pick(["long text ", "x", "\xe9 &amp; "]) * (110 + d.below(900)))] + body_kids
        if d.chance(1, 8):
            # first child of body is one of the elements the optional-tag rules single out
            body_kids = [d.pick([E("meta", [[None, "itemprop", "x"], [None, "content", "y"]]), E("link", [[None, "itemprop", "x"], [None, "href", "y"]]),
                                 self.rawtext("script"), self.rawtext("style"), E("noscript", [], [E("p", [], [T("x")])])])] + body_kids
        if empty_body:
            body_kids = []          # an empty body element: its start tag (and </head> in front of it) can be omitted
        body = E("body", self.attrs("body") if d.chance(1, 5) else [], body_kids)
        html_kids = [head, body]
        if comment_after_body:
            html_kids.append(C(d.pick(["", "after body", " c ", "x-y"])))      # a comment after </body>: it belongs to the html element, and keeps </body> in the output
        doc["html"] = E("html", [[None, "lang", "en"]] if d.chance(1, 4) else [], html_kids)
        if d.chance(1, 10):
            doc["post"].append(self.comment())
        return doc


BOOL_FOR = {"input": ["disabled", "checked", "readonly", "required", "autofocus", "multiple"], "option": ["selected", "disabled"], "select": ["multiple", "disabled"],
            "button": ["disabled", "autofocus"], "textarea": ["disabled", "readonly"], "img": ["ismap"], "script": ["defer", "async"], "details": ["open"],
            "ol": ["reversed"], "form": ["novalidate"], "fieldset": ["disabled"], "optgroup": ["disabled"], "td": ["nowrap"], "th": ["nowrap"], "hr": ["noshade"],
            "ul": ["compact"], "dl": ["compact"], "table": ["sortable"], "style": ["scoped"], "a": [], "audio": ["controls"]}


def decode_document(data, size=60, always_doctype=False, scripting=False):
    return Gen(data, size, {"scripting": scripting}).document(always_doctype)


# ---------------------------------------------------------------------------
# expected abstract tree and explicit writer

def flat(doc):
    out = [(0, "doc")]
    if doc["doctype"]:
        out.append((1, "doctype", "html", "", ""))
    for c in doc["pre"]:
        out.append((1, "comment", c[1]))
    _flat_node(doc["html"], 1, out)
    for c in doc["post"]:
        out.append((1, "comment", c[1]))
    return out


def _flat_node(node, depth, out):
    stack = [(node, depth)]
    while stack:
        n, d = stack.pop()
        k = n[0]
        if k == "e":
            out.append((d, "elem", n[1], n[2], tuple((a[0], a[1], a[2]) for a in n[3])))
            for c in reversed(n[4]):
                stack.append((c, d + 1))
        elif k == "t":
            if n[1]:
                if out[-1][1] == "text" and out[-1][0] == d:
                    out[-1] = (d, "text", out[-1][2] + n[1])
                else:
                    out.append((d, "text", n[1]))
        else:
            out.append((d, "comment", n[1]))


def _esc_text(s):
    return s.replace("&", "&amp;").replace("<", "&lt;").replace(">", "&gt;")


def _esc_attr(s):
    return s.replace("&", "&amp;").replace('"', "&quot;")


def _attr_name(a):
    if a[0] == XLINK_NS:
        return "xlink:" + a[1]
    if a[0] == XML_NS:
        return "xml:" + a[1]
    if a[0] is not None:
        return "xmlns:" + a[1] if a[1] != "xmlns" else "xmlns"
    return a[1]


def writer(doc):
    """Fully explicit markup for the document (our own serializer, used to obtain html5lib's tree object)."""
    out = []
    if doc["doctype"]:
        out.append("<!DOCTYPE html>")
    for c in doc["pre"]:
        out.append("<!--%s-->" % c[1])
    _write_node(doc["html"], out)
    for c in doc["post"]:
        out.append("<!--%s-->" % c[1])
    return "".join(out)


def _write_node(node, out):
    stack = [node]
    while stack:
        n = stack.pop()
        if isinstance(n, str):
            out.append(n)
            continue
        k = n[0]
        if k == "t":
            out.append(n[2] if len(n) > 2 else _esc_text(n[1]))
        elif k == "c":
            out.append("<!--%s-->" % n[1])
        else:
            ns, name, attrs, kids = n[1], n[2], n[3], n[4]
            out.append("<" + name)
            for a in attrs:
                out.append(' %s="%s"' % (_attr_name(a), _esc_attr(a[2])))
            out.append(">")
            if ns == HTML_NS and name in VOID:
                continue
            stack.append("</%s>" % name)
            if ns == HTML_NS and name in RAWTEXT:
                for c in reversed(kids):
                    stack.append(["t", c[1], c[1]])
            else:
                lead = ""
                if ns == HTML_NS and name in ("pre", "textarea", "listing") and kids and kids[0][0] == "t" and kids[0][1].startswith("\n"):
                    lead = "\n"      # the parser drops one newline right after the start tag
                for c in reversed(kids):
                    stack.append(c)
                if lead:
                    stack.append(lead)


def writer_styled(doc, salt=0):
    """The same document in other conforming spellings: void elements closed with '/>' or ' />', empty foreign elements self-closed, attribute
    values in single quotes or unquoted where the syntax allows, upper-case HTML tag names, white space before '>'.  Choices are a
    deterministic function of (position, salt)."""
    import re
    out = []
    if doc["doctype"]:
        out.append(["<!DOCTYPE html>", "<!doctype html>", "<!DOCTYPE HTML>", "<!DOCTYPE html >"][salt % 4])
    for c in doc["pre"]:
        out.append("<!--%s-->" % c[1])
    counter = [salt]

    def pick(k):
        counter[0] = (counter[0] * 1103515245 + 12345) % (1 << 31)
        return (counter[0] >> 8) % k
    unq_ok = re.compile(r"[^\s\"'=<>`]+")
    stack = [doc["html"]]
    while stack:
        n = stack.pop()
        if isinstance(n, str):
            out.append(n)
            continue
        k = n[0]
        if k == "t":
            out.append(n[2] if len(n) > 2 else _esc_text(n[1]))
            continue
        if k == "c":
            out.append("<!--%s-->" % n[1])
            continue
        ns, name, attrs, kids = n[1], n[2], n[3], n[4]
        html = ns == HTML_NS
        shown = name.upper() if html and pick(4) == 0 else name
        out.append("<" + shown)
        last_unquoted = False
        for a in attrs:
            v = _esc_attr(a[2])
            q = pick(3)
            if q == 1 and "'" not in v:
                out.append(" %s='%s'" % (_attr_name(a), v.replace("&quot;", '"')))
                last_unquoted = False
            elif q == 2 and unq_ok.fullmatch(v) and "&" not in v:
                out.append(" %s=%s" % (_attr_name(a), v))
                last_unquoted = True
            else:
                out.append(' %s="%s"' % (_attr_name(a), v))
                last_unquoted = False
        void = html and name in VOID
        selfclose = (not html) and not kids and pick(2) == 0
        if void or selfclose:
            end = pick(3) if void else 1 + pick(2)
            if end == 1 and last_unquoted:
                end = 2          # '/' directly after an unquoted value would belong to the value
            out.append([">", "/>", " />"][end])
            continue
        out.append(">" if pick(5) else " >")
        stack.append("</%s%s>" % (shown, "" if pick(5) else " "))
        if html and name in RAWTEXT:
            for c in reversed(kids):
                stack.append(["t", c[1], c[1]])
        else:
            lead = ""
            if html and name in ("pre", "textarea", "listing") and kids and kids[0][0] == "t" and kids[0][1].startswith("\n"):
                lead = "\n"
            for c in reversed(kids):
                stack.append(c)
            if lead:
                stack.append(lead)
    for c in doc["post"]:
        out.append("<!--%s-->" % c[1])
    return "".join(out)


def features(doc):
    """Which non-triviality features does the document have?"""
    f = set()
    n_el = 0
    stack = [doc["html"]]
    omittable = frozenset("li dt dd p rt rp optgroup option colgroup thead tbody tfoot tr td th".split())
    while stack:
        n = stack.pop()
        if n[0] != "e":
            continue
        n_el += 1
        if n[1] != HTML_NS:
            f.add("foreign")
        elif n[2] in omittable:
            f.add("omittable-tag")
        elif n[2] in RAWTEXT or n[2] in RCDATA:
            if n[4]:
                f.add("rawtext-with-text")
        for a in n[3]:
            v = a[2]
            if v == "" or any(c in v for c in " \t\n\"'=<>`"):
                f.add("attr-needs-quotes")
            if any(ord(c) > 127 for c in v):
                f.add("non-ascii")
            if a[1] in BOOL_GLOBAL or a[1] in BOOL_FOR.get(n[2], []):
                f.add("boolean-attr")
        for c in n[4]:
            if c[0] == "t" and any(ord(ch) > 127 for ch in c[1]):
                f.add("non-ascii")
            stack.append(c)
    return f, n_el


def lf_after_pre_start(doc):
    """Trigger of the recorded serializer defect: pre/textarea/listing whose content begins with a newline."""
    stack = [doc["html"]]
    while stack:
        n = stack.pop()
        if n[0] != "e":
            continue
        if n[1] == HTML_NS and n[2] in ("pre", "textarea", "listing") and n[4] and n[4][0][0] == "t" and n[4][0][1].startswith("\n"):
            return True
        stack.extend(n[4])
    return False


def walk_nodes(doc):
    stack = [doc["html"]]
    while stack:
        n = stack.pop()
        yield n
        if n[0] == "e":
            stack.extend(n[4])


# ---------------------------------------------------------------------------
# tree shrinking (for replay files): delete nodes / hoist children / simplify text and attributes

def shrink_doc(doc, fails, budget=400):
    import copy
    cur = copy.deepcopy(doc)
    used = [0]

    def attempt(mut):
        if used[0] >= budget:
            return False
        cand = copy.deepcopy(cur)
        if not mut(cand):
            return False
        used[0] += 1
        if fails(cand):
            return cand
        return False

    changed = True
    while changed and used[0] < budget:
        changed = False
        # enumerate (path) positions
        paths = []
        stack = [((), cur["html"])]
        while stack:
            path, n = stack.pop()
            if n[0] == "e":
                for i, c in enumerate(n[4]):
                    paths.append(path + (i,))
                    stack.append((path + (i,), c))
        paths.sort(key=lambda p: (len(p), p))
        for path in paths:
            def get_parent(d, path=path):
                n = d["html"]
                for i in path[:-1]:
                    if n[0] != "e" or i >= len(n[4]):
                        return None
                    n = n[4][i]
                return n

            def delete(d):
                p = get_parent(d)
                if p is None or p[0] != "e" or path[-1] >= len(p[4]):
                    return False
                if len(path) == 1:      # keep head and body
                    return False
                del p[4][path[-1]]
                _merge_text(p)
                return True

            def hoist(d):
                p = get_parent(d)
                if p is None or p[0] != "e" or path[-1] >= len(p[4]) or len(path) == 1:
                    return False
                n = p[4][path[-1]]
                if n[0] != "e" or not n[4] or n[1] != HTML_NS or n[2] not in _HOISTABLE:
                    return False          # only wrappers whose content model the parent shares: the result stays conforming
                p[4][path[-1]:path[-1] + 1] = n[4]
                _merge_text(p)
                return True

            def simplify(d):
                p = get_parent(d)
                if p is None or p[0] != "e" or path[-1] >= len(p[4]):
                    return False
                n = p[4][path[-1]]
                if n[0] == "t" and len(n[1]) > 1:
                    n[1] = n[1][:len(n[1]) // 2]
                    return True
                if n[0] == "e" and n[3]:
                    n[3].pop()
                    return True
                return False
            for mut in (delete, hoist, simplify):
                r = attempt(mut)
                if r:
                    cur = r
                    changed = True
                    break
            if changed:
                break
    return cur


_HOISTABLE = frozenset(SECTIONS + PHRASING_FMT + ["p", "a", "form", "h1", "h2", "h3", "h4", "h5", "h6"]) - frozenset(["address", "fieldset", "details", "figure"])


def _merge_text(p):
    out = []
    for c in p[4]:
        if c[0] == "t" and out and out[-1][0] == "t":
            out[-1] = ["t", out[-1][1] + c[1]]
        elif c[0] == "t" and c[1] == "":
            continue
        else:
            out.append(c)
    p[4][:] = out


# ---------------------------------------------------------------------------
# clauses of other properties that quantify over conforming documents

def _doc_strategy(size=40):
    from hypothesis import strategies as st
    from vf.gen.soup import sized_binary
    return sized_binary(20, 60 + size * 6).map(lambda b: decode_document(b, size=size, always_doctype=True))


PERMITTED_DOCTYPES = ['<!DOCTYPE html SYSTEM "about:legacy-compat">', '<!DOCTYPE HTML PUBLIC "-//W3C//DTD HTML 4.0//EN">',
                      '<!DOCTYPE HTML PUBLIC "-//W3C//DTD HTML 4.0//EN" "http://www.w3.org/TR/REC-html40/strict.dtd">', '<!DOCTYPE HTML PUBLIC "-//W3C//DTD HTML 4.01//EN">',
                      '<!DOCTYPE html PUBLIC "-//W3C//DTD HTML 4.01//EN" "http://www.w3.org/TR/html4/strict.dtd">',
                      '<!DOCTYPE html PUBLIC "-//W3C//DTD XHTML 1.0 Strict//EN" "http://www.w3.org/TR/xhtml1/DTD/xhtml1-strict.dtd">',
                      '<!DOCTYPE html PUBLIC "-//W3C//DTD XHTML 1.1//EN" "http://www.w3.org/TR/xhtml11/DTD/xhtml11.dtd">', "<!doctype HTML>"]


def check_optional_tags_equivalence(case):
    """C13 clause 2: for a conforming document, the stream with optional tags removed parses to the same tree as the unfiltered stream (and as the document)."""
    from html5lib.serializer import HTMLSerializer
    from vf import h5, obs
    from vf.core import Verdict, short, sig64
    doc, walker = case.get("doc"), case.get("walker", "etree")
    if doc is None:
        # a conforming document given as markup with every tag written out (hand-written families, one per optional-tag rule):
        # what counts is that html5lib itself reads it without a parse error and writes it back, unfiltered, to the same tree
        markup = case["markup"]
        tree, p = h5.parse(markup, builder=walker, full_tree=True)
        if p.errors:
            return Verdict("excluded", finding="family markup is not error-free on this tree (not a conforming document to this parser)")
        want = obs.clarkify(obs.flat(tree))
        _writer = lambda d: markup
    else:
        _writer = writer
        want = obs.clarkify(flat(doc))
        from vf.props.c07 import noscript_text_trigger
        if noscript_text_trigger(doc):
            # the serializer (not the filter) writes such text raw, so neither stream can be re-read faithfully: C07-noscript-raw-text
            return Verdict("excluded", finding="noscript text written raw by the serializer (recorded under C07)")
        tree, p = h5.parse(writer(doc), builder=walker, full_tree=True)
        if obs.clarkify(obs.flat(tree)) != want:
            return Verdict("excluded", finding="generated tree not parsed back from the explicit writer (C01-class deviation)")
    writer_ = _writer
    variants = [None]
    if case.get("doctype_variant") and writer_(doc).startswith("<!DOCTYPE html>"):
        # the same document under every other DOCTYPE a conforming document may carry (the 'obsolete permitted' strings): no-quirks or
        # limited-quirks mode, which must not matter to how the output parses
        variants += PERMITTED_DOCTYPES if case["doctype_variant"] % 2 else [PERMITTED_DOCTYPES[case["doctype_variant"] % len(PERMITTED_DOCTYPES)]]
    enc = case.get("encoding")      # with a narrow output encoding text arrives as character references in the re-parse
    if enc and (doc is None or unencodable_nontext(doc, enc)):
        enc = None
    res = None
    for dt in variants:
        if dt is not None:
            tree_v, p = h5.parse(dt + writer_(doc)[len("<!DOCTYPE html>"):], builder=walker, full_tree=True)
            strip = lambda F: [r for r in F if r[1] != "doctype"]
            if strip(obs.clarkify(obs.flat(tree_v))) != strip(want):
                return Verdict("fail", "conforming document parses to another tree under the permitted DOCTYPE %s; markup %s" % (dt, short(writer_(doc), 300)), "doc-doctype-variant", nontrivial=True)
            tree = tree_v
        res_v = {}
        for omit in (False, True):
            s = HTMLSerializer(omit_optional_tags=omit, inject_meta_charset=False, quote_attr_values="always", minimize_boolean_attributes=False)
            if enc:
                out = s.render(h5.walk(tree, walker), enc).decode(enc)
            else:
                out = s.render(h5.walk(tree, walker))
            r2, _ = h5.parse(out, builder="etree", full_tree=True)
            res_v[omit] = (out, obs.clarkify(obs.flat(r2)))
        if res is None:
            res = res_v
        if res_v[True][1] != res_v[False][1]:
            res = res_v
            break
    nontrivial = (doc is None or "omittable-tag" in features(doc)[0]) and res[True][0] != res[False][0]
    sig = sig64("doc", repr(want))
    if res[True][1] == res[False][1]:
        return Verdict("pass", nontrivial=nontrivial, sig=sig, classes=["conforming-doc"])
    d = obs.first_diff(res[False][1], res[True][1])
    return Verdict("fail", "conforming document parses differently once optional tags are removed: record %d: unfiltered %s, filtered %s\nfiltered output: %s"
                   % (d[0], short(d[1], 150), short(d[2], 150), short(res[True][0], 500)), "doc-parse-equivalence", nontrivial=True, sig=sig)


def unencodable_nontext(doc, enc):
    """comments / raw text / names that the codec cannot express (they cannot be written as references)"""
    for n in walk_nodes(doc):
        s = None
        if n[0] == "c":
            s = n[1]
        elif n[0] == "e" and n[1] == HTML_NS and n[2] in RAWTEXT:
            s = "".join(c[1] for c in n[4] if c[0] == "t")
        if s:
            try:
                s.encode(enc)
            except UnicodeEncodeError:
                return True
    for c in doc["pre"] + doc["post"]:
        try:
            c[1].encode(enc)
        except UnicodeEncodeError:
            return True
    return False


# One or more conforming bodies per optional-tag rule of the standard, every tag written out (the filter decides what to drop).
FAMILY_BODIES = [
    "<p>a</p><p>b</p>", "<p>a</p><div>d</div>", "<p>a</p><table><tr><td>c</td></tr></table>", "<p>a</p><ul><li>i</li></ul>", "<p>a</p><hr><p>b</p><pre>x</pre>", "<div><p>a</p></div>x",
    "<p>a</p><h2>h</h2><p>b</p><form><p>c</p></form>x", "<p>a</p><address>x</address><p>b</p><blockquote><p>q</p></blockquote>y", "<section><p>a</p></section><p>b</p><details><summary>s</summary><p>d</p></details>t",
    "<ul><li>a</li><li>b</li></ul>", "<ol><li>a<ul><li>b</li></ul></li><li>c</li></ol>", "<dl><dt>t</dt><dd>d</dd><dt>t2</dt><dd>d2</dd></dl>", "<dl><div><dt>t</dt><dd>d</dd></div></dl>",
    "<ruby>r<rt>t</rt><rp>p</rp></ruby>", "<ruby>a<rp>(</rp><rt>b</rt><rp>)</rp></ruby>x",
    "<select><option>1</option><option>2</option></select>", "<select><optgroup label=a><option>1</option></optgroup><optgroup label=b><option>2</option></optgroup></select>",
    "<select><optgroup label=a><option>1</option><option>2</option></optgroup><option>3</option></select>", "<select><option>1</option><optgroup label=b></optgroup></select>",
    "<datalist><option>1</option><option>2</option></datalist>", "<select><optgroup label=a></optgroup><optgroup label=b><option>x</option></optgroup></select>y",
    "<table><caption>c</caption><colgroup><col></colgroup><thead><tr><th>h</th></tr></thead><tbody><tr><td>d</td></tr></tbody><tfoot><tr><td>f</td></tr></tfoot></table>",
    "<table><colgroup><col></colgroup></table>x", "<table><caption>c</caption><colgroup><col><col></colgroup></table>", "<table><colgroup></colgroup><tbody><tr><td>a</td><td>b</td></tr><tr><td>c</td></tr></tbody></table>",
    "<table><tbody><tr><td>a</td></tr></tbody><tbody><tr><td>b</td></tr></tbody></table>", "<table><thead><tr><th>a</th><th>b</th></tr></thead><tbody></tbody></table>",
    "<table><tr><td><table><tr><th>h</th></tr></table></td><td>x</td></tr></table>", "<table><tbody><tr><td><p>a</p></td><th><ul><li>i</li></ul></th></tr></tbody></table>z",
    "<form><p>a</p></form>text", "<form><p>a</p></form><!--c-->", "<form><p>a</p></form><input>", "<fieldset><legend>l</legend><p>a</p></fieldset>x", "<a href=u><p>a</p></a>x", "<ins><p>a</p></ins><del><p>b</p></del>x",
    "<video><p>a</p></video>x", "<audio><p>a</p></audio>x", "<map name=m><p>a</p></map>x", "<object><p>a</p></object>x", "<canvas><p>fallback</p></canvas>after", "<slot><p>x</p></slot>after",
    "<noscript><p>a</p></noscript>x", "<button>b</button><p>a</p>", "<main><p>a</p></main>", "<figure><p>a</p><figcaption><p>c</p></figcaption></figure>", "<li-x><p>a</p></li-x>x",
    "<dialog open><p>a</p></dialog>x", "<menu><li>a</li></menu>", "<nav><ul><li><a href=u>l</a></li></ul></nav>", "<header><p>a</p></header><footer><p>b</p></footer>", "<article><h1>h</h1><p>a</p></article><aside><p>b</p></aside>",
    "<hgroup><h1>h</h1><p>a</p></hgroup>x", "<label><input></label><p>a</p>", "<pre>\n\nx</pre><p>a</p>", "<textarea>\nx</textarea><p>a</p>",
]
FAMILY_HEADS = ["<title>t</title>", "", "<meta charset=utf-8><title>t</title>", "<title>t</title><link rel=stylesheet href=s><style>p{}</style>", "<title>t</title><script>var x;</script>", "<base href=u><title>t</title>"]
FAMILY_TAILS = ["", "<!--after body-->", "\n"]


def family_documents():
    out = []
    for bi, b in enumerate(FAMILY_BODIES):
        for b2 in ("", FAMILY_BODIES[(bi * 7 + 3) % len(FAMILY_BODIES)]):
            head = FAMILY_HEADS[(bi + len(b2)) % len(FAMILY_HEADS)]
            for tail in FAMILY_TAILS:
                out.append("<!DOCTYPE html><html><head>%s</head><body>%s%s</body>%s</html>" % (head, b, b2, tail))
    # the document-level rules: empty head / empty body / comments and white space around them
    for head in ("", "<title>t</title>", "<!--h-->"):
        for between in ("", "<!--c-->", " ", "\n"):
            for body in ("", "x", "<!--b-->", " x", "<p>a</p>", "<script>s</script>", "<meta itemprop=i content=c>"):
                for tail in ("", "<!--t-->"):
                    for htmlattr in ("", " lang=en"):
                        out.append("<!DOCTYPE html><html%s><head>%s</head>%s<body>%s</body>%s</html>%s" % (htmlattr, head, between, body, tail, tail))
    return out


def run_optional_tags_docs(acc, n, seed):
    from vf.core import drive, short

    def fn(doc):
        case = {"kind": "doc", "doc": doc, "walker": "etree" if len(doc["html"][4][1][4]) % 2 else "dom"}
        if len(writer(doc)) % 3 == 0:
            case["encoding"] = "ascii"
        if len(writer(doc)) % 2 == 0:
            case["doctype_variant"] = 1 + len(writer(doc)) // 2
        acc.add(case, check_optional_tags_equivalence(case), sample={"kind": "doc", "markup": short(writer(doc), 300)})
    drive(_doc_strategy(40), fn, n, seed)


def check_no_errors(case):
    """C16 clause: conforming documents record no parse errors (and strict mode accepts them) - written with all tags
    explicit and with every optional tag omitted that the standard allows to omit."""
    from vf import h5, obs
    from vf.core import Verdict, short, sig64
    from html5lib.html5parser import ParseError
    doc = case["doc"]
    want = obs.clarkify(flat(doc))
    salt = len(want)
    for variant, markup in (("explicit", writer(doc)), ("optional tags omitted", writer_omitting(doc)), ("other conforming spellings", writer_styled(doc, salt)),
                            ("other conforming spellings", writer_styled(doc, salt + 1))):
        p = h5.parser("etree", True, full_tree=True)
        try:
            tree = p.parse(markup)
        except Exception as e:
            return Verdict("fail", "parsing a conforming document (%s) raised %s: %s; markup %s" % (variant, type(e).__name__, short(str(e), 80), short(markup, 400)),
                           "conforming-exception:" + type(e).__name__, nontrivial=True)
        # Whether the tree is the generated one is C01's / C07's business; this clause is about errors only (a parser that builds
        # another tree for a conforming document usually reports an error on the way).  Exception: the optional-tag rules of the
        # standard, taken literally, allow omissions that change the parse (<body> before noscript...): that variant is judged
        # only when it parses to the generated tree.
        if variant == "optional tags omitted" and obs.clarkify(obs.flat(tree)) != want:
            continue
        if p.errors:
            e = p.errors[0]
            return Verdict("fail", "conforming document (%s) records parse error %r at %r; markup %s" % (variant, e[1], e[0], short(markup, 400)),
                           "conforming-error:" + str(e[1]), nontrivial=True)
        ps = h5.parser("etree", True, strict=True)
        try:
            ps.parse(markup)
        except ParseError as e:
            return Verdict("fail", "strict mode rejects a conforming document (%s): %s; markup %s" % (variant, e, short(markup, 400)), "conforming-strict", nontrivial=True)
        except Exception as e:
            return Verdict("fail", "strict parsing of a conforming document (%s) raised %s, not ParseError; markup %s" % (variant, type(e).__name__, short(markup, 400)),
                           "conforming-strict-exception:" + type(e).__name__, nontrivial=True)
    return Verdict("pass", nontrivial=True, sig=sig64("noerr", repr(want)), classes=["conforming-doc"])


def run_no_error_docs(acc, n, seed):
    from vf.core import drive, short

    def fn(doc):
        case = {"kind": "conforming", "doc": doc}
        acc.add(case, check_no_errors(case), sample={"kind": "conforming", "markup": short(writer(doc), 300)})
    drive(_doc_strategy(40), fn, n, seed)


# ---------------------------------------------------------------------------
# conforming documents written with optional tags omitted (by the reference rules, not by html5lib's filter)

def doc_tokens(doc):
    """walker-format token stream of the document (our own)"""
    out = []
    if doc["doctype"]:
        out.append({"type": "Doctype", "name": "html", "publicId": None, "systemId": None})
    for c in doc["pre"]:
        out.append({"type": "Comment", "data": c[1]})
    stack = [doc["html"]]
    while stack:
        n = stack.pop()
        if isinstance(n, dict):
            out.append(n)
            continue
        if n[0] == "t":
            out.append({"type": "Characters", "data": n[1], "raw": len(n) > 2})
        elif n[0] == "c":
            out.append({"type": "Comment", "data": n[1]})
        else:
            ns, name, attrs, kids = n[1], n[2], n[3], n[4]
            data = {}
            for a in attrs:
                data[(a[0], a[1])] = a[2]
            if ns == HTML_NS and name in VOID:
                out.append({"type": "EmptyTag", "name": name, "namespace": ns, "data": data})
                continue
            out.append({"type": "StartTag", "name": name, "namespace": ns, "data": data})
            stack.append({"type": "EndTag", "name": name, "namespace": ns})
            raw = ns == HTML_NS and name in RAWTEXT
            lead = ns == HTML_NS and name in ("pre", "textarea", "listing") and kids and kids[0][0] == "t" and kids[0][1].startswith("\n")
            for c in reversed(kids):
                stack.append(["t", c[1], True] if (raw and c[0] == "t") else c)
            if lead:
                stack.append(["t", "\n", True])
    for c in doc["post"]:
        out.append({"type": "Comment", "data": c[1]})
    return out


def omit_optional(tokens):
    """drop every tag the reference optional-tag rules (vf/ref/optionaltags.py) allow to omit"""
    from vf.ref import optionaltags as R
    kept = []
    removed_prev = False
    n = len(tokens)
    for i, t in enumerate(tokens):
        prev = tokens[i - 1] if i else None
        nxt = tokens[i + 1] if i + 1 < n else None
        # whitespace-initial text counts as a space token for the rules
        nx = nxt
        if nxt is not None and nxt["type"] == "Characters" and nxt["data"][:1] in " \t\n\x0c\r":
            nx = {"type": "SpaceCharacters", "data": nxt["data"]}
        if t["type"] in ("StartTag", "EndTag") and R.may_omit(t, prev, nx, prev_removed=removed_prev):
            removed_prev = True
            continue
        removed_prev = False
        kept.append(t)
    return kept


def render_tokens(tokens):
    out = []
    for t in tokens:
        ty = t["type"]
        if ty == "Doctype":
            out.append("<!DOCTYPE html>")
        elif ty == "Comment":
            out.append("<!--%s-->" % t["data"])
        elif ty == "Characters":
            out.append(t["data"] if t.get("raw") else _esc_text(t["data"]))
        elif ty in ("StartTag", "EmptyTag"):
            out.append("<" + t["name"] + "".join(' %s="%s"' % (_attr_name([k[0], k[1]]), _esc_attr(v)) for k, v in t["data"].items()) + ">")
        else:
            out.append("</%s>" % t["name"])
    return "".join(out)


def writer_omitting(doc):
    return render_tokens(omit_optional(doc_tokens(doc)))
