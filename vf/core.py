"""Runner plumbing shared by all property checks.

A property module (vf/props/cNN.py) provides

    ID            "C18"
    RULE          text: how cases are generated and what makes one non-trivial/distinct
    ASSUMPTIONS   list of str
    TECHNIQUE     short text
    shards(tier)  -> list of picklable shard descriptors
    run_shard(desc, seed, tier) -> Acc      (executed in a worker process)
    check_case(case) -> Verdict             (library-free re-execution of one case)
    SHRINK        {field: "str"|"list"|"bytes"}  fields of a case the generic ddmin may reduce

Nothing here imports html5lib at module import time except ``import_target``.
"""
from __future__ import annotations

import hashlib
import json
import os
import sys
import time
import traceback
import zlib

VERIF_DIR = os.path.dirname(os.path.dirname(os.path.abspath(__file__)))
REPO = os.environ.get("VERIF_REPO", "/repo")
# mutant/self-test runs redirect evidence and replay output so that /verif/evidence only ever
# holds results obtained against /repo itself
OUT_DIR = os.environ.get("VERIF_OUT") or VERIF_DIR


def import_target():
    """Import html5lib from the tree under test and make sure it is that tree."""
    if sys.path[0] != REPO:
        sys.path.insert(0, REPO)
    sys.dont_write_bytecode = True
    import html5lib  # noqa
    here = os.path.realpath(html5lib.__file__)
    if not here.startswith(os.path.realpath(REPO) + os.sep):
        raise HarnessError("html5lib imported from %s, not from %s" % (here, REPO))
    return html5lib


class HarnessError(Exception):
    pass


# ---------------------------------------------------------------------------
# verdicts and accumulators

class Verdict(object):
    """Outcome of one case.

    status: pass | fail | known | excluded | inconclusive
    """
    __slots__ = ("status", "what", "bucket", "finding", "nontrivial", "sig", "classes", "extra")

    def __init__(self, status="pass", what="", bucket="", finding=None, nontrivial=False,
                 sig=None, classes=(), extra=None):
        self.status = status
        self.what = what
        self.bucket = bucket
        self.finding = finding
        self.nontrivial = nontrivial
        self.sig = sig
        self.classes = classes
        self.extra = extra

    def __repr__(self):
        return "Verdict(%s %s %s)" % (self.status, self.bucket or self.finding or "", self.what[:200])


class CaseTimeout(BaseException):
    pass


def guarded(seconds=30):
    """Decorator for check_case: a per-case watchdog.  A timeout is *inconclusive*, never a violation
    (a time budget is not a correctness oracle; termination is C03's subject)."""
    import functools
    import signal
    import threading

    def deco(fn):
        @functools.wraps(fn)
        def wrapper(case, *a, **k):
            if threading.current_thread() is not threading.main_thread():
                return fn(case, *a, **k)

            state = {"armed": True}

            def _h(signum, frame):
                if state["armed"]:
                    raise CaseTimeout()
            old = signal.signal(signal.SIGALRM, _h)
            # a repeating timer: an exception raised by the handler inside a gc callback or a __del__ is swallowed
            # by the interpreter ("Exception ignored in ..."), so one shot is not enough to stop a livelock
            signal.setitimer(signal.ITIMER_REAL, seconds, 0.5)
            try:
                return fn(case, *a, **k)
            except CaseTimeout:
                state["armed"] = False
                return Verdict("inconclusive", "watchdog after %ds" % seconds)
            finally:
                state["armed"] = False
                signal.setitimer(signal.ITIMER_REAL, 0)
                signal.signal(signal.SIGALRM, old)
        return wrapper
    return deco


def sig64(*parts):
    h = hashlib.blake2b(digest_size=8)
    for p in parts:
        if isinstance(p, bytes):
            h.update(p)
        else:
            h.update(repr(p).encode("utf-8", "surrogatepass"))
        h.update(b"\0")
    return int.from_bytes(h.digest(), "big")


_FF_POOLS = []
_FAST_FAIL = bool(os.environ.get("VERIF_FAST_FAIL"))     # regression tooling only: a shard stops at its first failure


class _FastFail(BaseException):
    def __init__(self, acc):
        BaseException.__init__(self)
        self.acc = acc


class Acc(object):
    """What a shard reports back."""

    MAX_SAMPLES = 6
    MAX_FAILS = 40

    def __init__(self):
        self.evaluations = 0
        self.sigs = set()
        self.classes = {}
        self.samples = []
        self.failures = []      # list of (bucket, what, case)
        self.fail_buckets = {}
        self.known_hits = {}
        self.excluded = {}
        self.inconclusive = 0
        self.masked = []        # (finding-ish label, what, case): failing, but a recorded trigger fired and its model does not reproduce it
        self.masked_count = {}
        self.extra = {}
        self.exhaustive = None

    def count(self, label, n=1):
        self.classes[label] = self.classes.get(label, 0) + n

    def add(self, case, v, sample=None):
        """Record the verdict of one executed case."""
        if v.status == "excluded":
            k = v.finding or v.what or "excluded"
            self.excluded[k] = self.excluded.get(k, 0) + 1
            return
        self.evaluations += 1
        for c in v.classes:
            self.count(c)
        if v.status == "inconclusive":
            self.inconclusive += 1
            L = self.extra.setdefault("inconclusive_cases", [])
            if isinstance(L, list) and len(L) < 4:
                L.append(short(repr(sample if sample is not None else case), 300) + " :: " + v.what)
            return
        if v.nontrivial:
            self.sigs.add(v.sig if v.sig is not None else sig64(_canon(case)))
            # samples at geometrically growing positions: the first generated cases are the simplest ones, later ones are typical
            self._nt = getattr(self, "_nt", 0) + 1
            if self._nt >= getattr(self, "_next_sample", 1):
                self._next_sample = max(2, self._nt * 4)
                self.samples.append(sample if sample is not None else case)
                if len(self.samples) > self.MAX_SAMPLES:
                    del self.samples[0]
        if v.status == "known":
            self.known_hits[v.finding] = self.known_hits.get(v.finding, 0) + 1
        elif v.status == "masked":
            self.masked_count[v.finding] = self.masked_count.get(v.finding, 0) + 1
            if len(self.masked) < 12 and self.masked_count[v.finding] <= 2:
                self.masked.append((v.finding, v.what, case))
        elif v.status == "fail":
            n = self.fail_buckets.get(v.bucket, 0)
            self.fail_buckets[v.bucket] = n + 1
            if n < 3 and len(self.failures) < self.MAX_FAILS:
                self.failures.append((v.bucket, v.what, case))
            if _FAST_FAIL:
                raise _FastFail(self)

    def merge(self, o):
        self.evaluations += o.evaluations
        self.sigs |= o.sigs
        for k, n in o.classes.items():
            self.classes[k] = self.classes.get(k, 0) + n
        # at most two (the latest, i.e. most typical) from each shard, so that the evidence shows several generators
        for s in o.samples[-2:]:
            if len(self.samples) < 14:
                self.samples.append(s)
        self.failures.extend(o.failures)
        for k, n in o.fail_buckets.items():
            self.fail_buckets[k] = self.fail_buckets.get(k, 0) + n
        for k, n in o.known_hits.items():
            self.known_hits[k] = self.known_hits.get(k, 0) + n
        for k, n in o.excluded.items():
            self.excluded[k] = self.excluded.get(k, 0) + n
        self.inconclusive += o.inconclusive
        self.masked.extend(o.masked)
        for k, n in o.masked_count.items():
            self.masked_count[k] = self.masked_count.get(k, 0) + n
        for k, val in o.extra.items():
            if isinstance(val, (int, float)):
                self.extra[k] = self.extra.get(k, 0) + val
            elif isinstance(val, set):
                self.extra.setdefault(k, set()).update(val)
            elif isinstance(val, list):
                self.extra.setdefault(k, [])
                if len(self.extra[k]) < 12:
                    self.extra[k].extend(val[:4])
            elif isinstance(val, dict):
                d = self.extra.setdefault(k, {})
                for kk, vv in val.items():
                    d[kk] = d.get(kk, 0) + vv
            else:
                self.extra[k] = val
        if o.exhaustive is not None:
            self.exhaustive = o.exhaustive if self.exhaustive is None else (self.exhaustive and o.exhaustive)


def _canon(x):
    return json.dumps(to_json(x), sort_keys=True, ensure_ascii=True)


# ---------------------------------------------------------------------------
# JSON helpers (bytes and tuples survive a round trip; lone surrogates are fine in json)

def _has_surrogate(s):
    for ch in s:
        if "\ud800" <= ch <= "\udfff":
            return True
    return False


def to_json(x):
    if isinstance(x, str):
        # json would merge an adjacent high+low pair of lone surrogates into one astral character
        if _has_surrogate(x):
            return {"__codepoints__": [ord(c) for c in x]}
        return x
    if isinstance(x, bytes):
        return {"__bytes__": x.hex()}
    if isinstance(x, tuple):
        return {"__tuple__": [to_json(i) for i in x]}
    if isinstance(x, (list,)):
        return [to_json(i) for i in x]
    if isinstance(x, (set, frozenset)):
        return {"__set__": sorted((to_json(i) for i in x), key=repr)}
    if isinstance(x, dict):
        if all(isinstance(k, str) for k in x):
            return {k: to_json(v) for k, v in x.items()}
        return {"__dict__": [[to_json(k), to_json(v)] for k, v in x.items()]}
    return x


def from_json(x):
    if isinstance(x, list):
        return [from_json(i) for i in x]
    if isinstance(x, dict):
        if len(x) == 1:
            if "__bytes__" in x:
                return bytes.fromhex(x["__bytes__"])
            if "__codepoints__" in x:
                return "".join(chr(c) for c in x["__codepoints__"])
            if "__tuple__" in x:
                return tuple(from_json(i) for i in x["__tuple__"])
            if "__set__" in x:
                return frozenset(from_json(i) for i in x["__set__"])
            if "__dict__" in x:
                return {_hashable(from_json(k)): from_json(v) for k, v in x["__dict__"]}
        return {k: from_json(v) for k, v in x.items()}
    return x


def _hashable(k):
    if isinstance(k, list):
        return tuple(_hashable(i) for i in k)
    return k


def short(x, n=300):
    s = x if isinstance(x, str) else repr(x)
    s = s.encode("ascii", "backslashreplace").decode("ascii")
    return s if len(s) <= n else s[:n] + "...(%d)" % len(s)


# ---------------------------------------------------------------------------
# known findings

_KNOWN = None


def known_findings():
    global _KNOWN
    if _KNOWN is None:
        p = os.path.join(VERIF_DIR, "known_findings.json")
        try:
            with open(p) as f:
                _KNOWN = json.load(f)
        except FileNotFoundError:
            _KNOWN = []
    return _KNOWN


def active(fid):
    """True iff finding ``fid`` is listed with status 'known' (a 'fixed' entry suppresses nothing)."""
    if os.environ.get("VERIF_NO_KNOWN"):
        return False
    for e in known_findings():
        if e["id"] == fid:
            return e.get("status") == "known"
    return False


# ---------------------------------------------------------------------------
# shrinking (generic ddmin over the shrinkable fields of a case)

def ddmin_seq(seq, test, budget):
    """Delta-debug ``seq`` (str/bytes/list) under ``test(candidate) -> bool``; returns (seq, evals)."""
    evals = 0
    n = 2
    empty = seq[:0]
    while len(seq) >= 1 and evals < budget:
        chunk = max(1, len(seq) // n)
        reduced = False
        i = 0
        while i < len(seq) and evals < budget:
            cand = seq[:i] + seq[i + chunk:]
            evals += 1
            if test(cand):
                seq = cand
                reduced = True
                n = max(n - 1, 2)
            else:
                i += chunk
        if not reduced:
            if chunk == 1:
                break
            n = min(len(seq), n * 2)
        if len(seq) == 0:
            break
    if len(seq) == 0:
        seq = empty
    return seq, evals


def _minimise_away(mod, case, budget=500):
    fields = getattr(mod, "SHRINK", {})
    cur = dict(case)

    def bad(c):
        try:
            return mod.check_case(c).status in ("fail", "masked")
        except Exception:
            return False
    for f in fields:
        if cur.get(f) is None:
            continue

        def t(cand, f=f):
            c2 = dict(cur)
            c2[f] = cand
            return bad(c2)
        new, _ = ddmin_seq(cur[f], t, budget)
        cur[f] = new
    return cur


def shrink_case(mod, case, bucket, budget=1500):
    fields = getattr(mod, "SHRINK", {})

    def fails(c):
        try:
            v = mod.check_case(c)
        except Exception:
            return False
        return v.status == "fail" and v.bucket == bucket

    if not fails(case):
        return case, False
    cur = dict(case)
    for _ in range(2):
        changed = False
        for f, kind in fields.items():
            if f not in cur or cur[f] is None:
                continue
            val = cur[f]

            def t(cand, f=f):
                c2 = dict(cur)
                c2[f] = cand
                return fails(c2)
            new, used = ddmin_seq(val, t, budget // (2 * max(1, len(fields))))
            if len(new) < len(val):
                cur[f] = new
                changed = True
            if kind == "str" and len(cur[f]) <= 200:
                # simplify characters
                s = cur[f]
                for i, ch in enumerate(s):
                    for rep in ("a", " "):
                        if ch != rep and not (ch.isalpha() and ch.isascii() and rep == "a"):
                            cand = s[:i] + rep + s[i + 1:]
                            if t(cand):
                                s = cand
                                changed = True
                                break
                cur[f] = s
        if not changed:
            break
    custom = getattr(mod, "shrink_extra", None)
    if custom:
        cur = custom(cur, fails)
    return cur, True


# ---------------------------------------------------------------------------
# replay files

def replay_path(pid, case):
    h = hashlib.sha1(_canon(case).encode()).hexdigest()[:12]
    return os.path.join("replays", pid, "%s.json" % h)


def write_replay(pid, case, kind, what, bucket, seed, shrunk, finding=None, path=None):
    rel = path or replay_path(pid, case)
    full = os.path.join(OUT_DIR, rel)
    os.makedirs(os.path.dirname(full), exist_ok=True)
    rec = {"property": pid, "kind": kind, "finding": finding, "case": to_json(case),
           "observed": what, "bucket": bucket, "verif_seed": seed, "shrunk": shrunk,
           "created_by": "check"}
    with open(full, "w") as f:
        json.dump(rec, f, indent=1, ensure_ascii=True, sort_keys=True)
        f.write("\n")
    return rel


def load_replay(path):
    if not os.path.isabs(path):
        path = os.path.join(VERIF_DIR, path)
    with open(path) as f:
        rec = json.load(f)
    rec["case"] = from_json(rec["case"])
    return rec


# ---------------------------------------------------------------------------
# hypothesis driver

def drive(strategy, fn, n, seed, stateful=False):
    """Run fn on n generated examples (generation phase only; fn records, never raises for
    property failures; an exception from fn is a harness error and propagates)."""
    import hypothesis
    from hypothesis import HealthCheck, Phase, given, settings

    @hypothesis.seed(seed)
    @settings(max_examples=n, database=None, deadline=None, derandomize=False,
              report_multiple_bugs=False, phases=[Phase.generate],
              suppress_health_check=[HealthCheck.too_slow, HealthCheck.data_too_large,
                                     HealthCheck.large_base_example])
    @given(strategy)
    def t(x):
        fn(x)
    t()


def shard_seed(seed, pid, k):
    return zlib.crc32(("%s/%s/%s" % (seed, pid, k)).encode()) & 0x7FFFFFFF


# ---------------------------------------------------------------------------
# main

def _worker(args):
    modname, desc, seed, tier = args
    try:
        import faulthandler
        import importlib
        import signal
        faulthandler.register(signal.SIGUSR1, all_threads=True)   # kill -USR1 <worker> dumps its stack
        import_target()
        mod = importlib.import_module(modname)
        t0 = time.time()
        acc = mod.run_shard(desc, seed, tier)
        acc.extra.setdefault("shard_wall_s", {})[_canon(desc)[:80]] = round(time.time() - t0, 1)
        return ("ok", acc)
    except _FastFail as e:
        return ("ok", e.acc)
    except BaseException:
        return ("err", traceback.format_exc())


def run_property(pid, tier, seed, jobs=None):
    import importlib
    import multiprocessing as mp
    t0 = time.time()
    import_target()
    modname = "vf.props." + pid.lower()
    mod = importlib.import_module(modname)
    out_lines = []
    violations = []   # (bucket, what, case, shrunk)

    total = Acc()

    # 1. pinned replays: known findings, fixed findings, regression cases
    n_replayed = 0
    for e in known_findings():
        if e["property"] != pid or not e.get("pinned"):
            continue
        rec = load_replay(e["pinned"])
        v = mod.check_case(rec["case"])
        n_replayed += 1
        if e["status"] == "known":
            if v.status == "known" and e["id"] in (v.finding or "").split("+"):
                print("KNOWN-FINDING: property=%s %s %s" % (pid, e["id"], e["title"]))
            elif v.status == "fail":
                violations.append((v.bucket, "pinned case of %s now fails differently: %s" % (e["id"], v.what),
                                   rec["case"], True))
            else:
                print("NOTE: property=%s known finding %s no longer reproduces on its pinned case (%s)"
                      % (pid, e["id"], v.status))
        else:  # fixed
            if v.status != "pass":
                violations.append((v.bucket or e["id"], "fixed finding %s is back: %s" % (e["id"], v.what),
                                   rec["case"], True))
    rdir = os.path.join(VERIF_DIR, "replays", pid)
    if os.path.isdir(rdir):
        for fn in sorted(os.listdir(rdir)):
            if fn.startswith("regress-") and fn.endswith(".json"):
                rec = load_replay(os.path.join(rdir, fn))
                v = mod.check_case(rec["case"])
                n_replayed += 1
                if v.status == "fail":
                    violations.append((v.bucket, "regression case %s: %s" % (fn, v.what), rec["case"], True))

    # 2. generated campaign, sharded
    descs = mod.shards(tier)
    jobs = jobs or int(os.environ.get("VERIF_JOBS", "16"))
    work = [(modname, d, shard_seed(seed, pid, i), tier) for i, d in enumerate(descs)]
    if jobs == 1 or len(work) == 1:
        results = [_worker(w) for w in work]
    else:
        ctx = mp.get_context("fork")
        if os.environ.get("VERIF_FAST_FAIL"):
            # regression tooling only (tools/seedregress.sh, tools/selftest.sh): the question there is just "exit 1 or not", so the
            # run stops at the first shard that reports a failure instead of collecting every root cause.  The pool is not shut
            # down in an orderly way (terminate() can dead-lock on a worker killed while it holds the result queue): main() kills
            # the workers and leaves with os._exit once the verdict is printed.
            pool = ctx.Pool(min(jobs, len(work)))
            _FF_POOLS.append(pool)
            results = []
            for res in pool.imap_unordered(_worker, work, chunksize=1):
                results.append(res)
                if res[0] == "err" or res[1].failures:
                    break
        else:
            with ctx.Pool(min(jobs, len(work))) as pool:
                results = pool.map(_worker, work, chunksize=1)
    for tag, r in results:
        if tag == "err":
            raise HarnessError("shard failed:\n" + r)
        total.merge(r)

    # 3. shrink + dedup failures
    seen = {}
    shrink_budget = 0 if os.environ.get("VERIF_FAST_FAIL") else int(os.environ.get("VERIF_SHRINK_BUDGET", "1500"))
    for bucket, what, case in total.failures:
        if bucket in seen:
            continue
        if len(seen) >= 8:
            break
        try:
            small, ok = shrink_case(mod, case, bucket, shrink_budget)
        except Exception:
            small, ok = case, False
        if ok:
            v = mod.check_case(small)
            what = v.what or what
        seen[bucket] = True
        violations.append((bucket, what, small, ok))

    # 3b. minimise-away (DESIGN 1, mechanism 3): a failing case in which a recorded trigger fired but whose
    # model does not reproduce the result is reduced under "still fails or is still masked"; if the 1-minimal
    # case fails without any recorded trigger it is a new violation, otherwise it stays counted as masked.
    n_min = 0
    for label, what, case in total.masked:
        if n_min >= 10:
            break
        n_min += 1
        try:
            small = _minimise_away(mod, case)
        except Exception:
            continue
        v = mod.check_case(small)
        if v.status == "fail" and v.bucket not in seen:
            seen[v.bucket] = True
            violations.append((v.bucket, v.what, small, True))

    # 4. report
    vcount = 0
    emitted = set()
    for bucket, what, case, shrunk in violations:
        rel = write_replay(pid, case, "violation", what, bucket, seed, shrunk)
        if rel in emitted:
            continue
        emitted.add(rel)
        vcount += 1
        print("VIOLATION property=%s replay=%s" % (pid, rel))
        print("  bucket=%s  %s" % (bucket, short(what, 600)))

    wall = time.time() - t0
    cov = {
        "evaluations": total.evaluations,
        "distinct_nontrivial": len(total.sigs),
        "rule": mod.RULE,
        "samples": [to_json(s) for s in (total.samples[::2] + total.samples[1::2])[:10]],
        "classes": dict(sorted(total.classes.items())),
        "excluded": total.excluded,
        "known_hits": total.known_hits,
        "inconclusive": total.inconclusive,
        "known_masked": total.masked_count,
        "shards": len(descs),
        "pinned_replays_run": n_replayed,
        "failure_buckets": total.fail_buckets,
    }
    if total.exhaustive is not None:
        cov["exhaustive"] = bool(total.exhaustive)
    for k, val in total.extra.items():
        cov[k] = sorted(val, key=repr) if isinstance(val, set) else val
    fin = getattr(mod, "finish", None)
    if fin:
        fin(cov, total, tier)
    ev = {"property_id": pid, "tier": tier, "seed": seed, "level": "exploration",
          "coverage": cov, "assumptions": list(mod.ASSUMPTIONS), "wall_s": round(wall, 2),
          "violations": vcount}
    os.makedirs(os.path.join(OUT_DIR, "evidence"), exist_ok=True)
    with open(os.path.join(OUT_DIR, "evidence", "%s.json" % pid), "w") as f:
        json.dump(ev, f, indent=1, ensure_ascii=True)
        f.write("\n")
    print("%s tier=%s seed=%d evaluations=%d distinct_nontrivial=%d known_hits=%s excluded=%d inconclusive=%d wall=%.1fs violations=%d"
          % (pid, tier, seed, total.evaluations, len(total.sigs), total.known_hits,
             sum(total.excluded.values()), total.inconclusive, wall, vcount))
    exc = sum(total.excluded.values())
    if not vcount and exc > 0.3 * (total.evaluations + exc):
        # exclusions exist for recorded deviations that make a generated case unusable for THIS property; if most cases end up there the
        # tree has changed in a way that makes the check vacuous - that must not look like "held on everything explored"
        top = sorted(total.excluded.items(), key=lambda kv: -kv[1])[:3]
        print("HARNESS-ERROR %s: %d of %d generated cases were excluded, the check is vacuous on this tree; most frequent reasons: %s"
              % (pid, exc, total.evaluations + exc, top), file=sys.stderr)
        return 2
    return 1 if vcount else 0


def run_replay(pid, path):
    import importlib
    import_target()
    mod = importlib.import_module("vf.props." + pid.lower())
    rec = load_replay(path)
    v = mod.check_case(rec["case"])
    print("replay %s: %s %s" % (path, v.status, short(v.what, 1000)))
    if v.status == "fail":
        print("VIOLATION property=%s replay=%s" % (pid, path))
        return 1
    if v.status == "known":
        print("KNOWN-FINDING: property=%s %s" % (pid, v.finding))
    return 0


def main(argv):
    import argparse
    ap = argparse.ArgumentParser()
    ap.add_argument("pid")
    ap.add_argument("--tier", default=os.environ.get("VERIF_TIER") or "quick", choices=["quick", "thorough"])
    ap.add_argument("--replay")
    ap.add_argument("--jobs", type=int)
    a = ap.parse_args(argv)
    seed = int(os.environ.get("VERIF_SEED") or "1")
    pid = a.pid.upper()
    try:
        if a.replay:
            return run_replay(pid, a.replay)
        rc = run_property(pid, a.tier, seed, a.jobs)
        if _FF_POOLS:
            for pool in _FF_POOLS:
                for w in list(getattr(pool, "_pool", [])):
                    try:
                        w.kill()
                    except Exception:
                        pass
            sys.stdout.flush()
            sys.stderr.flush()
            os._exit(rc)
        return rc
    except HarnessError as e:
        print("HARNESS-ERROR %s: %s" % (pid, e), file=sys.stderr)
        return 2
    except Exception:
        print("HARNESS-ERROR %s:\n%s" % (pid, traceback.format_exc()), file=sys.stderr)
        return 2


# ---------------------------------------------------------------------------
# coverage-guided fuzzing shards (thorough tiers): vf/fuzz.py under atheris in a subprocess

def fuzz_shard(target, seconds, seed, max_len=400):
    """Run `python -m vf.fuzz <target>` for `seconds`; findings come back as failures of an Acc."""
    import shutil
    import subprocess
    import tempfile
    acc = Acc()
    base = os.path.join(OUT_DIR, ".work")
    try:
        os.makedirs(base, exist_ok=True)
    except OSError:
        base = None
    work = tempfile.mkdtemp(prefix="fuzz-%s-" % target, dir=base)
    env = dict(os.environ, PYTHONPATH=os.pathsep.join([os.path.join(VERIF_DIR, ".deps"), VERIF_DIR]), PYTHONHASHSEED="0", PYTHONDONTWRITEBYTECODE="1")
    try:
        try:
            p = subprocess.run([sys.executable, "-m", "vf.fuzz", target, work, "-max_total_time=%d" % seconds, "-seed=%d" % (seed % 2 ** 31 or 1), "-max_len=%d" % max_len,
                                "-print_final_stats=0"], capture_output=True, text=True, env=env, timeout=seconds + 600, cwd=VERIF_DIR)
        except subprocess.TimeoutExpired:
            acc.extra["fuzz_timeouts"] = 1
            return acc
        sp = os.path.join(work, "stats.json")
        if not os.path.exists(sp):
            acc.extra["fuzz_unavailable"] = 1      # atheris missing: the tier degrades, it does not fail
            acc.extra["fuzz_note"] = {(p.stderr or "")[-200:]: 1}
            return acc
        st = json.load(open(sp))
        acc.extra["fuzz_execs"] = st["execs"]
        acc.extra["fuzz_nontrivial_execs"] = st["nontrivial"]
        acc.extra["fuzz_known"] = st["known"]
        fd = os.path.join(work, "findings")
        for fn in sorted(os.listdir(fd)):
            rec = json.load(open(os.path.join(fd, fn)))
            case = from_json(rec["case"])
            acc.failures.append((rec["bucket"], rec["what"], case))
            acc.fail_buckets[rec["bucket"]] = acc.fail_buckets.get(rec["bucket"], 0) + 1
        return acc
    finally:
        shutil.rmtree(work, ignore_errors=True)
