"""C10 - sanitized markup stays safe when it is parsed again."""
import warnings

from hypothesis import strategies as st

from vf import h5, obs
from vf.core import Acc, Verdict, active, drive, guarded, short, sig64
from vf.gen import soup
from vf.gen.soup import Dec, sized_binary
from vf.props import c09

ID = "C10"
TECHNIQUE = ("round-trip property-based testing for mutation XSS: generated mXSS-shaped markup -> parse -> serialize with sanitize=True under generated serializer "
             "options -> re-parse as document or fragment (several contexts, scripting on/off) -> the allow-list predicate of C09 evaluated on the re-parsed tree")
RULE = ("Inputs: attack vocabulary of C09 mixed with mXSS shapes (raw-text/RCDATA elements whose text looks like markup, attribute values containing </style> </title> --> ]]> </noscript>, "
        "foreign content and all integration points, table/select/formatting misnesting that moves nodes on re-parse, noscript, comments, CDATA) x first parse {document, fragment, scripting} x "
        "walker x serializer options (quoting modes, omission on/off, escape flags, alphabetical, trailing solidus) with sanitize=True x re-parse {parse, parseFragment in div/td/select/"
        "textarea/title/svg/math/table/p contexts} x scripting. Oracle: in the re-parsed tree no comment; every element's (namespace, name) is on the allow-list (html/head/body skeleton exempt) and "
        "corresponds to a tag the sanitizer let through (plus tbody/tr/colgroup/html/head/body, which the parser implies); every attribute key is allowed; URI-valued attributes and style "
        "satisfy the C09 predicate. Non-trivial = the input contained disallowed markup and (a raw-text/foreign/table/select context is present or re-parsing changed the element sequence); "
        "distinct = (re-parsed tree shape, configuration) signature.")
ASSUMPTIONS = ["the serializer's sanitize option uses the sanitizer's default allow-lists", "re-parsing is done by html5lib itself (the property's wording), not by a browser"]
SHRINK = {"text": "str"}

HTML_NS = c09.HTML_NS
IMPLIED = frozenset([(HTML_NS, n) for n in ("html", "head", "body", "tbody", "tr", "colgroup")])
REPARSE_CONTEXTS = [None, None, None, "div", "td", "select", "textarea", "title", "svg", "math", "table", "p", "style", "script", "noscript", "body", "tr", "a", "template", "xmp"]

MXSS = ["<style><!--</style><img src=x onerror=alert(1)>-->", "<title>&lt;img src=x onerror=alert(1)&gt;</title>", "<textarea></textarea><script>alert(1)</script>", "<noscript><p title=\"</noscript><img src=x onerror=alert(1)>\">",
        "<svg><style><img src=x onerror=alert(1)></style></svg>", "<math><mtext><table><mglyph><style><!--</style><img title=\"--&gt;&lt;img src=1 onerror=alert(1)&gt;\">",
        "<svg></p><style><a id=\"</style><img src=1 onerror=alert(1)>\">", "<form><math><mtext></form><form><mglyph><style></math><img src onerror=alert(1)>", "<a title='--><script>alert(1)</script>'>",
        "<p title=']]><script>x</script>'>", "<![CDATA[<script>x</script>]]>", "<svg><![CDATA[<img src=x onerror=1>]]></svg>", "<select><style></select><img src=x onerror=1></style>",
        "<table><td><svg><foreignObject><p><table><a href=javascript:1>", "<math><annotation-xml encoding=text/html><img src=x onerror=1>", "<svg><desc><img src=x onerror=1></desc>", "<svg><title><script>x</script>",
        "<xmp><img src=x onerror=1></xmp>", "<iframe><img src=x onerror=1></iframe>", "<noembed><script>x</script></noembed>", "<noframes><script>x</script></noframes>", "<plaintext><script>x",
        "<listing>&lt;img src=x onerror=1&gt;</listing>", "<div title='<script>x</script>'>", "<img alt='\"><script>x</script>'>", "<a href=\"x\" title=`y`onmouseover=alert(1)>", "<b><p></b><script>x</script>",
        "<table><script>x</script><tr><td onclick=1>", "<svg><a xlink:href='javascript:alert(1)'><text>x", "<math><mi xlink:href='javascript:1'>x", "<svg><use href='data:image/svg+xml,x'>",
        "<!--<img src=--><img src=x onerror=1//>", "<!--><script>x</script>-->", "<!---><script>x</script>-->", "<? ><script>x</script>", "</ ><script>x</script>", "<p style='x:expression(1)'>",
        "<svg><p><style><g title=\"</style><img src onerror=1>\">", "<svg><mn></p><use>", "<math><select></p><button>", "<title><b>x</b></title>", "<textarea><script>x</script></textarea>", "<script>1</script>",
        "<keygen autofocus onfocus=1>", "<details open ontoggle=1>", "<marquee onstart=1>", "<video><source onerror=1>", "<body onload=1>", "<input type=image src=x onerror=1>", "<isindex action=javascript:1>",
        "<template><script>x</script></template>", "<frameset><frame src=javascript:1>",
        # doctype identifiers and attribute values whose safety rests on what the tokenizer can (not) put into them
        "<svg><desc><li>a</li></desc><title><p title=\"</title><img src=x onerror=alert(1)>\">", "<svg><desc><b><p>x</p></b></desc><title><p title=\"</title><img src onerror=alert(1)>\">",
        "<math><mtext><dd>d</dd></mtext><annotation-xml encoding=text/html><textarea></textarea></annotation-xml>", "<svg><foreignObject><td>c</td></foreignObject><title><a title='</title><script>x</script>'>",
        "<svg><desc><option>o</option></desc><title><b id='</title><img src=x onerror=1>'>", "<i><p>x</p></i><textarea>y</textarea><a title='</textarea><img onerror=1 src=x>'>",
        "<p><b title=\"</textarea><img src=x onerror=alert(1)>\"></p><textarea>x</textarea>", "<i id='</title><script>x</script>'><title>t</title>", "<a href=\"x</textarea><img src=x onerror=1>\"><textarea>\ny",
        "<b class='</textarea><svg onload=1>'><table><tr><td><textarea>z",
        "<!DOCTYPE html PUBLIC 'x><img src=x onerror=alert(1)>'>", "<!DOCTYPE html PUBLIC \"x><script>alert(1)</script>\">", "<!DOCTYPE html SYSTEM 'a><img src=x onerror=1>'>",
        "<!DOCTYPE a><img onerror=1>", "<!DOCTYPE html PUBLIC \"-//x\" 'y><svg onload=1>'>", "<!DOCTYPE html PUBLIC 'a\"><img src=x onerror=1>'>",
        "<a title=\"x\x0bonmouseover\">", "<p title='a&#11;onclick'>", "<a title=\"x\x1conmouseover\">", "<b title='a\x0conclick=1'>", "<i title=\"a\u2028onclick\" lang=\"b\xa0onfocus\">",
        # what the reader's encoding sniffing makes of quotes and escape sequences inside attribute values
        "<a title=\"'><meta charset=iso-2022-jp>\">x</a><img alt=\"\x1b$B\">\x1b(B\" onerror=alert(1) <b>", "<b title='\"><meta charset=iso-2022-jp>'>y</b><img alt='\x1b$B'>\x1b(B' onerror=alert(1) <i>",
        "<p title=\"><meta charset=shift_jis>\">\x81", "<a title=\"'><meta http-equiv=content-type content='text/html; charset=iso-2022-jp'>\">\x1b$B", "<i title='<meta charset=utf-16>'>",
        "<a title=\"x\x00onmouseover\">", "<a title=\"x&#x1f;onmouseover\" id=\"&#x85;onclick\">", "&lt;script&gt;x&lt;/script&gt;", "&#60;img src=x onerror=1&#62;"]


def decode_input(data):
    dec = Dec(data)
    parts = []
    for _ in range(1 + dec.below(4)):
        k = dec.below(10)
        if k <= 4:
            parts.append(dec.pick(MXSS))
        elif k <= 6:
            parts.append(c09.decode_attack(bytes(dec.byte() for _ in range(16))))
        elif k <= 8:
            parts.append(soup.decode_text(bytes(dec.byte() for _ in range(24)), profile=dec.pick(["foreign", "table", "raw", "select", "formatting"]), max_items=8)[1])
        else:
            parts.append(dec.pick(["<svg>", "<math>", "</svg>", "<p>", "</p>", "<table>", "<select>", "<style>", "</style>", "<title>", "<textarea>", "<noscript>", "<!--", "-->", "<![CDATA[", "]]>"]))
    return "".join(parts)


def decode_cfg(data):
    dec = Dec(data)
    opts = {"quote_attr_values": dec.pick(["legacy", "spec", "always"]), "omit_optional_tags": bool(dec.below(2)), "minimize_boolean_attributes": bool(dec.below(2)),
            "escape_lt_in_attrs": bool(dec.below(2)), "escape_rcdata": bool(dec.below(3) == 0), "alphabetical_attributes": bool(dec.below(2)), "use_trailing_solidus": bool(dec.below(3) == 0),
            "strip_whitespace": bool(dec.below(4) == 0)}
    qc = dec.pick([None, None, '"', "'"])
    if qc:
        opts["quote_char"] = qc
    first = {"container": dec.pick([None, None, None, "div", "td", "svg", "select", "p"]), "scripting": bool(dec.below(2)), "walker": dec.pick(["etree", "etree", "dom"])}
    second = {"container": dec.pick(REPARSE_CONTEXTS), "scripting": bool(dec.below(2))}
    # output encoding (None = str) and the meta-charset filter that is on by default with it; popped before the options reach HTMLSerializer
    second["reuse"] = dec.below(4) == 0
    first["namespace"] = dec.below(5) != 0
    opts["_encoding"] = dec.pick([None, None, "utf-8", "ascii", "koi8-r"])
    opts["_inject"] = bool(dec.below(3))
    # the sanitized BYTES read back as bytes, with nothing said about their encoding (the reader sniffs: BOM, <meta> prescan, default)
    second["bytes"] = dec.below(3) == 0
    return opts, first, second


def tree_violations(fl, lists, letthrough, doc):
    """Evaluate the allow-list predicate on a flat re-parsed tree: yields every (bucket, message, record) - a recorded finding may
    excuse one record, never the records after it."""
    for r in fl[1:]:
        k = r[1]
        if k == "comment":
            yield "comment", "a comment node %r appears after re-parsing" % r[2][:60], r
            continue
        if k != "elem":
            continue
        ns = r[2] if r[2] is not None else HTML_NS
        key = (ns, r[3])
        if doc and key in ((HTML_NS, "html"), (HTML_NS, "head"), (HTML_NS, "body")) and r[0] <= 2:
            pass
        else:
            if key not in lists["allowed_elements"]:
                yield "element", "element (%s, %s) appears after re-parsing but is not on the allow-list" % key, r
            elif key not in letthrough and key not in IMPLIED:
                yield "element-origin", "element (%s, %s) appears after re-parsing but no such tag was let through by the sanitizer" % key, r
        for a in r[4]:
            akey = (a[0], a[1])
            if akey not in lists["allowed_attributes"]:
                yield "attribute", "attribute %r on <%s> appears after re-parsing but is not on the allow-list" % (akey, r[3]), r
                continue
            if akey in lists.get("_uri_attrs_oracle", lists["attr_val_is_uri"]):
                scheme, rest = c09.url_scheme(a[2])
                if scheme is not None:
                    if scheme not in lists["allowed_protocols"]:
                        yield "scheme", "after re-parsing %r=%r has the disallowed scheme %r" % (akey, a[2][:80], scheme), r
                    elif scheme == "data" and c09.data_mime_essence(rest) not in lists["allowed_content_types"]:
                        yield "data-type", "after re-parsing %r=%r is a data: URL of a disallowed type" % (akey, a[2][:80]), r
            if akey == (None, "style"):
                msg = c09.css_violation(a[2], lists)
                if msg:
                    yield "css", "after re-parsing: " + msg, r


def tree_violation(fl, lists, letthrough, doc):
    return next(tree_violations(fl, lists, letthrough, doc), None)


SVG_NS = "http://www.w3.org/2000/svg"
MATH_NS = "http://www.w3.org/1998/Math/MathML"
_BREAKOUT = frozenset("""b big blockquote body br center code dd div dl dt em embed h1 h2 h3 h4 h5 h6 head hr i img li listing menu meta nobr ol p pre
ruby s small span strong strike sub sup table tt u ul var font""".split())


def inexpressible_nesting(let):
    """Does the sanitized token stream nest elements in a way HTML syntax cannot express (so that NO serialization can read back as
    the same tree)?  An HTML element directly inside a foreign element that is not an integration point, a foreign element other
    than svg/math directly inside HTML content, or a foreign element whose name makes the parser leave foreign content.
    This is the recorded finding C10-namespace-shift: the serializer writes such trees without an error."""
    stack = []     # (ns, name, attrs)
    for t in let:
        ty = t["type"]
        if ty in ("StartTag", "EmptyTag"):
            ns = t["namespace"] if t["namespace"] is not None else HTML_NS
            name = t["name"]
            if stack:
                pns, pname, pattrs = stack[-1]
                p_foreign = pns != HTML_NS
                integration = (pns == SVG_NS and pname in ("foreignObject", "desc", "title")) or \
                              (pns == MATH_NS and pname == "annotation-xml" and (pattrs.get((None, "encoding")) or "").lower() in ("text/html", "application/xhtml+xml")) or \
                              (pns == MATH_NS and pname in ("mi", "mo", "mn", "ms", "mtext"))
                if ns == HTML_NS and p_foreign and not integration:
                    return "HTML <%s> directly inside foreign <%s>" % (name, pname)
                if ns != HTML_NS:
                    if not p_foreign or integration:
                        if not ((ns == SVG_NS and name == "svg") or (ns == MATH_NS and name == "math")) and not (pns == MATH_NS and pname == "annotation-xml" and ns == SVG_NS and name == "svg"):
                            return "foreign <%s> directly inside HTML content" % name
                    elif ns != pns and not (pns == MATH_NS and pname == "annotation-xml" and name == "svg"):
                        return "<%s> of another foreign namespace inside <%s>" % (name, pname)
                    if name in _BREAKOUT:
                        return "foreign element named <%s> (a parser leaves foreign content at that name)" % name
            elif ns != HTML_NS and not ((ns == SVG_NS and name == "svg") or (ns == MATH_NS and name == "math")):
                return "foreign <%s> at top level" % name
            if ty == "StartTag":
                stack.append((ns, name, t["data"]))
        elif ty == "EndTag" and stack:
            stack.pop()
    return None


@guarded(60)
def check_case(case):
    from html5lib.filters import sanitizer as S
    from html5lib.serializer import HTMLSerializer
    text, opts, first, second = case["text"], dict(case["opts"]), case["first"], case["second"]
    enc = opts.pop("_encoding", None)
    inject = bool(opts.pop("_inject", False) and enc)
    lists = c09.default_lists()
    try:
        tree, p = h5.parse(text, builder=first["walker"], container=first["container"], scripting=first["scripting"], full_tree=True, namespace=bool(first.get("namespace", True)))
        toks = list(h5.walk(tree, first["walker"]))
    except Exception as e:
        return Verdict("excluded", finding="parse/walk raised %s (C03/C11's subject)" % type(e).__name__)
    if any(t["type"] == "SerializeError" for t in toks):
        return Verdict("excluded", finding="walker error token (C11 known finding)")
    with warnings.catch_warnings():
        warnings.simplefilter("ignore")
        let = list(S.Filter(c09._snap(toks)))
        letthrough = set()
        had_bad = False
        for t in toks:
            if t["type"] == "Comment":
                had_bad = True
            elif t["type"] in ("StartTag", "EmptyTag"):
                ns = t["namespace"] if t["namespace"] is not None else HTML_NS
                if (ns, t["name"]) not in lists["allowed_elements"] or any(k not in lists["allowed_attributes"] for k in t["data"]):
                    had_bad = True
        pre = c09.predicate(c09._snap(toks), let, lists)
        if pre is not None:
            return Verdict("fail", "the sanitized token stream itself violates the allow-lists: %s; input %s" % (pre[1], short(text, 250)), "sanitizer-stream:" + pre[0], nontrivial=True)
        let_attrs = set()
        for t in let:
            if t["type"] in ("StartTag", "EmptyTag"):
                letthrough.add((t["namespace"] if t["namespace"] is not None else HTML_NS, t["name"]))
                let_attrs.update(t["data"].keys())
        try:
            ser = HTMLSerializer(sanitize=True, inject_meta_charset=inject, **opts)
            out = ser.render(h5.walk(tree, first["walker"]), enc)
            out_bytes = None
            if enc:
                out_bytes = out
                out = out.decode(enc)
        except UnicodeEncodeError as e:
            if enc:
                return Verdict("excluded", finding="a name or comment the output encoding cannot express: UnicodeEncodeError (loud, nothing is emitted)")
            return Verdict("fail", "serializer(sanitize=True) raised %s: %s on %s" % (type(e).__name__, short(str(e), 100), short(text, 200)), "exception:" + type(e).__name__, nontrivial=True)
        except Exception as e:
            return Verdict("fail", "serializer(sanitize=True) raised %s: %s on %s" % (type(e).__name__, short(str(e), 100), short(text, 200)), "exception:" + type(e).__name__, nontrivial=True)
    try:
        if second.get("reuse") and first["walker"] == "etree":
            # a pipeline that keeps one HTMLParser object for the untrusted parse and for reading the sanitized markup back
            p2 = p
            r2 = (p2.parse(out, scripting=second["scripting"]) if second["container"] is None
                  else p2.parseFragment(out, container=second["container"], scripting=second["scripting"]))
        elif second.get("bytes") and out_bytes is not None:
            r2, p2 = h5.parse(out_bytes, builder="etree", container=second["container"], scripting=second["scripting"], full_tree=True)
        else:
            r2, p2 = h5.parse(out, builder="etree", container=second["container"], scripting=second["scripting"], full_tree=True)
    except Exception as e:
        return Verdict("excluded", finding="re-parse raised %s (C03's subject)" % type(e).__name__)
    fl = obs.flat(r2)
    doc = second["container"] is None
    names_let = [t["name"] for t in let if t["type"] in ("StartTag", "EmptyTag")]
    names_re = [r[3] for r in fl if r[1] == "elem" and not (doc and r[3] in ("html", "head", "body") and r[0] <= 2)]
    ctx = any(x in text.lower() for x in ("<style", "<script", "<title", "<textarea", "<svg", "<math", "<table", "<select", "<noscript", "<xmp", "<iframe", "<!--", "cdata"))
    nontrivial = had_bad and (ctx or names_let != names_re)
    sig = sig64(tuple((r[0], r[1], r[3] if r[1] == "elem" else None) for r in fl), sorted(opts.items()), second["container"], second["scripting"], enc, inject)
    opts = dict(opts, encoding=enc, inject_meta_charset=inject)
    classes = ["reparse:" + str(second["container"]), "scripting2:%s" % second["scripting"]]
    known = None
    res = None
    inexpressible = inexpressible_nesting(let) if active("C10-namespace-shift") else None
    for bucket, msg, rec in tree_violations(fl, lists, letthrough, doc):
        if inexpressible:
            # the sanitized tree itself cannot be written in HTML syntax: whatever the re-parse makes of it is the recorded finding
            known = known or "C10-namespace-shift"
            continue
        if bucket in ("element", "element-origin") and active("C10-namespace-shift"):
            # recorded: the serializer writes bare local names, so an element allowed in one namespace can re-parse into another
            if any(n.lower() == rec[3].lower() for (ns, n) in letthrough):
                known = known or "C10-namespace-shift"
                continue
        if bucket == "attribute" and active("C10-attr-prefix-dropped"):
            # recorded: namespaced attributes are written by local name only (xml:base -> base), so an attribute that is allowed
            # only in its namespace comes back un-namespaced
            bad = [(a[0], a[1]) for a in rec[4] if (a[0], a[1]) not in lists["allowed_attributes"]]
            if bad and all(k[0] is None and any(l[0] is not None and l[1].lower() == k[1].lower() for l in let_attrs) for k in bad):
                known = known or "C10-attr-prefix-dropped"
                continue
        res = (bucket, msg, rec)
        break
    if res is None:
        if known:
            return Verdict("known", finding=known, nontrivial=nontrivial, sig=sig, classes=classes)
        return Verdict("pass", nontrivial=nontrivial, sig=sig, classes=classes)
    bucket, msg, rec = res
    return Verdict("fail", "%s\ninput %s\nfirst=%s opts=%s\nsanitized output: %s\nre-parse=%s" % (msg, short(text, 300), first, opts, short(out, 400), second),
                   "reparse:" + bucket + ":" + str(second["container"]), nontrivial=nontrivial, sig=sig, classes=classes)


def shards(tier):
    quick = tier == "quick"
    return [{"kind": "hyp", "n": 3000 if quick else 50000} for _ in range(16)]


def run_shard(desc, seed, tier):
    acc = Acc()
    strat = st.tuples(sized_binary(6, 100), st.binary(min_size=20, max_size=20))

    def fn(x):
        data, cfg = x
        opts, first, second = decode_cfg(cfg)
        case = {"text": decode_input(data), "opts": opts, "first": first, "second": second}
        acc.add(case, check_case(case))
    drive(strat, fn, desc["n"], seed)
    return acc
