"""C16 - strict mode raises ParseError exactly when a parse error exists."""
from hypothesis import strategies as st

from vf import h5
from vf.core import Acc, Verdict, active, drive, guarded, short, sig64
from vf.gen import soup
from vf.ref import prescan as P
from vf.ref import treebuilder as T

ID = "C16"
TECHNIQUE = ("differential property-based testing strict vs. non-strict parsing over generated markup soup and every truncation (EOF site) of "
             "generated documents; validity predicate over each recorded error (code in table, template formats, position in range)")
RULE = ("Hypothesis markup soup x {document, fragment in 45 contexts} x scripting, and for each short document every one of its prefixes (all EOF sites; "
        "longer ones: a spread of 40 cut points). Oracle: non-strict parse records E; strict parse raises exactly html5lib.html5parser.ParseError iff E != [], with "
        "str(e) == constants.E[E[0].code] % E[0].vars, and raises nothing else; every recorded error has a code in constants.E whose template formats with its "
        "variables and a (line, col) with 1 <= line <= lines+1 and 0 <= col <= len(line). Conforming generated documents (explicit, optional tags omitted by the reference rules, and two other conforming spellings: '/>' on void and empty "
        "foreign elements, single-quoted/unquoted values, upper-case names, space before '>') record no error. Pairs (first, input) on one strict and one non-strict parser object: the "
        "outcome for the second input equals that of new objects (the strict first parse usually aborts). "
        "Non-trivial = E != []; distinct = distinct (first error code, set of codes) signature; the evidence lists the codes reached.")
ASSUMPTIONS = ["positions are judged against the newline-normalised input; a column may equal the line length (position after the last character)"]
SHRINK = {"text": "str", "first": "str", "data": "bytes"}


DOCTYPES = ['<!DOCTYPE html PUBLIC "">', "<!DOCTYPE html SYSTEM ''>", '<!DOCTYPE html PUBLIC "" "">', '<!DOCTYPE html SYSTEM "about:legacy-compat">',
            '<!DOCTYPE html PUBLIC "" "about:legacy-compat">', '<!DOCTYPE html PUBLIC "-//W3C//DTD HTML 4.01//EN">', "<!doctype HTML>", "<!DOCTYPE htm>", "",
            '<!DOCTYPE html SYSTEM "">', '<!DOCTYPE html PUBLIC "-//W3C//DTD XHTML 1.0 Strict//EN" "http://www.w3.org/TR/xhtml1/DTD/xhtml1-strict.dtd">']
INSERTS = ["</i>", "</p>", "<table>", "</table>", "<b>", "x", "\n", "</td>", "<tr>", "&amp;", "<!-- c -->", "</br>", " ", "<li>", "</body>", "<p>", "<svg>", "</svg>", "\t\n"]
LEXICAL_ERRORS = ["<i></i x=y>", "<i></i x>", "<br/ >", "<a b=1 b=2></a>", "<i a=\"b\"c></i>", "&#0;", "&#x110000;", "&#xD800;", "&#128;", "&#1;", "&#xFDD0;", "<!-->", "<!--->", "<!--x--!>", "<!x>", "<?x>", "</>",
                  "</ x>", "<3", "\x00", "<a b='c'd></a>", "<a b=c\"d></a>", "<a =b></a>", "<a b\"c=d></a>", "<a b=></a>", "&amp", "&ampx", "x\x0by", "\ufdd0", "\x7f", "<a b=c'd></a>",
                  "<a b=c<d></a>", "<a b=c=d></a>", "<a b=c`d></a>", "<a 'b'></a>", "<a <b></a>", "<i></i/>", "<!DOCTYPE html>", "&#x;", "&#;", "&#xZ", "&#9999999999;", "<!--x", "<b", "<b a", "<b a=", "<b a='x",
                  "</b", "<!DOCTYPE", "<![CDATA[x]]>", "<!-", "&#65"]
WS_TAILS = ["", " ", "\n", "\n\n ", "x", " x", "&#32;", "<!-- c -->", "\n<!-- c -->"]


def _lines(text):
    t = text.replace("\r\n", "\n").replace("\r", "\n")
    return t.split("\n")


@guarded(40)
def check_case(case):
    import html5lib
    from html5lib import constants
    from html5lib.html5parser import ParseError
    if case.get("kind") == "conforming":
        from vf.gen import conforming
        return conforming.check_no_errors(case)
    if case.get("kind") == "reuse":
        return check_reuse(case)
    if case.get("kind") == "bytes":
        return check_bytes(case)
    text, container, scripting = case["text"], case.get("container"), bool(case.get("scripting"))
    p = h5.parser("etree", True, strict=False)
    try:
        if container is None:
            p.parse(text, scripting=scripting)
        else:
            p.parseFragment(text, container=container, scripting=scripting)
    except Exception as e:
        return Verdict("fail", "non-strict parse raised %s: %s on %s" % (type(e).__name__, short(str(e), 80), short(text, 150)),
                       "nonstrict-exception:" + type(e).__name__, nontrivial=True)
    errs = list(p.errors)
    codes = [e[1] for e in errs]
    nontrivial = bool(errs)
    classes = ["code:" + c for c in set(codes)]
    lines = _lines(text)
    for (pos, code, vars_) in errs:
        if code not in constants.E:
            return Verdict("fail", "error code %r (at %r) has no message template in constants.E; input %s" % (code, pos, short(text, 150)),
                           "code-missing:" + str(code), nontrivial=True, classes=classes)
        try:
            constants.E[code] % vars_
        except Exception as e:
            return Verdict("fail", "message template of %r does not format with %r: %r" % (code, vars_, e), "format:" + code, nontrivial=True, classes=classes)
        try:
            line, col = pos
            ok = isinstance(line, int) and isinstance(col, int) and 1 <= line <= len(lines) + 1 and 0 <= col <= (len(lines[line - 1]) if line <= len(lines) else 0)
        except Exception:
            ok = False
        if not ok:
            return Verdict("fail", "error %r at position %r is outside the input (%d lines; line length %s); input %s"
                           % (code, pos, len(lines), len(lines[pos[0] - 1]) if isinstance(pos, tuple) and 1 <= pos[0] <= len(lines) else "?", short(text, 150)),
                           "position:" + code, nontrivial=True, classes=classes)
    ps = h5.parser("etree", True, strict=True)
    raised = None
    try:
        if container is None:
            ps.parse(text, scripting=scripting)
        else:
            ps.parseFragment(text, container=container, scripting=scripting)
    except ParseError as e:
        raised = e
    except Exception as e:
        return Verdict("fail", "strict parse raised %s (%s) instead of ParseError; first recorded error %r; input %s"
                       % (type(e).__name__, short(str(e), 80), errs[0] if errs else None, short(text, 150)),
                       "strict-other-exception:" + type(e).__name__, nontrivial=True, classes=classes)
    if errs and raised is None:
        return Verdict("fail", "non-strict recorded %r but strict mode raised nothing; input %s" % (errs[0], short(text, 150)), "strict-silent:" + codes[0],
                       nontrivial=True, classes=classes)
    if not errs and case.get("must_error"):
        return Verdict("fail", "no parse error is recorded (strict mode %s) for a document whose only mistake is %r at the end of body - a parse error by the standard; input ...%s"
                       % ("raised nothing" if raised is None else "raised %r" % str(raised), case["must_error"], short(text[-160:], 200)), "lexical-error-missing", nontrivial=True, classes=classes)
    if not errs:
        # 'exactly when a parse error exists': an input on which html5lib records nothing must be free of tree-construction errors
        # by the standard (the reference tree constructor marks each of the standard's parse-error steps it takes in its trace)
        # (documents only: for fragments the reference models html5lib's set-up of the context, not the standard's)
        try:
            ref = T.parse_document(text, scripting=scripting) if container is None else None
        except Exception:
            ref = None
        if ref is not None and "tree-error" in ref.trace and not any(str(x).startswith("dev:") for x in ref.trace):
            return Verdict("fail", "no parse error is recorded (and strict mode %s) although tree construction by the standard hits a parse error; input %s container=%r"
                           % ("raised nothing" if raised is None else "raised %r" % str(raised), short(text, 300), container), "error-missing", nontrivial=True, classes=classes)
        if ref is not None:
            classes.append("clean-by-reference")
    if not errs and raised is not None:
        return Verdict("fail", "strict mode raised %r but the non-strict parse recorded no error; input %s" % (str(raised), short(text, 150)), "strict-spurious",
                       nontrivial=True, classes=classes)
    if errs:
        want = constants.E[codes[0]] % errs[0][2]
        if str(raised) != want:
            return Verdict("fail", "strict mode raised %r, first recorded error is %r (%r); input %s" % (str(raised), codes[0], want, short(text, 150)),
                           "strict-not-first:" + codes[0], nontrivial=True, classes=classes)
    return Verdict("pass", nontrivial=nontrivial, sig=sig64(codes[0] if codes else None, tuple(sorted(set(codes))), container is None), classes=classes)


def _outcome(parser, text):
    from html5lib.html5parser import ParseError
    try:
        parser.parse(text)
    except ParseError as e:
        return ("ParseError", str(e))
    except Exception as e:
        return (type(e).__name__, str(e)[:100])
    return ("ok", [(c, pos) for (pos, c, v) in parser.errors])


def check_bytes(case):
    """Byte input: the encoding may be tentative and the first pass abandoned for a re-parse in the declared encoding; what the
    abandoned pass recorded is discarded by the non-strict parser, so strict mode must not raise it either."""
    from html5lib import constants
    from html5lib.html5parser import ParseError
    data, args, fragment = case["data"], dict(case.get("args") or {}), case.get("entry") == "fragment"
    out = []
    for strict in (False, True):
        p = h5.parser("etree", True, strict=strict)
        try:
            (p.parseFragment if fragment else p.parse)(data, **args)
            out.append(("ok", None, p))
        except ParseError as e:
            out.append(("ParseError", str(e), p))
        except Exception as e:
            return Verdict("fail", "%s parse of bytes raised %s: %s; input %s args %r" % ("strict" if strict else "non-strict", type(e).__name__, short(str(e), 80),
                                                                                        short(data, 150), args),
                           "bytes:%s-exception:%s" % ("strict" if strict else "nonstrict", type(e).__name__), nontrivial=True)
    pn = out[0][2]
    errs = list(pn.errors)
    enc_n = pn.documentEncoding
    enc_s = out[1][2].tokenizer.stream.charEncoding[0].name
    classes = ["bytes", "bytes:errors" if errs else "bytes:clean"]
    try:
        import webencodings
        first = webencodings.lookup(P.pre_parse_encoding(data, args)[0]) if not fragment else None
        if first is not None and first.name != enc_n:
            classes.append("bytes:reparsed")
    except Exception:
        pass
    nontrivial = "bytes:reparsed" in classes
    sig = sig64("bytes", enc_n, tuple(sorted(set(e[1] for e in errs))), tuple(sorted(args)), nontrivial)
    # every recorded position lies inside the input (the characters the parser finally decoded), also after a restart in another encoding
    try:
        import webencodings
        codec = webencodings.lookup(enc_n).codec_info.name
        dec_text = data.decode(codec, "replace")
        if dec_text.startswith("\ufeff"):
            dec_text = dec_text[1:]
        lines = _lines(dec_text)
    except Exception:
        lines = None
    if lines is not None:
        for (pos, code, vars_) in errs:
            try:
                line, col = pos
                ok = 1 <= line <= len(lines) + 1 and 0 <= col <= (len(lines[line - 1]) if line <= len(lines) else 0)
            except Exception:
                ok = False
            if not ok:
                return Verdict("fail", "bytes input: error %r at position %r is outside the input as decoded with %s (%d lines, line length %s); input %s args %r"
                               % (code, pos, enc_n, len(lines), len(lines[pos[0] - 1]) if isinstance(pos, tuple) and 1 <= pos[0] <= len(lines) else "?", short(data, 150), args),
                               "bytes:position:" + code, nontrivial=True, classes=classes)
    if errs and out[1][0] == "ok":
        return Verdict("fail", "bytes input: non-strict recorded %r but strict mode raised nothing; input %s args %r" % (errs[0], short(data, 150), args),
                       "bytes:strict-silent:" + errs[0][1], nontrivial=True, classes=classes)
    if not errs and out[1][0] != "ok":
        return Verdict("fail", "bytes input: strict mode raised %r (stream encoding %s) but the non-strict parse (encoding %s) recorded no error; input %s args %r"
                       % (out[1][1], enc_s, enc_n, short(data, 150), args), "bytes:strict-spurious", nontrivial=True, classes=classes)
    if errs:
        want = constants.E[errs[0][1]] % errs[0][2]
        if out[1][1] != want:
            return Verdict("fail", "bytes input: strict mode raised %r (stream encoding %s), the first recorded error is %r (%r, encoding %s); input %s args %r"
                           % (out[1][1], enc_s, errs[0][1], want, enc_n, short(data, 150), args), "bytes:strict-not-first:" + errs[0][1], nontrivial=True, classes=classes)
    return Verdict("pass", nontrivial=nontrivial, sig=sig, classes=classes)


def check_reuse(case):
    """The same equivalence when the parser objects have parsed something before (a validator loop: one strict parser, many inputs)."""
    from html5lib import constants
    first, text = case["first"], case["text"]
    fresh_n = _outcome(h5.parser("etree", True, strict=False), text)
    fresh_s = _outcome(h5.parser("etree", True, strict=True), text)
    pn, ps = h5.parser("etree", True, strict=False), h5.parser("etree", True, strict=True)
    _outcome(pn, first)
    aborted = _outcome(ps, first)[0] == "ParseError"
    used_n, used_s = _outcome(pn, text), _outcome(ps, text)
    nontrivial = aborted
    sig = sig64("reuse", first, text)
    if used_n != fresh_n:
        return Verdict("fail", "a non-strict parser that parsed %s before records %s for %s; a new one %s" % (short(first, 120), short(used_n, 160), short(text, 160), short(fresh_n, 160)),
                       "reuse:nonstrict-differs", nontrivial=True)
    if used_s != fresh_s:
        return Verdict("fail", "a strict parser that %s on %s before gives %s for %s; a new one %s (non-strict errors: %s)"
                       % ("aborted" if aborted else "completed", short(first, 120), short(used_s, 160), short(text, 160), short(fresh_s, 160), short(fresh_n, 120)),
                       "reuse:strict-differs", nontrivial=True)
    if fresh_n[0] == "ok":
        if (fresh_n[1] == []) != (used_s[0] == "ok"):
            return Verdict("fail", "reused strict parser: %s although the non-strict parse records %s; input %s" % (short(used_s, 120), short(fresh_n[1][:2], 120), short(text, 160)),
                           "reuse:strict-iff", nontrivial=True)
    return Verdict("pass", nontrivial=nontrivial, sig=sig, classes=["reuse", "reuse-after-abort" if aborted else "reuse-after-complete"])


def shards(tier):
    quick = tier == "quick"
    out = [{"kind": "soup", "n": 5000 if quick else 60000} for _ in range(8)]
    out += [{"kind": "prefixes", "n": 400 if quick else 5000} for _ in range(8)]
    try:
        from vf.gen import conforming  # noqa
        out += [{"kind": "conforming", "n": 600 if quick else 8000} for _ in range(4)]
        out += [{"kind": "reuse", "n": 1500 if quick else 20000} for _ in range(2)]
    except ImportError:
        pass
    # every sequence of <= L tokens over the tiny foreign/table alphabets of C03: error sites that need a choreography (an assertion
    # instead of a parse error shows here as 'another exception type')
    for ai in (6, 7, 8):
        out.append({"kind": "tiny", "alphabet": ai, "len": 4 if quick else 6})
    out += [{"kind": "bytes", "n": 2500 if quick else 40000} for _ in range(2)]
    out += [{"kind": "mutated", "n": 700 if quick else 12000} for _ in range(4)]
    return out


def run_shard(desc, seed, tier):
    acc = Acc()
    kind = desc["kind"]
    ctx = st.one_of(st.none(), st.none(), st.sampled_from(soup.CONTEXTS))
    if kind == "soup":
        def fn(x):
            (profile, text), container, scripting = x
            case = {"text": text, "container": container, "scripting": scripting}
            acc.add(case, check_case(case))
        drive(st.tuples(soup.soup_text(max_items=40), ctx, st.booleans()), fn, desc["n"], seed)
    elif kind == "prefixes":
        def fn(x):
            (profile, text), container, scripting = x
            n = len(text)
            cuts = range(n + 1) if n <= 90 else sorted(set(int(i * n / 40.0) for i in range(41)))
            for k in cuts:
                case = {"text": text[:k], "container": container, "scripting": scripting}
                acc.add(case, check_case(case))
        drive(st.tuples(soup.soup_text(max_items=14), ctx, st.booleans()), fn, desc["n"], seed)
    elif kind == "tiny":
        import itertools
        from vf.props.c03 import TINY
        al = TINY[desc["alphabet"]]
        n = 0
        for ln in range(1, desc["len"] + 1):
            for tup in itertools.product(al, repeat=ln):
                n += 1
                case = {"text": ("<!DOCTYPE html>" if n % 2 else "") + "".join(tup), "container": None if n % 3 else "div", "scripting": False}
                acc.add(case, check_case(case))
        if desc["alphabet"] == 6:
            for k, text in enumerate(soup.foreign_namesake_docs()):
                case = {"text": ("<!DOCTYPE html>" if k % 2 else "") + text, "container": None if k % 5 else "div", "scripting": False}
                acc.add(case, check_case(case))
        acc.extra["tiny_sequences"] = n
    elif kind == "mutated":
        # conforming documents with ONE edit: a cut, another DOCTYPE, one inserted token.  Most of them have exactly one parse error
        # (or none), which is where 'recorded nothing' / 'raised nothing' can be wrong
        from vf.gen import conforming

        def fn(x):
            doc, r, salt = x
            text = conforming.writer_styled(doc, salt) if salt else conforming.writer(doc)
            n = len(text)
            muts = [text[: r % (n + 1)]]
            if text.lower().startswith("<!doctype"):
                muts.append(DOCTYPES[r % len(DOCTYPES)] + text[text.find(">") + 1:])
            j = (r // 3) % (n + 1)
            muts.append(text[:j] + INSERTS[(r // 7) % len(INSERTS)] + text[j:])
            # the same insertion at a tag boundary
            b = [i for i in range(n) if text[i] == "<"]
            if b:
                j = b[(r // 11) % len(b)]
                muts.append(text[:j] + INSERTS[(r // 13) % len(INSERTS)] + text[j:])
                muts.append(text[:j] + WS_TAILS[(r // 17) % len(WS_TAILS)])
            for m in muts:
                case = {"text": m, "container": None, "scripting": False}
                acc.add(case, check_case(case))
            # ONE lexical mistake as the last thing in body (data state, "in body"): each snippet is a tokenizer / input-stream parse
            # error by the standard wherever it stands in the data state, so the document must record at least one error
            import copy
            d2 = copy.deepcopy(doc)
            d2["html"][4][1][4].append(["t", "\ue000"])
            t2 = conforming.writer(d2)
            if t2.count("\ue000") == 1:
                for k in range(3):
                    snip = LEXICAL_ERRORS[(r // (19 + k)) % len(LEXICAL_ERRORS)]
                    case = {"text": t2.replace("\ue000", snip), "container": None, "scripting": False, "must_error": snip}
                    acc.add(case, check_case(case))
        drive(st.tuples(conforming._doc_strategy(30), st.integers(0, 10 ** 9), st.integers(0, 7)), fn, desc["n"], seed)
    elif kind == "bytes":
        from vf.gen.soup import sized_binary
        from vf.props import c06

        def fn(b):
            data, args, _k, _pl = c06.decode_case(b[1:])
            # text valid in UTF-8 whose bytes are C1 controls / unassigned in the legacy single-byte encodings, and the reverse
            tail = [b"", b"<p>\xe2\x80\x9c", b"</i>", b"\x81\x8d", b"\xc2\x85x", b"<b>\xd0\x98"][b[0] % 6 if b else 0]
            if b[1:2] and b[1] % 2:
                data = b"<!DOCTYPE html><title>t</title>" + data
            case = {"kind": "bytes", "data": data + tail, "args": args, "entry": "fragment" if b[:1] and b[0] % 5 == 0 else "document"}
            acc.add(case, check_case(case), sample={"data": short(case["data"], 200), "args": args, "entry": case["entry"]})
        drive(sized_binary(8, 80), fn, desc["n"], seed)
    elif kind == "reuse":
        from vf.gen.soup import sized_binary
        from vf.props.c12 import decode_doc

        def fn(x):
            a, b = x
            case = {"kind": "reuse", "first": decode_doc(a)[0], "text": decode_doc(b)[0]}
            acc.add(case, check_case(case))
        drive(st.tuples(sized_binary(4, 90), sized_binary(4, 90)), fn, desc["n"], seed)
    else:
        from vf.gen import conforming
        conforming.run_no_error_docs(acc, desc["n"], seed)
    return acc


def finish(cov, total, tier):
    codes = sorted(k[5:] for k in cov.get("classes", {}) if k.startswith("code:"))
    try:
        from html5lib import constants
        cov["error_codes_reached"] = "%d of %d in constants.E" % (len(codes), len(constants.E))
        cov["error_codes_not_reached"] = sorted(set(constants.E) - set(codes))
    except Exception:
        pass


def shrink_extra(case, fails):
    if case.get("kind") != "conforming":
        return case
    from vf.gen import conforming

    def f(doc):
        c = dict(case)
        c["doc"] = doc
        return fails(c)
    c = dict(case)
    c["doc"] = conforming.shrink_doc(case["doc"], f, budget=300)
    return c
