"""C09 - sanitizer output contains only allow-listed markup, URLs and CSS."""
import re

from hypothesis import strategies as st

from vf import h5
from vf.core import Acc, Verdict, active, drive, guarded, short, sig64
from vf.gen import soup
from vf.gen.soup import Dec, sized_binary

ID = "C09"
TECHNIQUE = ("property-based testing with an independent allow-list predicate: attack-vocabulary markup (obfuscated URL schemes, data: URLs, CSS, SVG/MathML, "
             "namespaced attributes) is parsed, walked and passed through the sanitizer filter under default and randomly restricted allow-lists; the output tokens are "
             "judged by a predicate written from the URL standard's scheme parsing, data: MIME essence and a CSS declaration split")
RULE = ("Inputs: decoded attack soup - URI attributes (href src action cite longdesc poster background ping xlink:href xml:base ...) with values = scheme (allowed / disallowed / near-miss) "
        "under obfuscations (case, embedded TAB/LF/CR, leading C0/space, &#..; &Tab; &colon; &NewLine; forms, zero-width and U+2028, percent-escapes, feed:/view-source: prefixes), data: URLs "
        "with MIME/parameter variants, style attributes (allowed/disallowed properties, shorthand keywords, url( in many spellings, escapes, comments, expression), SVG/MathML elements and "
        "attributes, unknown elements, comments - mixed with general markup soup; x allow-lists = the defaults or Hypothesis-drawn subsets of each of the ten constructor arguments; etree and dom walkers. "
        "Oracle on the filter's output tokens: every tag's (namespace|html, name) in allowed_elements; every attribute key in allowed_attributes; no Comment; for keys in attr_val_is_uri the scheme "
        "as a browser resolves it (strip leading/trailing C0+space, delete TAB/LF/CR, ^[A-Za-z][A-Za-z0-9+.-]*:) is absent or in allowed_protocols and for data: the MIME essence is in "
        "allowed_content_types; the style value splits into declarations whose property is allowed (or a background/border/margin/padding shorthand with allowed keywords) and contains no url( "
        "after CSS escape/comment removal; output tags are a subsequence of the input tags, every disallowed input tag re-appears as a Characters token starting with '<', allowed tags are not lost. "
        "Non-trivial = the input stream contains something the filter must act on; distinct = (action-kind set, allow-list variant) x input signature.")
ASSUMPTIONS = ["attribute values are judged as they stand in the tree (character references already decoded by the parser)",
               "numbers, units and colours in shorthand values are not constrained (the statement speaks of properties and keywords only)"]
SHRINK = {"text": "str"}

HTML_NS = "http://www.w3.org/1999/xhtml"
XLINK = "http://www.w3.org/1999/xlink"
XML = "http://www.w3.org/XML/1998/namespace"
C0_SPACE = "".join(chr(i) for i in range(0x21))

_SCHEME = re.compile(r"^([A-Za-z][A-Za-z0-9+.\-]*):")


def url_scheme(value):
    """Scheme of a URL as the URL standard's parser sees it (None if the string has no scheme, i.e. is relative)."""
    v = value.strip(C0_SPACE)
    v = v.replace("\t", "").replace("\n", "").replace("\r", "")
    m = _SCHEME.match(v)
    if not m:
        return None, v
    return m.group(1).lower(), v[m.end():]


def data_mime_essence(rest):
    """MIME type essence of a data: URL body (after 'data:'), per the fetch standard's data: URL processor."""
    head = rest.split(",", 1)[0]
    mt = head.split(";", 1)[0].strip(" \t\n\x0c\r").lower()
    if not re.match(r"^[!#$%&'*+\-.^_`|~0-9a-z]+/[!#$%&'*+\-.^_`|~0-9a-z]+$", mt):
        return "text/plain"
    return mt


_CSS_ESC = re.compile(r"\\([0-9a-fA-F]{1,6})[ \t\n\r\x0c]?|\\([^\n0-9a-fA-F])")


def css_normalise(style):
    s = re.sub(r"/\*.*?\*/", "", style, flags=re.S)

    def rep(m):
        if m.group(1):
            try:
                return chr(int(m.group(1), 16))
            except (ValueError, OverflowError):
                return "\ufffd"
        return m.group(2)
    return _CSS_ESC.sub(rep, s)


def css_violation(style, lists):
    norm = css_normalise(style)
    if re.search(r"url\s*\(", norm, re.I):
        return "style keeps url(: %r" % style[:80]
    for decl in norm.split(";"):
        if not decl.strip():
            continue
        if ":" not in decl:
            return "style has a declaration without ':' : %r" % decl[:60]
        prop, value = decl.split(":", 1)
        prop = prop.strip().lower()
        if prop in lists["allowed_css_properties"] or prop in lists["allowed_svg_properties"]:
            continue
        if prop.split("-")[0] in ("background", "border", "margin", "padding"):
            for kw in value.split():
                if re.match(r"^[A-Za-z][A-Za-z\-]*$", kw) and kw not in lists["allowed_css_keywords"] and kw not in ("cm", "em", "ex", "in", "mm", "pc", "pt", "px"):
                    return "style keeps keyword %r in shorthand %r" % (kw, prop)
            continue
        return "style keeps property %r" % prop
    return None


# URI-valued attributes as the sanitizer documents them (frozen here: the oracle must not follow an edit of the module's table)
URI_ATTRS_DEFAULT = frozenset([(None, n) for n in ("href", "src", "cite", "action", "longdesc", "poster", "background", "datasrc", "dynsrc", "lowsrc", "ping")]
                              + [(XLINK, "href"), (XML, "base")])


def default_lists():
    from html5lib.filters import sanitizer as S
    d = _default_lists_raw()
    d["_uri_attrs_oracle"] = URI_ATTRS_DEFAULT
    return d


def _default_lists_raw():
    from html5lib.filters import sanitizer as S
    return {"allowed_elements": S.allowed_elements, "allowed_attributes": S.allowed_attributes, "allowed_css_properties": S.allowed_css_properties,
            "allowed_css_keywords": S.allowed_css_keywords, "allowed_svg_properties": S.allowed_svg_properties, "allowed_protocols": S.allowed_protocols,
            "allowed_content_types": S.allowed_content_types, "attr_val_is_uri": S.attr_val_is_uri, "svg_attr_val_allows_ref": S.svg_attr_val_allows_ref,
            "svg_allow_local_href": S.svg_allow_local_href}


def restricted_lists(mask_seed):
    """Deterministic sub-allow-lists: each list keeps the members whose stable hash passes a seed-dependent filter."""
    import zlib
    base = _default_lists_raw()
    out = {}
    for i, (k, v) in enumerate(sorted(base.items())):
        mode = (mask_seed >> (2 * i)) & 3
        if mode == 0:
            out[k] = v
        else:
            keep = frozenset(x for x in v if (zlib.crc32(repr((x, mask_seed, k)).encode()) % 4) >= mode - 1 or False)
            if k == "attr_val_is_uri":
                # shrinking the set of URI-valued attributes is a configuration that *widens* what passes; keep the default -
                # but a caller may ADD attributes it wants scheme-checked (usemap, icon, data ... are allowed but not URI-valued by default)
                extra = [a for a in ((None, n) for n in ("usemap", "icon", "data", "from", "to", "profile", "codebase", "manifest", "formaction", "title"))
                         if a in base["allowed_attributes"] and (zlib.crc32(repr((a, mask_seed)).encode()) % 2)]
                keep = frozenset(v) | frozenset(extra)
            out[k] = keep
    return out


def predicate(tokens_in, tokens_out, lists):
    """-> None or (bucket, message)"""
    allowed_el = lists["allowed_elements"]
    for t in tokens_out:
        ty = t["type"]
        if ty == "Comment":
            return "comment", "a Comment token passed the sanitizer: %r" % t["data"][:60]
        if ty in ("StartTag", "EmptyTag", "EndTag"):
            ns = t["namespace"] if t["namespace"] is not None else HTML_NS
            if (ns, t["name"]) not in allowed_el:
                return "element", "element (%s, %s) is not on the allow-list" % (ns, t["name"])
        if ty in ("StartTag", "EmptyTag"):
            for key, val in t["data"].items():
                if key not in lists["allowed_attributes"]:
                    return "attribute", "attribute %r is not on the allow-list (element %s)" % (key, t["name"])
                if key in lists.get("_uri_attrs_oracle", lists["attr_val_is_uri"]):
                    scheme, rest = url_scheme(val)
                    if scheme is not None:
                        if scheme not in lists["allowed_protocols"]:
                            return "scheme", "URI attribute %r keeps value %r whose scheme %r is not allowed" % (key, val[:80], scheme)
                        if scheme == "data":
                            mt = data_mime_essence(rest)
                            if mt not in lists["allowed_content_types"]:
                                return "data-type", "URI attribute %r keeps data: URL %r of type %r" % (key, val[:80], mt)
                if key == (None, "style"):
                    msg = css_violation(val, lists)
                    if msg:
                        return "css", msg + " (style=%r)" % val[:100]
    # non-invention / inert text
    tags_in = [t for t in tokens_in if t["type"] in ("StartTag", "EmptyTag", "EndTag")]
    j = 0
    for t in tokens_out:
        if t["type"] in ("StartTag", "EmptyTag", "EndTag"):
            while j < len(tags_in) and not (tags_in[j]["type"] == t["type"] and tags_in[j]["name"] == t["name"] and tags_in[j]["namespace"] == t["namespace"]):
                j += 1
            if j == len(tags_in):
                return "invented-tag", "output tag %s %s does not come from the input in order" % (t["type"], t["name"])
            j += 1
    if len(tokens_in) != len([t for t in tokens_out]) + sum(1 for t in tokens_in if t["type"] == "Comment"):
        return "token-count", "tokens lost or added: %d in (%d comments), %d out" % (len(tokens_in), sum(1 for t in tokens_in if t["type"] == "Comment"), len(tokens_out))
    k = 0
    for t in tokens_in:
        if t["type"] == "Comment":
            continue
        o = tokens_out[k]
        k += 1
        if t["type"] in ("StartTag", "EmptyTag", "EndTag"):
            ns = t["namespace"] if t["namespace"] is not None else HTML_NS
            if (ns, t["name"]) in allowed_el:
                if o["type"] != t["type"] or o.get("name") != t["name"]:
                    return "allowed-lost", "allowed tag %s %s came out as %s" % (t["type"], t["name"], short(o, 80))
            else:
                if o["type"] != "Characters" or not o["data"].startswith("<"):
                    return "not-inert", "disallowed tag %s %s came out as %s" % (t["type"], t["name"], short(o, 80))
        else:
            if o["type"] != t["type"] or o.get("data") != t.get("data"):
                return "other-token-changed", "token %s came out as %s" % (short(t, 60), short(o, 60))
    return None


def _snap(tokens):
    return [dict(t, data=dict(t["data"])) if isinstance(t.get("data"), dict) else dict(t) for t in tokens]


@guarded(40)
def check_case(case):
    import warnings
    from html5lib.filters import sanitizer as S
    text, walker, container = case["text"], case.get("walker", "etree"), case.get("container")
    lists = default_lists() if not case.get("mask") else restricted_lists(int(case["mask"]))
    try:
        r, p = h5.parse(text, builder=walker, container=container, full_tree=True, namespace=bool(case.get("namespace", True)))
        toks = list(h5.walk(r, walker))
    except Exception as e:
        return Verdict("excluded", finding="parse/walk raised %s (C03/C11's subject)" % type(e).__name__)
    if any(t["type"] == "SerializeError" for t in toks):
        return Verdict("excluded", finding="walker error token (C11 known finding)")
    before = _snap(toks)
    with warnings.catch_warnings():
        warnings.simplefilter("ignore")
        try:
            out = list(S.Filter(_snap(toks), **{k: v for k, v in lists.items() if not k.startswith("_")}))
        except Exception as e:
            return Verdict("fail", "sanitizer raised %s: %s on %s" % (type(e).__name__, short(str(e), 100), short(text, 200)), "exception:" + type(e).__name__, nontrivial=True)
    acts = set()
    for t in before:
        if t["type"] == "Comment":
            acts.add("comment")
        elif t["type"] in ("StartTag", "EmptyTag", "EndTag"):
            ns = t["namespace"] if t["namespace"] is not None else HTML_NS
            if (ns, t["name"]) not in lists["allowed_elements"]:
                acts.add("bad-element")
            elif t["type"] != "EndTag":
                for k, v in t["data"].items():
                    if k not in lists["allowed_attributes"]:
                        acts.add("bad-attr")
                    elif k in lists.get("_uri_attrs_oracle", lists["attr_val_is_uri"]) and url_scheme(v)[0] is not None:
                        acts.add("uri-with-scheme")
                    elif k == (None, "style"):
                        acts.add("style")
    nontrivial = bool(acts)
    res = predicate(before, out, lists)
    sig = sig64(tuple(sorted(acts)), case.get("mask"), text)
    classes = ["act:" + a for a in acts] + ["lists:" + ("restricted" if case.get("mask") else "default")]
    if res is None:
        return Verdict("pass", nontrivial=nontrivial, sig=sig, classes=classes)
    bucket, msg = res
    return Verdict("fail", "%s; input %s (walker %s, lists %s)" % (msg, short(text, 250), walker, "restricted mask=%s" % case.get("mask") if case.get("mask") else "default"),
                   "sanitizer:" + bucket, nontrivial=nontrivial, sig=sig, classes=classes)


# ---------------------------------------------------------------------------
SCHEMES_OK = ["http", "https", "mailto", "ftp", "tel", "data", "urn", "irc", "news", "sms", "xmpp", "callto", "ed2k", "feed", "fax"]
SCHEMES_BAD = ["javascript", "//[javascript", "http://[", "javascript://[x", "jar:http://[::1", "vbscript", "livescript", "jar", "view-source", "about", "blob", "filesystem", "ms-its", "mhtml", "x-javascript", "file", "chrome", "res", "wyciwyg", "moz-icon",
               "JaVaScRiPt", "java\tscript", "java\nscript", "java&#9;script", "java&Tab;script", "java&NewLine;script", "java&#x0A;script", "j&#97;vascript", "&#106;avascript",
               "javascript&colon;", "javascript&#58;", "javascript&#x3a;", " javascript", "\x01javascript", "&#1;javascript", "&#x20;javascript", "java\u200bscript", "java script",
               "java\x00script", "javascript\x0c", "feed:javascript", "view-source:javascript", "jav&#x09;ascript", "java\rscript", "\u00a0javascript", "javascript%3A", "ja%76ascript",
               "javascript&amp;colon;", "&amp;#106;avascript", "java&amp;Tab;script", "data", "DATA", "d&#97;ta", "da\tta", " data"]
DATA_BODIES = ["text/html,<script>alert(1)</script>", "text/html;base64,PHNjcmlwdD4=", "image/svg+xml,<svg onload=alert(1)>", "image/png;base64,AAAA", ",x", ";base64,AAAA", "TEXT/HTML,x",
               "text/html ;charset=utf-8,x", " text/html,x", "text/plain,x", "image/gif;base64,R0lG", "text/html;charset=utf-8;base64,x", "application/xhtml+xml,x", "image/png,x", "image/svg+xml;base64,x",
               "text/javascript,alert(1)", "text/plain+xml,<x:script xmlns:x='http://www.w3.org/1999/xhtml'>", "image/png+xml;base64,AAAA", "image/gif+json,x", "text/plain+x;charset=utf-8,x",
               "image/jpeg+a.b-c,x", "image/png+,x", "text/plain;+xml,x", "image/png.x,x", "image/png-x;base64,x", "text/html&#44;x", "text\t/html,x", "text/html\n,x", "image/png;text/html,x", "text/html", "x-foo/bar,x", "text/plain;charset=utf-8,<b>"]
URI_ATTRS = ["href", "src", "action", "cite", "longdesc", "poster", "background", "ping", "xlink:href", "xml:base", "datasrc", "dynsrc", "lowsrc", "formaction", "data", "codebase", "manifest", "icon", "usemap", "profile"]
URI_TAGS = ["a", "img", "form", "q", "video", "body", "svg", "iframe", "object", "embed", "input", "button", "blockquote", "area", "link", "base", "audio", "source", "table", "td", "del", "ins", "math", "use", "image", "script", "x"]
CSS_DECLS = ["cursor: URL(1)", "color: Url( 1 )", "width: URL(1, 2)", "color: uRL(12)", "color: url( )", "color: url(1 2)", "cursor: url( 1, 2 )", "color: url ( )", "color: url(", "color: url(1", "color: url(1) url(2 3)",
             "color: url (1)", "cursor: url (1)", "color: url( 1 )", "background: px", "margin: em",
             "background: url(1)", "background: url (1)", "background: url( 1 )", "list-style: URL(2)", "border: 1px evil", "margin: evil", "padding: 1px evil solid", "border: 1px solid red; margin: evil",
             "color: red", "color:red;", "position: fixed", "behavior: url(x.htc)", "background: url(javascript:alert(1))", "background-image:url(x)", "width: expression(alert(1))", "-moz-binding:url(x)",
             "b\\61 ckground: url(x)", "background: u\\72l(x)", "background:/**/url(x)", "background: URL(x)", "background: url (x)", "@import 'x'", "border: 1px solid red", "margin: 0 auto", "padding: 1em 2em",
             "border: 1px dotted expression", "background: red fixed", "font-family: 'a b'", "font-family: \"x\"", "content: 'x'", "color: rgb(1,2,3)", "margin: -1px", "border-color: #fff", "fill: url(#a)",
             "background: #fff url(x) no-repeat", "display:none", "float: left; position: absolute", "text-align: center", "background-position: 0 0", "border: thick evil", "x: y", "color", ": red",
             "color: red !important", "background: &#117;rl(x)", "background: url&#40;x)", "width: 1px; behavior: url(#default#time2)", "top: 0", "list-style: url(x)", "cursor: url(x), auto"]


def decode_attack(data):
    dec = Dec(data)
    parts = []
    for _ in range(1 + dec.below(5)):
        k = dec.below(12)
        if k <= 4:
            tag = dec.pick(URI_TAGS)
            # usually one URI attribute per tag, sometimes several (the filter loops over them: one value must not decide for the others)
            n_attr = 1 if dec.below(4) else 2 + dec.below(2)
            attrs, seen = [], set()
            pre = ""
            for _ in range(n_attr):
                attr = dec.pick(URI_ATTRS)
                if attr in seen:
                    continue
                seen.add(attr)
                if dec.below(8) == 0:
                    # values a URL parser rejects or reads unusually
                    val = dec.pick(["http://[", "h://]", "//[x]/", "https://[::1", "http://[::1]:x/", "http://a b/", "\\\\x", "?javascript:1", "#", "javascript&colon;x", "http://[v1.x]/", "//]"])
                else:
                    r = dec.below(10)
                    if r <= 4:
                        scheme = dec.pick(SCHEMES_BAD)
                    elif r <= 7:
                        scheme = dec.pick(SCHEMES_OK)
                    else:
                        scheme = dec.pick(SCHEMES_OK + SCHEMES_BAD)
                    low = scheme.lower().replace("&#97;", "a").replace("\t", "").strip()
                    body = dec.pick(DATA_BODIES) if low.endswith("data") else dec.pick(["alert(1)", "//example.com/", "x", "", "//a/b?c#d", "foo@bar", "%0aalert(1)"])
                    sep = "" if scheme.endswith(";") or scheme.endswith("%3A") else ":"
                    val = scheme + sep + body
                q = dec.pick(['"', "'", ""])
                if q == "":
                    val = re.sub(r"[ \t\n\x0c\r>]", "", val)
                else:
                    val = val.replace(q, "")
                if attr == "xlink:href" and dec.below(2):
                    pre = "<svg>"
                attrs.append("%s=%s%s%s" % (attr, q, val, q))
            parts.append("%s<%s %s>x</%s>" % (pre, tag, " ".join(attrs), tag))
        elif k <= 7:
            decls = "; ".join(dec.pick(CSS_DECLS) for _ in range(1 + dec.below(3)))
            parts.append('<%s style="%s">y</%s>' % (dec.pick(["p", "div", "span", "svg", "td", "x"]), decls.replace('"', "'"), "p"))
        elif k == 8:
            parts.append(dec.pick(["<script>alert(1)</script>", "<style>@import x</style>", "<!-- c -->", "<iframe src=x></iframe>", "<object data=x>", "<embed src=x>", "<math><mi xlink:href=x>",
                                   "<svg><script>x</script><a xlink:href='javascript:1'>", "<form action=javascript:1><input onfocus=1 autofocus>", "<img src=x onerror=alert(1)>", "<svg onload=1>",
                                   "<a href=x onclick=1 id=a class=b>", "<xml:x>", "<p xmlns='x'>", "<base href=javascript:1>", "<meta http-equiv=refresh content='0;javascript:1'>", "<link rel=import href=x>",
                                   "<svg><use xlink:href='#a'/><use xlink:href='http://x/#a'/>", "<svg><rect fill='url(#a)' clip-path='url(http://x)'/>", "<template><img src=x></template>", "<plaintext>"]))
        elif k == 9:
            parts.append(soup.decode_text(bytes(dec.byte() for _ in range(20)), max_items=8)[1])
        else:
            parts.append(dec.pick(["text", " ", "<b>", "</b>", "<p>", "&lt;script&gt;", "<table><tr><td>", "</td>"]))
    return "".join(parts)


def shards(tier):
    quick = tier == "quick"
    return [{"kind": "hyp", "n": 2500 if quick else 60000} for _ in range(16)] + [{"kind": "long"}]


def run_shard(desc, seed, tier):
    acc = Acc()
    if desc["kind"] == "long":
        for text in soup.long_docs():
            for walker in ("etree", "dom"):
                case = {"text": text, "mask": 0 if walker == "etree" else 9331, "walker": walker, "container": None}
                acc.add(case, check_case(case))
        return acc

    strat = st.tuples(sized_binary(8, 120), st.one_of(st.just(0), st.just(0), st.integers(1, 2 ** 20 - 1)), st.sampled_from(["etree", "etree", "dom"]),
                      st.one_of(st.none(), st.none(), st.sampled_from(["div", "svg", "td", "select", "p"])))

    def fn(x):
        data, mask, walker, container = x
        case = {"text": decode_attack(data), "mask": mask, "walker": walker, "container": container}
        if data and data[-1] % 4 == 0:
            case["namespace"] = False
        acc.add(case, check_case(case))
    drive(strat, fn, desc["n"], seed)
    return acc
