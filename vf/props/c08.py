"""C08 - serializer output is lexically faithful or an error is reported."""
from hypothesis import strategies as st

from vf import h5
from vf.core import Acc, Verdict, active, drive, guarded, short, sig64
from vf.gen import soup
from vf.gen.soup import Dec, sized_binary
from vf.ref.tokenizer import RefTokenizer, normalize_newlines

ID = "C08"
TECHNIQUE = ("round trip through an independent reference lexer: walker streams of trees parsed from arbitrary (malformed) generated markup are serialized under "
             "generated option records (optional-tag omission off); either .errors is non-empty (and strict mode raises SerializeError) or the reference WHATWG tokenizer, "
             "driven by the known element context, must read back exactly the given tokens")
RULE = ("Streams obtained by walking (etree / dom) trees parsed from Hypothesis markup soup (documents and fragments, both scripting flags; foreign content, raw-text and RCDATA elements, "
        "odd names, quotes and markup characters in text and attribute values) x serializer options {quote_attr_values, quote_char, minimize_boolean_attributes, use_trailing_solidus, "
        "space_before_trailing_solidus, escape_lt_in_attrs, escape_rcdata, alphabetical_attributes} x output encoding {none, ascii, utf-8, koi8-r, iso-8859-1, windows-1252} x "
        "inject_meta_charset (with an encoding; the filter's designed rewrite is applied to the expectation by the tree-level model shared with C15, meta sequences are put in front of the "
        "soup) with omit_optional_tags=False. A UnicodeEncodeError for a name/comment the encoding cannot express counts as a loud rejection. Oracle: if the non-strict run records errors the case passes "
        "(a strict run must then raise SerializeError); otherwise vf/ref/tokenizer.py re-reads the output while a driver walks the stream in step and switches the lexer state from the given "
        "element context (HTML title/textarea -> RCDATA; style/xmp/iframe/noembed/noframes -> RAWTEXT; script -> script data; plaintext -> PLAINTEXT; noscript -> RAWTEXT iff parsed with "
        "scripting; foreign elements -> CDATA allowed): tag and attribute names (ASCII case-insensitively; namespaced attributes under their qualified name), attribute values, concatenated text, "
        "comments and doctype fields must be exactly those given - nothing extra, nothing missing. Non-trivial = the stream has text/attribute data with any of < > & \" ' ` = or whitespace, "
        "or raw-text/RCDATA/foreign elements, or a doctype with identifiers; distinct = (stream signature, option record). Plus an enumerated raw-text family ('</' at the start, middle and end of one text token x the seven raw-text names x "
        "HTML / SVG / MathML x walkers x escape_rcdata) and the serializer's own rule as an absolute clause: a mismatch together with a text token holding '</' written while its raw-text flag is up and no "
        "reported error is a violation that no recorded finding excuses.")
ASSUMPTIONS = ["output bytes are decoded with the same Python codec before lexing; only codecs that round-trip every character they encode are used",
               "a missing and an empty doctype identifier are not distinguished (walkers cannot tell them apart)", "the self-closing flag read back for '<br />' is not compared",
               "vf/ref/tokenizer.py is the lexer of reference (see C02)"]
SHRINK = {"text": "str"}

HTML_NS = "http://www.w3.org/1999/xhtml"
XLINK = "http://www.w3.org/1999/xlink"
XML = "http://www.w3.org/XML/1998/namespace"
XMLNS = "http://www.w3.org/2000/xmlns/"
RCDATA = ("title", "textarea")
RAWTEXT = ("style", "xmp", "iframe", "noembed", "noframes")
SER_RAW = frozenset(["style", "script", "xmp", "iframe", "noembed", "noframes", "noscript"])     # the serializer's own raw-text list (vocabulary for classifiers)
VOID = None


def qualified(key):
    ns, local = key
    if ns is None:
        return local
    if ns == XLINK:
        return "xlink:" + local
    if ns == XML:
        return "xml:" + local
    if ns == XMLNS:
        return "xmlns" if local == "xmlns" else "xmlns:" + local
    return local


def _lower(s):
    return "".join(chr(ord(c) + 32) if "A" <= c <= "Z" else c for c in s)


def own_stream(fl):
    """walker-format tokens derived from the directly traversed tree (independent of html5lib's walkers)"""
    from html5lib.constants import voidElements
    out = []
    stack = []      # (depth, namespace, name)
    for r in fl[1:]:
        while stack and stack[-1][0] >= r[0]:
            d, ns, name = stack.pop()
            out.append({"type": "EndTag", "name": name, "namespace": ns})
        k = r[1]
        if k == "elem":
            data = {}
            for a in r[4]:
                data[(a[0], a[1])] = a[2]
            if r[2] in (None, HTML_NS) and r[3] in voidElements:
                out.append({"type": "EmptyTag", "name": r[3], "namespace": r[2], "data": data})
                stack.append((r[0], None, None))      # children of a void element are not representable; C11 owns that case
                stack.pop()
                void_depth = r[0]
            else:
                out.append({"type": "StartTag", "name": r[3], "namespace": r[2], "data": data})
                stack.append((r[0], r[2], r[3]))
        elif k == "text":
            out.append({"type": "Characters", "data": r[2]})
        elif k == "comment":
            out.append({"type": "Comment", "data": r[2]})
        elif k == "doctype":
            out.append({"type": "Doctype", "name": r[2], "publicId": r[3], "systemId": r[4]})
    while stack:
        d, ns, name = stack.pop()
        out.append({"type": "EndTag", "name": name, "namespace": ns})
    return out


def expected_tokens(stream, alphabetical):
    """given stream -> neutral lexical tokens (text concatenated)"""
    out = []
    for t in stream:
        ty = t["type"]
        if ty in ("Characters", "SpaceCharacters"):
            if out and out[-1][0] == "chars":
                out[-1] = ("chars", out[-1][1] + t["data"])
            else:
                out.append(("chars", t["data"]))
        elif ty in ("StartTag", "EmptyTag"):
            attrs = [(_lower(qualified(k)), v) for k, v in t["data"].items()]
            if alphabetical:
                attrs = sorted(attrs)
            out.append(("start", _lower(t["name"]), attrs, t.get("namespace"), ty))
        elif ty == "EndTag":
            out.append(("end", _lower(t["name"]), t.get("namespace")))
        elif ty == "Comment":
            out.append(("comment", t["data"]))
        elif ty == "Doctype":
            out.append(("doctype", _lower(t["name"] or ""), t["publicId"] or "", t["systemId"] or ""))
        else:
            out.append(("other", ty))
    return [x for x in out if not (x[0] == "chars" and x[1] == "")]


_MISMATCH = [0]      # index (into the expected tokens) of the first token that did not read back


def read_back(output, expected, scripting, alphabetical):
    """Drive the reference tokenizer over `output` in step with the expected tokens -> None or (bucket, message)."""
    stack = []         # namespaces of open elements (as given)
    tok = RefTokenizer(normalize_newlines(output), cdata_allowed=lambda: bool(stack) and stack[-1] not in (None, HTML_NS))
    got = []

    i = 0
    pending_chars = ""
    while True:
        t = tok.next_token()
        if t[0] == "chars":
            pending_chars += t[1]
            continue
        # flush text
        if pending_chars:
            if i < len(expected) and expected[i][0] == "chars":
                if expected[i][1] != pending_chars:
                    _MISMATCH[0] = i
                    return "text", "text read back as %s, given %s" % (short(pending_chars, 100), short(expected[i][1], 100))
                i += 1
            else:
                _MISMATCH[0] = i
                return "extra-text", "text %s read back where %s was given" % (short(pending_chars, 80), short(expected[i] if i < len(expected) else "end of stream", 100))
            pending_chars = ""
        if t[0] == "eof":
            break
        if i >= len(expected):
            _MISMATCH[0] = i
            return "extra-token", "token %s read back after the end of the given stream" % short(t, 120)
        e = expected[i]
        if e[0] == "chars":
            _MISMATCH[0] = i
            return "missing-text", "given text %s is not read back (next token %s)" % (short(e[1], 80), short(t, 100))
        if t[0] == "start":
            if e[0] != "start" or e[1] != t[1]:
                _MISMATCH[0] = i
                return "tag", "start tag <%s> read back where %s was given" % (short(t[1], 40), short(e[:2], 100))
            rattrs = sorted(t[2]) if alphabetical else t[2]
            if rattrs != e[2]:
                _MISMATCH[0] = i
                return "attributes", "attributes of <%s> read back as %s, given %s" % (t[1], short(rattrs, 150), short(e[2], 150))
            ns, ty = e[3], e[4]
            html = ns in (None, HTML_NS)
            if ty == "StartTag":
                stack.append(ns)
                if html:
                    if t[1] in RCDATA:
                        tok.state = "rcdata"
                    elif t[1] in RAWTEXT or (t[1] == "noscript" and scripting):
                        tok.state = "rawtext"
                    elif t[1] == "script":
                        tok.state = "script_data"
                    elif t[1] == "plaintext":
                        tok.state = "plaintext"
        elif t[0] == "end":
            if e[0] != "end" or e[1] != t[1]:
                _MISMATCH[0] = i
                return "tag", "end tag </%s> read back where %s was given" % (short(t[1], 40), short(e[:2], 100))
            if stack:
                stack.pop()
        elif t[0] == "comment":
            if e[0] != "comment" or e[1] != t[1]:
                _MISMATCH[0] = i
                return "comment", "comment %s read back where %s was given" % (short(t[1], 80), short(e, 100))
        elif t[0] == "doctype":
            if e[0] != "doctype" or (t[1] or "") != e[1] or (t[2] or "") != e[2] or (t[3] or "") != e[3]:
                _MISMATCH[0] = i
                return "doctype", "doctype read back as %s, given %s" % (short(t[1:4], 120), short(e, 120))
        i += 1
    if i < len(expected):
        _MISMATCH[0] = i
        return "missing-token", "given token %s is not read back" % short(expected[i], 120)
    return None


import re as _re
_LONE = _re.compile("[\ud800-\udfff]")
_C1 = _re.compile("[\x80-\x9f]")


def _unencodable(s, enc):
    try:
        s.encode(enc)
        return False
    except UnicodeEncodeError:
        return True


# findings whose effect is confined to the token that carries the trigger; the others derail the lexer from that token on
_POINT = frozenset(["C08-attr-prefix-dropped", "C08-cr-written-raw", "C08-lone-surrogate-encoded", "C08-c1-unrepresentable", "C08-boolean-minimisation-value",
                    "C08-rawtext-unencodable-charref", "C08-escape-rcdata-rawtext"])


def known_triggers(stream, opts, scripting, enc=None, at=None):
    """feature classifiers of the recorded serializer defects -> finding ids whose trigger can explain a mismatch at expected-token
    index `at`: a trigger ON that token, or - for the findings that derail the lexer - on any token before it.  (at=None: anywhere.)"""
    from html5lib.constants import booleanAttributes
    located = []

    class _Out(object):
        def append(self, fid):
            located.append((exp_i[0], fid))
    out = _Out()
    exp_i = [-1]
    open_el = []
    merged = []
    for t in stream:
        if t["type"] in ("Characters", "SpaceCharacters") and merged and merged[-1]["type"] in ("Characters", "SpaceCharacters"):
            merged[-1] = {"type": "Characters", "data": merged[-1]["data"] + t["data"]}     # the dom builder leaves adjacent text nodes
        else:
            merged.append(t)
    for t in merged:
        ty = t["type"]
        if not (ty in ("Characters", "SpaceCharacters") and t["data"] == ""):
            exp_i[0] += 1          # the expected-token list has one entry per merged token (empty text is dropped there)
        if ty in ("StartTag", "EmptyTag"):
            html = t["namespace"] in (None, HTML_NS)
            if ty == "StartTag":
                open_el.append((html, t["name"]))
            for (ns, local), v in t["data"].items():
                if ns is not None:
                    out.append("C08-attr-prefix-dropped")
                if "\r" in v:
                    out.append("C08-cr-written-raw")
                if enc and _LONE.search(v):
                    out.append("C08-lone-surrogate-encoded")
                if enc and any(_unencodable(c, enc) for c in _C1.findall(v)):
                    out.append("C08-c1-unrepresentable")
                if opts.get("minimize_boolean_attributes", True) and v != "" and (local in booleanAttributes.get(t["name"], ()) or local in booleanAttributes.get("", ())):
                    out.append("C08-boolean-minimisation-value")
            if html and t["name"] == "plaintext":
                out.append("C08-plaintext")
            if any(h and n in ("title", "textarea") for (h, n) in (open_el[:-1] if ty == "StartTag" else open_el)):
                out.append("C08-element-inside-rcdata")
        elif ty == "EndTag":
            if open_el:
                open_el.pop()
        elif ty in ("Characters", "SpaceCharacters"):
            d = t["data"]
            if "\r" in d:
                out.append("C08-cr-written-raw")
            if enc and _LONE.search(d):
                out.append("C08-lone-surrogate-encoded")
            if enc and any(_unencodable(c, enc) for c in _C1.findall(d)):
                out.append("C08-c1-unrepresentable")
            if open_el:
                html, name = open_el[-1]
                inside_raw = any(n in SER_RAW for (h, n) in open_el)
                if enc and inside_raw and _unencodable(d, enc):
                    out.append("C08-rawtext-unencodable-charref")
                if ("<" in d or "&" in d or ">" in d) and inside_raw:
                    if not html and name in SER_RAW:
                        out.append("C08-foreign-rawtext-namesake")
                    elif any((not h) and n in SER_RAW for (h, n) in open_el):
                        out.append("C08-foreign-rawtext-namesake")
                    if any(h and n == "noscript" for (h, n) in open_el) and not scripting:
                        out.append("C08-noscript-raw-text")
                    if opts.get("escape_rcdata"):
                        out.append("C08-escape-rcdata-rawtext")
                    if any(h and n == "script" for (h, n) in open_el) and "<!--" in d:
                        out.append("C08-script-comment-like")
                    if any(h and n in SER_RAW for (h, n) in open_el[:-1]) or (html and name not in SER_RAW):
                        out.append("C08-text-below-rawtext-child")
                if any(h and n in ("title", "textarea") for (h, n) in open_el[:-1]):
                    out.append("C08-element-inside-rcdata")
        elif ty == "Comment":
            if any(h and n in ("title", "textarea") for (h, n) in open_el):
                out.append("C08-element-inside-rcdata")
        elif ty == "Doctype":
            if '"' in (t["publicId"] or "") or ">" in (t["publicId"] or "") or ">" in (t["systemId"] or "") or any(c in (t["name"] or "") for c in " \t\n\x0c>"):
                out.append("C08-doctype-quote")
    if at is None:
        return sorted(set(f for _, f in located))
    return sorted(set(f for k, f in located if k == at or (f not in _POINT and k < at) or (f in _POINT and ty_is_end_adjacent(k, at))))


def ty_is_end_adjacent(k, at):
    # a point finding on the token just before also explains a mismatch that surfaces one token later (text that merges with what follows)
    return k == at - 1


@guarded(40)
def check_case(case):
    from html5lib.serializer import HTMLSerializer, SerializeError
    text, container, scripting, walker, opts = case["text"], case.get("container"), bool(case.get("scripting")), case.get("walker", "etree"), dict(case.get("opts") or {})
    try:
        tree, p = h5.parse(text, builder=walker, container=container, scripting=scripting, full_tree=True, namespace=bool(case.get("namespace", True)))
        stream = list(h5.walk(tree, walker))
    except Exception as e:
        return Verdict("excluded", finding="parse/walk raised %s (C03/C11's subject)" % type(e).__name__)
    if any(t["type"] == "SerializeError" for t in stream):
        return Verdict("excluded", finding="walker error token (C11 known finding)")
    rerender = bool(case.get("rerender"))
    if rerender:
        # a caller that keeps the token list and renders it more than once (tokens = list(walker(tree))): the second rendering is given
        # the very same token objects; nothing of the first may be missing from it.  (Sorted attribute order is the one thing an
        # alphabetical_attributes run leaves behind in the caller's tokens, so this leg is stated for sorted output.)
        opts["alphabetical_attributes"] = True
        try:
            HTMLSerializer(omit_optional_tags=False, alphabetical_attributes=True, quote_attr_values="always").render(stream)
        except Exception:
            pass
    alphabetical = bool(opts.get("alphabetical_attributes"))
    # what was *given* is the tree: the expected tokens come from our own traversal, html5lib's walker only feeds the serializer
    from vf import obs
    from vf.props.c11 import _void_with_children
    fl = obs.flat(tree)
    if _void_with_children(fl):
        return Verdict("excluded", finding="void-listed element with children (C11 known finding)")
    enc = opts.pop("_encoding", None)
    inject = bool(opts.pop("_inject", False) and enc)
    if inject:
        # the configured inject_meta_charset filter rewrites / adds a declaration by design: what is "given" to the writer is the
        # tree after that rewrite (tree-level model shared with C15); everything else must still come through exactly
        heads = [r for r in fl if r[1] == "elem" and r[3] == "head"]
        if any(r[2] not in (None, HTML_NS) for r in heads) or len(heads) > 1:
            return Verdict("excluded", finding="several / foreign head elements with inject_meta_charset (the filter's choice among them is not modelled)")
        from vf.props.c15 import model
        given = own_stream(model(fl, enc))
    else:
        given = own_stream(fl)
    if opts.get("strip_whitespace"):
        # the configured whitespace filter rewrites text by design (C17 decides that filter); here its documented effect is applied to the
        # expectation: runs of ASCII white space collapse outside pre/textarea/raw-text elements.  Only where C17's model is decided.
        from vf.props import c17
        amb = [r for r in fl if r[1] == "elem" and ((r[2] in (None, HTML_NS) and r[3] in c17.DONTCARE) or
                                                     (r[2] not in (None, HTML_NS) and r[3] in ("style", "script", "title", "pre", "textarea", "xmp", "iframe", "noembed", "noframes", "noscript")))]
        if amb or walker != "etree":
            return Verdict("excluded", finding="strip_whitespace with elements whose white space the property does not decide (or the dom walker's split text nodes, C17 finding)")
        stack, g2 = [], []
        for t in given:
            if t["type"] == "StartTag":
                stack.append(t.get("namespace") in (None, HTML_NS) and t["name"] in c17.PRESERVE)
            elif t["type"] == "EndTag" and stack:
                stack.pop()
            elif t["type"] == "Characters" and not any(stack):
                t = dict(t, data=c17.collapse(t["data"]))
            g2.append(t)
        given = g2
    ser = HTMLSerializer(omit_optional_tags=False, inject_meta_charset=inject, **opts)
    try:
        out = ser.render(iter(stream) if rerender else iter([dict(t, data=dict(t["data"])) if isinstance(t.get("data"), dict) else dict(t) for t in stream]), enc)
        if enc:
            out = out.decode(enc)
    except UnicodeEncodeError as e:
        if enc:
            # a name, comment or doctype that the output encoding cannot express: rejected loudly, nothing is silently altered
            return Verdict("pass", nontrivial=False, classes=["unencodable-raised"])
        return Verdict("fail", "serializer raised %s: %s on the stream of %s" % (type(e).__name__, short(str(e), 100), short(text, 200)), "exception:" + type(e).__name__, nontrivial=True)
    except Exception as e:
        return Verdict("fail", "serializer raised %s: %s on the stream of %s" % (type(e).__name__, short(str(e), 100), short(text, 200)), "exception:" + type(e).__name__, nontrivial=True)
    exp = expected_tokens(given, alphabetical)
    special = set("<>&\"'`= \t\n")
    nontrivial = any((e[0] == "chars" and set(e[1]) & special) or (e[0] == "start" and (e[3] not in (None, HTML_NS) or e[1] in RCDATA + RAWTEXT + ("script",) or any(set(v) & special for k, v in e[2])))
                     or (e[0] == "doctype" and (e[2] or e[3])) for e in exp)
    sig = sig64(repr(exp), sorted(opts.items()), enc, inject)
    classes = ["walker:" + walker] + (["errors-reported"] if ser.errors else [])
    if ser.errors:
        s2 = HTMLSerializer(omit_optional_tags=False, inject_meta_charset=inject, **opts)
        s2.strict = True
        try:
            s2.render(iter([dict(t, data=dict(t["data"])) if isinstance(t.get("data"), dict) else dict(t) for t in stream]), enc)
            return Verdict("fail", "non-strict run recorded %r but strict mode raised nothing; input %s" % (ser.errors[:2], short(text, 200)), "strict-silent", nontrivial=nontrivial)
        except SerializeError:
            pass
        except Exception as e:
            return Verdict("fail", "strict mode raised %s instead of SerializeError" % type(e).__name__, "strict-other-exception", nontrivial=nontrivial)
        return Verdict("pass", nontrivial=nontrivial, sig=sig, classes=classes)
    res = read_back(out, exp, scripting, alphabetical)
    if res is None:
        return Verdict("pass", nontrivial=nontrivial, sig=sig, classes=classes)
    # the serializer's own rule, modelled on the stream it was given: text written while its raw-text flag is up (after the start tag of
    # style/script/xmp/iframe/noembed/noframes/noscript in ANY namespace, until such an end tag) and holding "</" is always reported.
    # No recorded finding is about such a token (on the unchanged tree the run ends above, at `if ser.errors`), so none excuses it.
    raw, raw_close = False, None
    for t in stream:
        if t["type"] in ("StartTag", "EmptyTag"):
            raw = raw or (t["name"] in SER_RAW and not opts.get("escape_rcdata"))
        elif t["type"] == "EndTag":
            raw = raw and t["name"] not in SER_RAW
        elif t["type"] == "Characters" and raw and "</" in t["data"]:
            raw_close = t["data"]
            break
    if raw_close is not None:
        return Verdict("fail", "%s; text %s holding '</' was written raw inside a raw-text element and NO error was reported; opts=%s walker=%s container=%r\ninput %s\noutput %s"
                       % (res[1], short(raw_close, 60), dict(opts, encoding=enc), walker, container, short(text, 250), short(out, 400)), "lexical:raw-close-unreported", nontrivial=nontrivial, sig=sig, classes=classes)
    trig = [f for f in known_triggers(given, opts, scripting, enc, at=_MISMATCH[0]) if active(f)]
    if trig:
        return Verdict("known", finding="+".join(trig), nontrivial=nontrivial, sig=sig, classes=classes)
    bucket, msg = res
    return Verdict("fail", "%s; no error was reported; opts=%s walker=%s scripting=%s container=%r\ninput %s\noutput %s" % (msg, dict(opts, encoding=enc, inject_meta_charset=inject), walker, scripting, container, short(text, 250), short(out, 400)),
                   "lexical:" + bucket, nontrivial=nontrivial, sig=sig, classes=classes)


def decode_opts(data):
    dec = Dec(data)
    o = {"quote_attr_values": dec.pick(["legacy", "spec", "always"])}
    qc = dec.pick([None, None, '"', "'"])
    if qc:
        o["quote_char"] = qc
    for k in ("minimize_boolean_attributes", "use_trailing_solidus", "space_before_trailing_solidus", "escape_lt_in_attrs", "escape_rcdata", "alphabetical_attributes", "resolve_entities"):
        o[k] = bool(dec.below(2))
    # output encoding (None = str output) and, with it, the meta-charset filter; popped before the options reach HTMLSerializer
    o["_encoding"] = dec.pick([None, None, None, "ascii", "ascii", "utf-8", "koi8-r", "iso-8859-1", "windows-1252"])   # codecs that round-trip every character they encode (shift_jis maps U+00A5 to 0x5C)
    o["_inject"] = bool(dec.below(2))
    if dec.below(5) == 0:
        o["strip_whitespace"] = True
    return o


def shards(tier):
    quick = tier == "quick"
    profs = ["general", "raw", "foreign", "raw", "general", "table", "formatting", "head"]
    return [{"kind": "hyp", "profile": profs[i % len(profs)], "n": 3500 if quick else 50000} for i in range(16)] + [{"kind": "long"}]


# declarations and other meta elements in front of the soup: what the meta-charset filter may and may not touch
HEADS = ["", "", "", "", "", "<meta charset=x>", "<meta http-equiv=content-type content='text/html; charset=x'>", "<meta http-equiv=content-type content=a><meta name=d content=e>",
         "<meta name=d content=e><meta http-equiv=Content-Type content=a>", "<meta http-equiv=content-type><meta content=z>",
         "<head><meta content=q name=r></head><meta http-equiv=content-type content=1><meta content=2>", "<meta charset=a><meta charset=b content=c>",
         "<title>t</title><meta content=3 http-equiv=CONTENT-TYPE><p><meta content=4>", "<meta content=5><meta charset=y><meta content=6 name=n>"]


def run_shard(desc, seed, tier):
    acc = Acc()
    if desc["kind"] == "long":
        k = 0
        for text in soup.long_docs():
            for walker in ("etree", "dom"):
                for o in ({"quote_attr_values": "legacy", "alphabetical_attributes": True}, {"quote_attr_values": "always", "_encoding": "ascii", "_inject": True},
                          {"quote_attr_values": "spec", "strip_whitespace": True}):
                    k += 1
                    case = {"text": text, "container": None, "scripting": False, "walker": "etree" if o.get("strip_whitespace") else walker, "opts": dict(o)}
                    acc.add(case, check_case(case))
        # raw-text family: "</" at the start, in the middle and at the end of ONE text token inside every element the serializer writes
        # raw, as an HTML element (where the lexer keeps "</x" as text) and as its SVG / MathML namesake (where "&lt;/" gives it)
        for root in ("", "<svg>", "<math>", "<svg><desc>"):
            for name in sorted(SER_RAW):
                for body in ("&lt;/%s>&lt;p>", "a&lt;/%s>b", "&lt;/", "&lt;/x", "x&lt;/", "</x", "a</b c", "&lt;/>", "&lt;/%s"):
                    for walker in ("etree", "dom"):
                        for o in ({"quote_attr_values": "legacy"}, {"quote_attr_values": "spec", "escape_rcdata": True}):
                            case = {"text": "%s<%s>%s</%s>z" % (root, name, body.replace("%s", name), name), "container": None, "scripting": name == "noscript" and walker == "dom",
                                    "walker": walker, "opts": dict(o)}
                            acc.add(case, check_case(case))
        return acc

    strat = st.tuples(soup.soup_text(profile=desc["profile"], max_items=30), st.one_of(st.none(), st.none(), st.sampled_from(soup.CONTEXTS)), st.booleans(), st.sampled_from(["etree", "dom"]),
                      st.binary(min_size=13, max_size=13), st.sampled_from(HEADS))

    def fn(x):
        (profile, text), container, scripting, walker, od, head = x
        o = decode_opts(od)
        case = {"text": head + text, "container": container, "scripting": scripting, "walker": "etree" if o.get("strip_whitespace") else walker, "opts": o}
        if od[-1] % 5 == 0:
            case["namespace"] = False
        if od[-2] % 6 == 0:
            case["rerender"] = True
        acc.add(case, check_case(case))
    drive(strat, fn, desc["n"], seed)
    return acc
