"""C20 - XML-name coercion always yields legal names and is reversible."""
import itertools
import re
import warnings
import xml.parsers.expat

from hypothesis import strategies as st

from vf.core import Acc, Verdict, active, drive, short, sig64

ID = "C20"
TECHNIQUE = ("exhaustive enumeration of every BMP code point in first and later position + Hypothesis names/comments/public ids x all "
             "64 flag sets, judged by an independent XML parser (expat) and round-trip/injectivity checks")
RULE = ("(1) every BMP code point c (incl. surrogates and noncharacters) as first character (c+'a') and as later character ('a'+c) through "
        "coerceElement and coerceAttribute; oracle: expat parses <NAME/> / <a NAME=''/> and reports exactly that name; a name expat accepts as is and "
        "that has no colon must come back unchanged; (2) Hypothesis names shaped like tokenizer output (incl. astral, 'U'+hex look-alikes): same, plus "
        "fromXmlName(toXmlName(n)) == n and no two distinct names sharing a result, for names free of the U[0-9A-F]{5} pattern; one filter object is "
        "reused across many names (replacement cache); (3) comments and public ids over full Unicode x all 2^6 flag sets: no '--' when "
        "preventDoubleDashComments, no trailing '-' when preventDashAtCommentEnd (or preventDoubleDashComments), only PubidChar (and no ' when "
        "preventSingleQuotePubid). Non-trivial = the input needs coercion (result differs) or sits at a legal/illegal range edge; distinct = distinct input.")
ASSUMPTIONS = ["expat (XML 1.0 4th-edition names) is 'an XML parser' in the sense of the property",
               "names are non-empty (the tokenizer never emits an empty name)",
               "comment/pubid clauses are read per flag: each guarantee is required when its flag is set"]
SHRINK = {"name": "str", "data": "str"}

_PAT = re.compile(r"U[0-9A-F]{5}")
FLAGS = ["dropXmlnsLocalName", "dropXmlnsAttrNs", "preventDoubleDashComments", "preventDashAtCommentEnd",
         "replaceFormFeedCharacters", "preventSingleQuotePubid"]
PUBID_OK = set(" \r\na-zA-Z0-9-'()+,./:=?;!*#@$_%") | set("abcdefghijklmnopqrstuvwxyzABCDEFGHIJKLMNOPQRSTUVWXYZ0123456789")


def _filter(flags=None):
    from html5lib._ihatexml import InfosetFilter
    return InfosetFilter(**(flags or {}))


def expat_name(name, as_attr=False):
    """Name reported by expat for <NAME/> (or the attribute name of <a NAME=""/>); None if the document is rejected."""
    try:
        doc = ("<a %s=\"\"/>" % name if as_attr else "<%s/>" % name).encode("utf-8")
    except UnicodeEncodeError:
        return None
    p = xml.parsers.expat.ParserCreate("utf-8")
    seen = []
    p.StartElementHandler = lambda n, a: seen.append((n, a))
    p.ordered_attributes = True
    try:
        p.Parse(doc, True)
    except xml.parsers.expat.ExpatError:
        return None
    if len(seen) != 1:
        return None
    n, a = seen[0]
    if as_attr:
        if n != "a" or len(a) != 2:
            return None
        return a[0]
    if a:
        return None
    return n


_TS = []
_TS_N = [0]      # how many names went through tostring() in this process (history for replays)


def _tostring():
    if not _TS:
        import xml.etree.ElementTree as ET
        from html5lib.treebuilders import etree as E
        _TS.append(E.getETreeModule(ET).tostring)
    return _TS[0]


def check_name(f, name, as_attr):
    with warnings.catch_warnings():
        warnings.simplefilter("ignore")
        try:
            out = f.coerceAttribute(name) if as_attr else f.coerceElement(name)
        except Exception as e:
            return Verdict("fail", "coercion raised %r for %s" % (e, short(name)), "exception:" + type(e).__name__)
    legal_in = expat_name(name, as_attr) == name
    nontrivial = out != name
    got = expat_name(out, as_attr)
    if got != out:
        if any(ord(ch) > 0xFFFF for ch in name) and active("C20-astral-name-chars"):
            bmp = "".join(ch for ch in name if ord(ch) <= 0xFFFF) or "a"
            with warnings.catch_warnings():
                warnings.simplefilter("ignore")
                o2 = f.coerceAttribute(bmp) if as_attr else f.coerceElement(bmp)
            if expat_name(o2, as_attr) == o2:
                return Verdict("known", finding="C20-astral-name-chars", nontrivial=True)
        return Verdict("fail", "%s name %s coerced to %s, which expat %s" % ("attribute" if as_attr else "element", short(name), short(out),
                       "rejects" if got is None else "reads as %s" % short(got)), "illegal-result", nontrivial=True)
    if legal_in and ":" not in name and out != name:
        return Verdict("fail", "legal colon-free name %s changed to %s" % (short(name), short(out)), "legal-changed", nontrivial=True)
    if not _PAT.search(name):
        with warnings.catch_warnings():
            warnings.simplefilter("ignore")
            back = f.fromXmlName(out)
        if back != name:
            return Verdict("fail", "fromXmlName(toXmlName(%s)) = %s (via %s)" % (short(name), short(back), short(out)), "not-reversible", nontrivial=True)
        # decoding must not depend on which filter object did the coercing (treebuilders/etree.py's tostring() decodes with a new one)
        with warnings.catch_warnings():
            warnings.simplefilter("ignore")
            back2 = type(f)().fromXmlName(out)
        if back2 != name:
            return Verdict("fail", "a new InfosetFilter decodes %s (from %s) as %s" % (short(out), short(name), short(back2)), "not-reversible-new-object", nontrivial=True)
        # the place where html5lib itself decodes: treebuilders/etree.py tostring() (start tag of an attribute-less element, attribute names)
        ts = _tostring()
        import xml.etree.ElementTree as ET
        try:
            _TS_N[0] += 1
            txt = ts(ET.Element("a", {out: "v"})) if as_attr else ts(ET.Element(out))
        except Exception as e:
            return Verdict("fail", "etree tostring raised %r for the coerced name %s" % (e, short(out)), "tostring-exception:" + type(e).__name__, nontrivial=True)
        want = ('<a %s="v">' % name) if as_attr else ("<%s>" % name)
        if not txt.startswith(want):
            return Verdict("fail", "etree tostring() writes %s for the coerced form of %s" % (short(txt, 60), short(name)), "tostring-not-decoded", nontrivial=True)
    return Verdict("pass", nontrivial=nontrivial, sig=sig64(name, as_attr))


def check_case(case):
    kind = case["kind"]
    if kind == "name":
        f = _filter()
        for pre in case.get("warmup", []):   # names seen earlier by the same filter object
            with warnings.catch_warnings():
                warnings.simplefilter("ignore")
                f.coerceElement(pre)
        for pid in case.get("pubids", []):   # public identifiers / comments coerced earlier by the same filter object
            with warnings.catch_warnings():
                warnings.simplefilter("ignore")
                try:
                    f.coercePubid(pid)
                    f.coerceComment(pid)
                except Exception:
                    pass
        if case.get("tostring_before", 0) > _TS_N[0]:
            # replay of a failure that needs history: that many distinct names had gone through tostring() in the process before
            import xml.etree.ElementTree as ET
            ts = _tostring()
            for i in range(_TS_N[0], case["tostring_before"]):
                ts(ET.Element("n%d" % i))
            _TS_N[0] = case["tostring_before"]
        v = check_name(f, case["name"], case.get("attr", False))
        if v.status == "fail" and v.bucket.startswith("tostring"):
            case.setdefault("tostring_before", _TS_N[0])
        return v
    if kind == "flagname":
        f = _filter({k: bool(v) for k, v in case.get("flags", {}).items()})
        with warnings.catch_warnings():
            warnings.simplefilter("ignore")
            out = f.coerceAttribute(case["name"]) if case.get("attr") else f.coerceElement(case["name"])
        if out != case["name"] and ":" not in case["name"] and expat_name(case["name"], bool(case.get("attr"))) == case["name"]:
            return Verdict("fail", "legal colon-free name %r becomes %r under flags %s" % (case["name"], out, case.get("flags")), "legal-changed-under-flags", nontrivial=True)
        return Verdict("pass", nontrivial=True)
    if kind == "pair":
        f = _filter()
        a, b = case["a"], case["b"]
        with warnings.catch_warnings():
            warnings.simplefilter("ignore")
            ca, cb = f.toXmlName(a), f.toXmlName(b)
        if a != b and ca == cb and not _PAT.search(a) and not _PAT.search(b):
            return Verdict("fail", "distinct names %s and %s both coerce to %s" % (short(a), short(b), short(ca)), "not-injective", nontrivial=True)
        return Verdict("pass", nontrivial=ca != a or cb != b, sig=sig64(a, b))
    flags = {k: bool(v) for k, v in case.get("flags", {}).items()}
    f = _filter(flags)
    data = case["data"]
    with warnings.catch_warnings():
        warnings.simplefilter("ignore")
        try:
            out = f.coerceComment(data) if kind == "comment" else f.coercePubid(data)
        except Exception as e:
            return Verdict("fail", "%s coercion raised %r" % (kind, e), "exception:" + type(e).__name__)
    if kind == "comment":
        nontrivial = "--" in data or data.endswith("-")
        if flags.get("preventDoubleDashComments") and "--" in out:
            return Verdict("fail", "comment %s -> %s still contains '--' (flags %s)" % (short(data), short(out), flags), "comment-double-dash", nontrivial=True)
        if (flags.get("preventDashAtCommentEnd") or flags.get("preventDoubleDashComments")) and out.endswith("-"):
            return Verdict("fail", "comment %s -> %s still ends in '-' (flags %s)" % (short(data), short(out), _on(flags)), "comment-trailing-dash", nontrivial=True)
        if not nontrivial and out != data:
            return Verdict("fail", "comment %s needing no coercion changed to %s" % (short(data), short(out)), "comment-changed", nontrivial=True)
        # nothing but the inserted spaces may differ
        if out.replace(" ", "") != data.replace(" ", ""):
            return Verdict("fail", "comment %s -> %s: more than spaces changed" % (short(data), short(out)), "comment-altered", nontrivial=True)
        return Verdict("pass", nontrivial=nontrivial, sig=sig64("c", data, sorted(_on(flags))))
    else:
        bad = [ch for ch in out if ch not in PUBID_OK]
        nontrivial = any(ch not in PUBID_OK for ch in data) or "'" in data
        if bad:
            return Verdict("fail", "public id %s -> %s contains non-PubidChar %s" % (short(data), short(out), short(bad)), "pubid-illegal", nontrivial=True)
        if flags.get("preventSingleQuotePubid") and "'" in out:
            return Verdict("fail", "public id %s -> %s keeps a single quote" % (short(data), short(out)), "pubid-quote", nontrivial=True)
        if not nontrivial and out != data:
            return Verdict("fail", "legal public id %s changed to %s" % (short(data), short(out)), "pubid-changed", nontrivial=True)
        return Verdict("pass", nontrivial=nontrivial, sig=sig64("p", data, sorted(_on(flags))))


def _on(flags):
    return [k for k, v in flags.items() if v]


# ---------------------------------------------------------------------------
_name_alpha = st.sampled_from(list("abUu0123AF:-._") + ["\u00e9", "\u00b7", "\u0300", "\u0132", "\u0131", "\u0133", "\u3007", "\u3021", "\u3030", "\u30fe", "\u30ff",
                                                        "\ud800", "\ufffe", "\x01", "\x7f", "<", "\"", "'", "=", "{", "}", "@", "`", "[", "^", "~", "\U0001F600",
                                                        "\U00020000", "\U0010FFFF", "U0003A", "U0003", "U000", "UD800",
                                                        # digits that are not ASCII digits (legal XML name characters): 'U' + five of them is no escape
                                                        "U\u0660\u0660\u0660\u0664\u0661", "\u0660", "\u0661", "\u06f4", "\u0966", "U\u0660\u0660", "\u0e50\u0e51\u0e52"])
_names = st.one_of(st.lists(_name_alpha, min_size=1, max_size=8).map("".join),
                   st.text(min_size=1, max_size=6).filter(lambda s: not (set(s) & set(" \t\n\f\r/>\x00"))))
_texts = st.one_of(st.lists(st.sampled_from(["-", "--", "---", "a", " ", "- ", "\f", ">", "!", "\u00e9", "'", "\"", "\U0001F600", "\x00", "&", "U0002D"]), max_size=10).map("".join),
                   st.text(max_size=12))
_flagsets = st.fixed_dictionaries({k: st.booleans() for k in FLAGS})


def shards(tier):
    quick = tier == "quick"
    out = [{"kind": "bmp", "part": i, "of": 8} for i in range(8)]
    out += [{"kind": "hyp-names", "n": 6000 if quick else 150000} for _ in range(4)]
    out += [{"kind": "hyp-text", "n": 5000 if quick else 120000} for _ in range(3)]
    out += [{"kind": "flags-enum"}]
    out += [{"kind": "pubid-sweep", "part": i, "of": 2} for i in range(2)]
    return out


def run_shard(desc, seed, tier):
    acc = Acc()
    kind = desc["kind"]
    if kind == "bmp":
        f = _filter()   # one object for the whole sweep: exercises the replacement cache
        edges = 0
        prev = None
        for cp in range(desc["part"], 0x10000, desc["of"]):
            c = chr(cp)
            for name in (c + "a", "a" + c):
                for as_attr in (False, True):
                    if cp == 0 or c in " \t\n\f\r/>" or (as_attr and c == "=" and name[0] != "="):
                        # not producible by the tokenizer in that position; still must not yield an illegal name
                        pass
                    v = check_name(f, name, as_attr)
                    case = {"kind": "name", "name": name, "attr": as_attr}
                    if v.status == "fail" and v.bucket.startswith("tostring"):
                        case["tostring_before"] = _TS_N[0]
                    acc.add(case, v)
        acc.exhaustive = True
        acc.extra["bmp_codepoints"] = len(range(desc["part"], 0x10000, desc["of"]))
    elif kind == "pubid-sweep":
        # every BMP character inside a public identifier, under every flag set for a sample: the result must consist of PubidChars only
        import re as _re
        ok = _re.compile(r"[\x20\x0d\x0aa-zA-Z0-9\-'()+,./:=?;!*#@$_%]*\Z")
        fsets = [{}] + [dict(zip(FLAGS, [(m >> i) & 1 == 1 for i in range(len(FLAGS))])) for m in (0, 63, 21, 42)]
        for fi, flags in enumerate(fsets):
            f = _filter({k: bool(v) for k, v in flags.items()})
            for cp in range(desc["part"], 0x10000, desc["of"]):
                if 0xD800 <= cp <= 0xDFFF:
                    continue
                data = "-//a" + chr(cp) + "b//EN"
                with warnings.catch_warnings():
                    warnings.simplefilter("ignore")
                    out = f.coercePubid(data)
                case = {"kind": "pubid", "data": data, "flags": flags}
                if not ok.match(out):
                    acc.add(case, Verdict("fail", "public id %s -> %s contains a non-PubidChar" % (short(data), short(out)), "pubid-illegal", nontrivial=True))
                elif fi == 0 and cp % 64 == 0:
                    acc.add(case, Verdict("pass", nontrivial=out != data, sig=sig64("pub", cp)))
        # names that are legal and colon-free stay what they are under EVERY flag set
        for m in range(64):
            flags = dict(zip(FLAGS, [(m >> i) & 1 == 1 for i in range(len(FLAGS))]))
            f = _filter(flags)
            for name in ("xmlns", "xml", "xmlnsfoo", "a", "lang", "_x", "id", "x-y.z"):
                for as_attr in (True, False):
                    with warnings.catch_warnings():
                        warnings.simplefilter("ignore")
                        out = f.coerceAttribute(name) if as_attr else f.coerceElement(name)
                    case = {"kind": "flagname", "name": name, "attr": as_attr, "flags": flags}
                    if out != name:
                        acc.add(case, Verdict("fail", "legal colon-free %s name %r becomes %r under flags %s" % ("attribute" if as_attr else "element", name, out, flags), "legal-changed-under-flags", nontrivial=True))
                    else:
                        acc.add(case, Verdict("pass", nontrivial=True, sig=sig64("flagname", name, as_attr, m)))
    elif kind == "hyp-names":
        f = _filter()
        seen = {}

        def fn(name):
            as_attr = len(name) % 2 == 0
            # the same filter object also coerces public identifiers and comments between names (that is how a tree builder uses it):
            # here the name's own first character and the name itself, as a public identifier
            pubids = [name[:1], name]
            with warnings.catch_warnings():
                warnings.simplefilter("ignore")
                for pid in pubids:
                    try:
                        f.coercePubid(pid)
                        f.coerceComment(pid)
                    except Exception:
                        pass
            v = check_name(f, name, as_attr)
            case = {"kind": "name", "name": name, "attr": as_attr, "pubids": pubids}
            if v.status == "fail" and v.bucket.startswith("tostring"):
                case["tostring_before"] = _TS_N[0]
            acc.add(case, v)
            if not _PAT.search(name):
                with warnings.catch_warnings():
                    warnings.simplefilter("ignore")
                    try:
                        out = f.toXmlName(name)
                    except Exception:
                        return
                other = seen.setdefault(out, name)
                if other != name:
                    c2 = {"kind": "pair", "a": other, "b": name}
                    acc.add(c2, check_case(c2))
        drive(_names, fn, desc["n"], seed)
    elif kind == "hyp-text":
        def fn(x):
            data, flags, which = x
            case = {"kind": which, "data": data, "flags": flags}
            acc.add(case, check_case(case))
        drive(st.tuples(_texts, _flagsets, st.sampled_from(["comment", "pubid"])), fn, desc["n"], seed)
    else:
        datas = ["", "-", "--", "---", "a-", "a--b", "-a-", "----", "a - b", "a'b", "a\"b", "\u00e9", "\f", "-//W3C//DTD HTML 4.01//EN", "a\x00b", "{}"]
        for bits in itertools.product([False, True], repeat=len(FLAGS)):
            flags = dict(zip(FLAGS, bits))
            for d in datas:
                for which in ("comment", "pubid"):
                    case = {"kind": which, "data": d, "flags": flags}
                    acc.add(case, check_case(case))
        acc.exhaustive = True
    return acc


def finish(cov, total, tier):
    cov["exhaustive"] = False
    cov["exhaustive_subdomains"] = "all 65536 BMP code points in first and later position, as element and attribute name; all 64 flag sets on 16 fixed comments/public ids"
