"""C02 - tokenizer output equals the WHATWG tokenization of every input."""
import itertools

from hypothesis import strategies as st

from vf import h5
from vf.core import Acc, Verdict, active, drive, sig64, short
from vf.gen import soup
from vf.ref.tokenizer import RefTokenizer, STATE_NAMES, normalize_newlines

ID = "C02"
TECHNIQUE = ("differential testing against an independently written reference WHATWG tokenizer: bounded-exhaustive "
             "enumeration over a character-class alphabet (+ state-reaching prefixes x all short suffixes) and "
             "Hypothesis-generated markup soup / random Unicode")
RULE = ("(1) every string of <= L symbols over a 46-symbol alphabet (one representative per character class the state "
        "machine distinguishes + keyword macros such as DOCTYPE, PUBLIC, [CDATA[, script, amp;) from each of the 5 "
        "start states x last-start-tag x CDATA-allowed; (2) for every reference-tokenizer state a prefix that reaches "
        "it x every suffix of <= K symbols; (3) Hypothesis soup and random Unicode text under random configurations. "
        "Oracle: token list of the reference tokenizer on the newline-normalised input == html5lib's (character "
        "tokens concatenated, parse errors dropped). Non-trivial = the reference output is not just one character "
        "token; distinct = distinct sets of (reference state, character class) transitions executed (per-shard sets "
        "are capped at 40000 entries, so the count is a lower bound).")
ASSUMPTIONS = ["vf/ref/tokenizer.py is a faithful transcription of the June-2020 WHATWG tokenizer (self-test of 364 hand-derived cases; SPEC_NOTES.md)",
               "CDATA-allowed is supplied to html5lib through a stub parser.tree whose current node is foreign (the way the tokenizer itself consults it)",
               "last-start-tag names are ASCII-lowercase (the tokenizer can only have emitted such names)"]
SHRINK = {"text": "str"}

SINGLES = ["\t", "\n", "\f", " ", "\r", "!", '"', "#", "&", "'", "-", "/", "0", "9", ";", "<", "=", ">", "?", "A", "F", "G",
           "a", "f", "g", "x", "X", "[", "]", "`", "\x00", "\xe9", "\U0001F600", "\ud800"]
MACROS = ["DOCTYPE", "doctype", "PUBLIC", "SYSTEM", "[CDATA[", "--", "script", "amp;", "amp", "not", "notin;", "#x"]
ALPHA = SINGLES + MACROS

# (start state, last start tag, cdata allowed)
CONFIGS = [("data", None, False), ("data", None, True), ("rcdata", "a", False), ("rcdata", "xa", False), ("rcdata", None, False),
           ("rawtext", "a", False), ("rawtext", "script", True), ("script_data", "script", False), ("script_data", "a", False),
           ("script_data", None, True), ("plaintext", None, False), ("data", "a", False), ("data", None, "nons")]

# state-reaching prefixes: (prefix, start state, last start tag, cdata)
D = ("data", None, False)
PREFIXES = [(p,) + D for p in [
    "", "<", "</", "<a", "<a ", "<a b", "<a b ", "<a b=", '<a b="', "<a b='", "<a b=c", '<a b="c"', "<a/", "<a b/", "<?", "<!",
    "<!--", "<!---", "<!--a", "<!--a<", "<!--a<!", "<!--a<!-", "<!--a<!--", "<!--a-", "<!--a--", "<!--a--!",
    "<!DOCTYPE", "<!DOCTYPE ", "<!DOCTYPE h", "<!DOCTYPE h ", "<!DOCTYPE h PUBLIC", "<!DOCTYPE h PUBLIC ",
    '<!DOCTYPE h PUBLIC "', "<!DOCTYPE h PUBLIC '", '<!DOCTYPE h PUBLIC "x"', '<!DOCTYPE h PUBLIC "x" ',
    "<!DOCTYPE h SYSTEM", "<!DOCTYPE h SYSTEM ", '<!DOCTYPE h SYSTEM "', "<!DOCTYPE h SYSTEM '", '<!DOCTYPE h SYSTEM "x"',
    '<!DOCTYPE h PUBLIC "x" "', "<!DOCTYPE h x", "<!DOCTYPE h P", "<!DOCTYPE h PUBLI", "<!DOCTYPE h SYSTE",
    "&", "&a", "&am", "&amp", "&zz", "&#", "&#x", "&#X", "&#x1", "&#1", "&#x11000", "&#99999999", "&no", "&not", "&noti",
    '<a b="&', '<a b="&a', '<a b="&amp', '<a b="&#', '<a b="&#x', '<a b="&#x1', '<a b="&#1', '<a b="&not', "<a b='&amp",
    "<a b=&", "<a b=&amp", "<a b=&#1", "<a b=&not", "<a b=c&amp", "<a b c", "<a b c=", "<a b=c d", '<a b="c" d', "<A", "</a", "</a ",
    "</a b", "</a b=", "</a/", "<a b=c a", "<a b=c b", "<a b=c b=", "<!d", "<!-", "<![", "<![CDATA", "<![CDATA[", "<a><![CDATA[",
]] + [(p, "data", None, True) for p in ["<![CDATA[", "<![CDATA[]", "<![CDATA[]]", "<![CDATA[a", "<![CDATA[a]", "<![CDATA[a]]", "<![CDATA[]]]", "<!["]] \
  + [(p, "rcdata", "a", False) for p in ["", "<", "</", "</a", "</a ", "</A", "</x", "</af", "&", "&am", "&#x", "a</a", "</a/", "</a b="]] \
  + [(p, "rcdata", "script", False) for p in ["</script", "</scrip", "</scriptx", "</SCRIPT"]] \
  + [(p, "rawtext", "a", False) for p in ["", "<", "</", "</a", "</A", "</x", "</a ", "&", "<!--"]] \
  + [(p, "script_data", "script", False) for p in [
      "", "<", "</", "</s", "</script", "</SCRIPT", "<!", "<!-", "<!--", "<!--a", "<!--a-", "<!--a--", "<!--a<", "<!--a</", "<!--a</s",
      "<!--a</script", "<!--<", "<!--<s", "<!--<script", "<!--<script ", "<!--<script>", "<!--<script -", "<!--<script --",
      "<!--<script <", "<!--<script </", "<!--<script </s", "<!--<script </script", "<!--<script </script>", "<!--<SCRIPT ",
      "<!--<scriptx", "<!---", "<!----", "<!-->", "<!--<script>-->", "<!--<script></script>-->"]] \
  + [(p, "script_data", "a", False) for p in ["</a", "<!--</a", "<!--<a ", "<!--<script </a"]] \
  + [(p, "plaintext", None, False) for p in ["", "<", "</", "&"]]


def _concat(tokens):
    """Concatenate character tokens.  A DOCTYPE token's *name* "missing" and "" are not
    distinguished: a tokenized name can never be the empty string, so the two spellings carry
    the same information (html5lib initialises the name to ""); public/system identifiers keep
    the missing/empty distinction."""
    out = []
    for t in tokens:
        if t[0] == "doctype" and t[1] is None:
            t = ("doctype", "", t[2], t[3], t[4])
        if t[0] == "chars":
            if not t[1]:
                continue
            if out and out[-1][0] == "chars":
                out[-1] = ("chars", out[-1][1] + t[1])
                continue
        out.append(t)
    return out


class _CompatTok(RefTokenizer):
    """Reference with html5lib's recorded deviations switched on (used only to classify known findings)."""
    compat = frozenset()

    def s_cdata_section(self):
        if "cdata-nul" in self.compat:
            c = self._consume()
            if c == "\x00":
                self._emit_char("�")
                return
            self._reconsume_in("cdata_section")
        RefTokenizer.s_cdata_section(self)


def ref_tokens(text, state, last, cdata, compat=frozenset(), transitions=None):
    cls = RefTokenizer
    if compat:
        cls = _CompatTok
    t = cls(normalize_newlines(text), initial_state=state, last_start_tag=last,
            cdata_allowed=(lambda: True) if cdata else None, record_transitions=transitions is not None)
    if compat:
        t.compat = compat
    toks = _concat(list(t))
    if transitions is not None:
        transitions.append(t.transitions)
    return toks


BEFORE = ["<!DOCTYPE html><p>a<>b", "<!DOCTYPE html>a&zz;b", "<!DOCTYPE html><p>\x00x", "<!DOCTYPE html><p></p x=y>q", "<!DOCTYPE html><a b=>c", "<!DOCTYPE html><!-->d", "<svg><text>x\x00y</text></svg>", "<math>\x00", "<svg>\x00</svg><p>\x00", "<title>a</title x=y>", "<textarea>\x00</textarea a=b>", "<svg><![CDATA[\x00]]>", "<p a=1 a=2>",
          "<table>\x00<tr>\x00", "<select>\x00", "<!DOCTYPE html PUBLIC \"\" \"\">", "<script>\x00</script>", "<plaintext>\x00", "<frameset>\x00", "<svg><desc>\x00<p>\x00"]


class _ShortReads(object):
    def __init__(self, text, reads):
        self.text, self.reads, self.pos, self.k = text, reads, 0, 0

    def read(self, n=-1):
        if n == 0:
            return ""
        if n is None or n < 0:
            n = len(self.text)
        m = max(1, min(n, self.reads[self.k % len(self.reads)]))
        self.k += 1
        out = self.text[self.pos:self.pos + m]
        self.pos += len(out)
        return out


def _entity_atoms():
    """every name of the standard's table and every ';'-less stem that is not itself in the table (those must stay literal)"""
    from html.entities import html5
    names = sorted(html5)
    stems = sorted(set(n[:-1] for n in names if n.endswith(";")) - set(names))
    return names + stems


def check_case(case, want_transitions=None):
    text, state, last, cdata = case["text"], case["state"], case.get("last"), case.get("cdata")
    h5_cdata = "nons" if cdata == "nons" else bool(cdata)      # "nons": CDATA sections not allowed, HTML elements carry no namespace
    cdata = cdata is True or cdata == 1
    tr = [] if want_transitions is not None else None
    want = ref_tokens(text, state, last, cdata, transitions=tr)
    if tr:
        want_transitions.append(tr[0])
    nontrivial = not (len(want) <= 2 and (len(want) == 1 or want[0][0] == "chars"))
    try:
        src = text
        if case.get("before") is not None:
            # tokens are plain dicts that their consumer may modify: whatever a tree builder did to the tokens of an EARLIER document
            # (html5lib.parse in this process) must not show in what the tokenizer emits for this one
            try:
                import html5lib
                html5lib.parse(case["before"])
                html5lib.parseFragment(case["before"], container="svg")
            except Exception:
                pass
            try:
                # ... nor must whatever an ABANDONED run left behind (a strict parser stops at the first error token, with the
                # tokens queued behind it unread)
                html5lib.HTMLParser(strict=True).parse(case["before"])
            except Exception:
                pass
        if case.get("skip"):
            # an io.StringIO the caller has already read a preamble from: the input is what is still unread
            import io
            src = io.StringIO(case["skip"] + text)
            src.read(len(case["skip"]))
        elif case.get("reads"):
            # the same characters through a text stream that returns short reads (the tokenizer must not care how its input arrives)
            src = _ShortReads(text, case["reads"])
        got = h5.tokenize(src, state, last, h5_cdata)
    except Exception as e:
        return Verdict("fail", "html5lib tokenizer raised %r on %s" % (e, short(text)), "exception:" + type(e).__name__,
                       nontrivial=nontrivial)
    got = _concat(got)
    if got == want and case.get("reads") and not case.get("skip"):
        # how the characters arrive must not show in the tokens at all - not even in where one character token ends and the next
        # begins (a tree builder that makes one text node per token, and the whitespace filter behind it, see that granularity)
        try:
            one_shot = h5.tokenize_raw(text, state, last, h5_cdata)
            in_reads = h5.tokenize_raw(_ShortReads(text, case["reads"]), state, last, h5_cdata)
        except Exception as e:
            return Verdict("fail", "html5lib tokenizer raised %r on %s (short reads %s)" % (e, short(text), case["reads"]), "exception:" + type(e).__name__, nontrivial=nontrivial)
        if one_shot != in_reads:
            k = next((i for i, (a, b) in enumerate(zip(one_shot, in_reads)) if a != b), min(len(one_shot), len(in_reads)))
            return Verdict("fail", "input %s state=%s: token boundaries depend on how the text arrives: read in one piece token %d is %s, with reads of %s characters %s"
                           % (short(text, 120), state, k, short(one_shot[k:k + 2], 120), case["reads"], short(in_reads[k:k + 2], 120)), "granularity:" + state, nontrivial=True)
    if got == want:
        return Verdict("pass", nontrivial=nontrivial)
    # known deviations (only while listed as 'known')
    if cdata and "\x00" in text and active("C02-cdata-nul"):
        if got == ref_tokens(text, state, last, cdata, compat=frozenset(["cdata-nul"])):
            return Verdict("known", finding="C02-cdata-nul", nontrivial=nontrivial)
    i = 0
    while i < min(len(want), len(got)) and want[i] == got[i]:
        i += 1
    w = want[i] if i < len(want) else None
    g = got[i] if i < len(got) else None
    bucket = "diff:%s/%s:%s" % (w[0] if w else "-", g[0] if g else "-", state)
    return Verdict("fail", "input %s state=%s last=%r cdata=%r: token %d: standard %s, html5lib %s"
                   % (short(text, 120), state, last, cdata, i, short(w, 200), short(g, 200)), bucket, nontrivial=nontrivial)


# ---------------------------------------------------------------------------

def shards(tier):
    out = []
    quick = tier == "quick"
    # (1) bounded-exhaustive; work split by first symbol groups
    groups = [ALPHA[i::8] for i in range(8)]
    for cfg in CONFIGS:
        out.append({"kind": "enum", "len": 3 if quick else 4, "firsts": None, "cfg": cfg})
    for g in groups:
        out.append({"kind": "enum", "len": 4, "firsts": g, "cfg": CONFIGS[0], "exact": True})
    if not quick:
        for g in [ALPHA[i::46] for i in range(46)]:
            out.append({"kind": "enum", "len": 5, "firsts": g, "cfg": CONFIGS[0], "exact": True})
    # (2) prefixes x suffixes
    k = 2 if quick else 3
    for i in range(8):
        out.append({"kind": "prefix", "k": k, "part": i, "of": 8})
    # (2b) raw-text grammars: longer sequences over the few tokens that drive the RCDATA / RAWTEXT / script-data sub-machines
    # (state carried in the temporary buffer and the escape flags shows up only after several constructs in a row)
    for i in range(4):
        out.append({"kind": "rawgrammar", "n": 8000 if quick else 300000})
    # (2c) the script-data sub-machine (escaped / double-escaped states) exhaustively over its own nine tokens
    for i in range(3):
        out.append({"kind": "scriptenum", "part": i, "of": 3, "len": 6 if quick else 7})
    for i in range(2):
        out.append({"kind": "entenum", "part": i, "of": 2})
    # (3) hypothesis
    for i in range(8):
        out.append({"kind": "hyp", "n": 4000 if quick else 150000})
    if not quick:
        for i in range(4):
            out.append({"kind": "fuzz", "seconds": 240})
    return out


def _cfg_strategy():
    return st.sampled_from(CONFIGS + [("rcdata", "title", False), ("rcdata", "textarea", False), ("rawtext", "style", False),
                                      ("rawtext", "xmp", True), ("script_data", "script", True)])


def run_shard(desc, seed, tier):
    acc = Acc()
    trans = set()
    cap = 40000

    def one(case):
        tr = []
        v = check_case(case, tr)
        if v.nontrivial and tr:
            if len(acc.sigs) < cap:
                v.sig = hash(frozenset(tr[0]))
            else:
                v.nontrivial = False
        if tr:
            trans.update(tr[0])
        acc.add(case, v)

    kind = desc["kind"]
    if kind == "fuzz":
        from vf.core import fuzz_shard
        return fuzz_shard("c02", desc["seconds"], seed)
    if kind == "enum":
        state, last, cdata = desc["cfg"]
        L = desc["len"]
        firsts = desc["firsts"]
        lens = [L] if desc.get("exact") else range(0, L + 1)
        n = 0
        for ln in lens:
            if firsts is None or ln == 0:
                it = itertools.product(ALPHA, repeat=ln)
            else:
                it = ((f,) + rest for f in firsts for rest in itertools.product(ALPHA, repeat=ln - 1))
            for tup in it:
                one({"text": "".join(tup), "state": state, "last": last, "cdata": cdata})
                n += 1
        acc.extra["enumerated"] = n
        acc.exhaustive = True
    elif kind == "entenum":
        # EVERY name of the standard's table and every ';'-less stem that is not in it (those must stay literal), in text, in an
        # attribute value and in RCDATA: complete, so that detection does not hang on which names a sampler happens to draw
        n = 0
        for k, name in enumerate(_entity_atoms()):
            if k % desc["of"] != desc["part"]:
                continue
            for text, state, last in (("&%s z" % name, "data", None), ("<a b=\"&%s \" c=&%s>" % (name, name), "data", None), ("x&%s<" % name, "rcdata", "title")):
                one({"text": text, "state": state, "last": last, "cdata": False})
                n += 1
        acc.extra["entity_cases"] = n
    elif kind == "scriptenum":
        SA = ["<!--", "-->", "<script", "</script>", " ", ">", "-", "x", "<"]
        n = 0
        for ln in range(1, desc["len"] + 1):
            for k, tup in enumerate(itertools.product(SA, repeat=ln)):
                if k % desc["of"] != desc["part"]:
                    continue
                one({"text": "".join(tup), "state": "script_data", "last": "script", "cdata": False})
                n += 1
        acc.extra["script_sequences"] = acc.extra.get("script_sequences", 0) + n
    elif kind == "rawgrammar":
        AL = ["<!--", "-->", "<script", "</script", "<script>", "</script>", ">", " ", "<", "</", "a", "</b>", "-", "x", "<s", "/", "</title>", "</style>", "<!-", "--", "<b", "</a>", "</a ", "&amp;", "\x00", "<a>", "</xmp>"]
        strat = st.tuples(st.lists(st.sampled_from(AL), min_size=3, max_size=12).map("".join),
                          st.sampled_from([("script_data", "script", False), ("script_data", "script", False), ("rcdata", "title", False), ("rawtext", "style", False), ("data", None, False),
                                           ("script_data", "a", False), ("rcdata", "a", False), ("rawtext", "xmp", False)]),
                          st.sampled_from(["", "", "<title>t</title><script>", "<script></b>", "<style></style><script>", "<textarea></x></textarea><script>"]))

        def fn(x):
            text, (state, last, cdata), pre = x
            if pre and state == "data":
                text = pre + text
            one({"text": text, "state": state, "last": last, "cdata": cdata})
        drive(strat, fn, desc["n"], seed)
    elif kind == "prefix":
        mine = PREFIXES[desc["part"]::desc["of"]]
        sufs = [""]
        for ln in range(1, desc["k"] + 1):
            sufs.extend("".join(t) for t in itertools.product(ALPHA, repeat=ln))
        n = 0
        for p, state, last, cdata in mine:
            for s in sufs:
                one({"text": p + s, "state": state, "last": last, "cdata": cdata})
                n += 1
        acc.extra["prefix_suffix_cases"] = n
    else:
        ents = _entity_atoms()
        ent_text = st.lists(st.one_of(st.tuples(st.sampled_from(ents), st.sampled_from(["", ";", "=", "a", "1", " ", "<", "&", "\"", "x;"])).map(lambda t: "&" + t[0] + t[1]),
                                      st.sampled_from(["<a b=", "<a b='", "'>", ">", "x", " ", "<p title=\""])), min_size=1, max_size=6).map("".join)
        strat = st.tuples(st.one_of(soup.soup_text(max_items=25).map(lambda t: t[1]), st.text(max_size=30),
                                    st.lists(st.sampled_from(ALPHA), max_size=12).map("".join), ent_text),
                          _cfg_strategy(), st.one_of(st.none(), st.none(), st.lists(st.integers(1, 7), min_size=1, max_size=6)),
                          st.one_of(st.none(), st.none(), st.none(), st.sampled_from(BEFORE), soup.soup_text(max_items=10).map(lambda t: t[1])),
                          st.one_of(st.none(), st.none(), st.none(), st.sampled_from(["<!--skipped-->\n", "x", "<?xml version='1.0'?>\n", "\ufeff", "<p>", "&am"])))

        def fn(x):
            text, (state, last, cdata), reads, before, skip = x
            case = {"text": text, "state": state, "last": last, "cdata": cdata}
            if before is not None:
                case["before"] = before
            if skip:
                case["skip"] = skip
            if reads:
                case["reads"] = reads
            one(case)
        drive(strat, fn, desc["n"], seed)
        acc.extra["hypothesis_examples"] = acc.evaluations
    acc.extra["ref_transitions"] = trans
    return acc


def finish(cov, total, tier):
    tr = cov.pop("ref_transitions", [])
    states = sorted({s for s, _ in tr})
    cov["ref_transition_pairs_covered"] = len(tr)
    cov["ref_states_covered"] = "%d of %d" % (len(states), len(STATE_NAMES))
    cov["ref_states_not_covered"] = [s for s in STATE_NAMES if s not in states]
    cov["exhaustive"] = False  # the enumerated sub-domains are complete, the property's domain is not finite
    cov["exhaustive_subdomains"] = "all strings of <= 3 (quick) / 4 (thorough) alphabet symbols in each of %d configurations; length 4 (quick) / 5 (thorough) in the data state" % len(CONFIGS)
