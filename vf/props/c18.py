"""C18 - alphabetical-attributes filter only reorders, deterministically."""
import copy
import itertools

from hypothesis import strategies as st

from vf.core import Acc, Verdict, drive, sig64, short

ID = "C18"
TECHNIQUE = "property-based testing (Hypothesis token streams + exhaustive permutations) against a sorted-permutation oracle and a permutation-invariance metamorphic relation"
RULE = ("Hypothesis-generated walker-format token streams whose Start/Empty tags carry attribute dicts over "
        "(namespace|None, local) keys with deliberate local-name collisions across namespaces, in arbitrary insertion "
        "order; plus exhaustive enumeration of all insertion orders of fixed key sets of size <= 6; plus a serializer-level clause: trees parsed from generated tags with 0-5 "
        "un-namespaced attributes (meta declarations included) are rendered by HTMLSerializer(alphabetical_attributes=True) x {quoting, omission, minimisation, solidus, strip_whitespace, "
        "inject_meta_charset, sanitize} x output encoding, the reference lexer reads the output and every start tag's attribute names must be in code-point order. "
        "Oracle: output items == input items sorted by (ns or '', local), same multiset, other tokens untouched, "
        "F(perm(x)) == F(x). Non-trivial = some tag has >= 2 attributes and either its incoming order differs from "
        "the sorted order or two keys share a local name; distinct = distinct (key lists in incoming order) signature.")
ASSUMPTIONS = ["attribute namespaces are None or strings; no two attributes of one tag have the same sort key ((None, x) and ('', x) together are not generated: they tie)",
               "attrs arrive as a dict keyed by (namespace, local) tuples (treewalkers.base contract)"]
SHRINK = {"tokens": "list"}

NS = [None, "http://www.w3.org/1999/xlink", "http://www.w3.org/XML/1998/namespace",
      "http://www.w3.org/2000/xmlns/", "http://www.w3.org/2000/svg", "a", "b", "B", "~", "é", "href"]
LOCALS = ["a", "b", "href", "lang", "A", "aa", "ab", "xlink:href", "xlink", "z", "é", "0", "_", "title", "class", "id"]


def _filter(tokens):
    from html5lib.filters.alphabeticalattributes import Filter
    return list(Filter(tokens))


def _key(k):
    return (k[0] or "", k[1])


def build(tokens_case):
    """case tokens (json friendly) -> walker-format tokens"""
    out = []
    for t in tokens_case:
        t = dict(t)
        if "attrs" in t:
            d = {}
            for ns, local, val in t.pop("attrs"):
                d[(ns, local)] = val
            t["data"] = d
        out.append(t)
    return out


def check_case(case):
    if case.get("kind") == "foreign-order":
        return check_foreign_order(case)
    if case.get("kind") == "serializer":
        return check_serializer_case(case)
    toks = build(case["tokens"])
    before = copy.deepcopy(toks)
    try:
        out = _filter(toks)
    except Exception as e:  # the filter has no documented failure mode on this domain
        return Verdict("fail", "filter raised %r" % (e,), "exception:" + type(e).__name__)
    nontrivial = False
    keysig = []
    if len(out) != len(before):
        return Verdict("fail", "token count %d -> %d" % (len(before), len(out)), "count")
    for i, (b, o) in enumerate(zip(before, out)):
        if b["type"] in ("StartTag", "EmptyTag"):
            items = list(b["data"].items())
            want = sorted(items, key=lambda kv: _key(kv[0]))
            got = list(o["data"].items())
            keysig.append(tuple(k for k, _ in items))
            if len(items) >= 2 and (items != want or len({k[1] for k, _ in items}) < len(items)):
                nontrivial = True
            if got != want:
                if sorted(got, key=repr) != sorted(want, key=repr):
                    return Verdict("fail", "token %d attributes changed: in=%s out=%s" % (i, short(items), short(got)),
                                   "attrs-altered", nontrivial=nontrivial)
                return Verdict("fail", "token %d order: want=%s got=%s" % (i, short(want), short(got)),
                               "order", nontrivial=nontrivial)
            rest_b = {k: v for k, v in b.items() if k != "data"}
            rest_o = {k: v for k, v in o.items() if k != "data"}
            if rest_b != rest_o:
                return Verdict("fail", "token %d other fields changed: %s -> %s" % (i, short(rest_b), short(rest_o)),
                               "tag-fields")
        else:
            if o != b:
                return Verdict("fail", "non-tag token %d changed: %s -> %s" % (i, short(b), short(o)), "other-token")
            if o is not toks[i]:
                return Verdict("fail", "non-tag token %d is not passed through as the same object" % i, "other-token-identity")
    # permutation invariance: reverse and rotate insertion orders
    for variant in ("reverse", "rotate"):
        toks2 = copy.deepcopy(before)
        for t in toks2:
            if t["type"] in ("StartTag", "EmptyTag"):
                items = list(t["data"].items())
                items = items[::-1] if variant == "reverse" else items[1:] + items[:1]
                t["data"] = dict(items)
        out2 = _filter(toks2)
        a = [list(t["data"].items()) if "data" in t and isinstance(t["data"], dict) else t for t in out]
        b2 = [list(t["data"].items()) if "data" in t and isinstance(t["data"], dict) else t for t in out2]
        if a != b2:
            return Verdict("fail", "result depends on incoming order (%s)" % variant, "perm-invariance", nontrivial=nontrivial)
    return Verdict("pass", nontrivial=nontrivial, sig=sig64(tuple(keysig)))


# ---------------------------------------------------------------------------
# the empty string is a string namespace too (Lint would reject it, the filter accepts it); it sorts like None, so uniqueness is by the *sort key*:
# two attributes that tie would make the order-independence clause undecidable
_ns = st.sampled_from(NS) | st.sampled_from(NS + [""]) | st.text(min_size=0, max_size=4)
_local = st.sampled_from(LOCALS) | st.text(min_size=1, max_size=4)
_val = st.text(max_size=5)
_attrs = st.lists(st.tuples(_ns, _local, _val), max_size=8, unique_by=lambda t: (t[0] or "", t[1]))
_name = st.sampled_from(["a", "div", "svg", "br", "x"])
_tagns = st.sampled_from([None, "http://www.w3.org/1999/xhtml", "http://www.w3.org/2000/svg"])
_token = st.one_of(
    st.fixed_dictionaries({"type": st.sampled_from(["StartTag", "EmptyTag"]), "name": _name, "namespace": _tagns,
                           "attrs": _attrs}),
    st.fixed_dictionaries({"type": st.just("StartTag"), "name": _name, "namespace": _tagns, "attrs": _attrs}),
    st.fixed_dictionaries({"type": st.just("EndTag"), "name": _name, "namespace": _tagns}),
    st.fixed_dictionaries({"type": st.sampled_from(["Characters", "SpaceCharacters", "Comment"]), "data": st.text(max_size=5)}),
    st.fixed_dictionaries({"type": st.just("Doctype"), "name": st.just("html"), "publicId": st.none() | st.text(max_size=3),
                           "systemId": st.none()}),
    st.fixed_dictionaries({"type": st.just("Entity"), "name": st.just("amp")}),
)
_stream = st.lists(_token, min_size=1, max_size=8)


def shards(tier):
    n = 16
    return [{"kind": "hyp", "n": 1500 if tier == "quick" else 40000} for _ in range(n - 4)] + \
           [{"kind": "perm", "k": 5 if tier == "quick" else 6, "part": p} for p in range(2)] + \
           [{"kind": "serializer", "n": 1500 if tier == "quick" else 30000} for _ in range(2)] + [{"kind": "long"}]


# --- serializer level: HTMLSerializer(alphabetical_attributes=True) in combination with the other filters it installs -----------------
S_TAGS = ["p", "div", "span", "a", "img", "input", "meta", "td", "b", "link", "body", "html"]
S_ATTRS = ["id", "class", "title", "style", "href", "lang", "width", "xml:lang", "content", "http-equiv", "charset", "name", "a", "b", "aa", "data-x", "zz", "type", "B", "_", "src", "rel"]
S_VALS = ["color: red", "1", "content-type", "Content-Type", "text/html; charset=x", "x y", "", "utf-8", "v"]
S_OPTS = ["quote_attr_values", "omit_optional_tags", "minimize_boolean_attributes", "use_trailing_solidus", "strip_whitespace", "inject_meta_charset", "escape_lt_in_attrs", "sanitize"]


def decode_ser_case(data):
    from vf.gen.soup import Dec
    dec = Dec(data)
    parts = []
    if dec.below(3) == 0:
        parts.append("<!DOCTYPE html>")
    if dec.below(3) == 0:
        # declarations in the shapes the meta-charset filter distinguishes (with / without content, charset, other attributes around)
        parts.append(dec.pick(["<meta http-equiv=content-type>", "<meta id=i http-equiv=Content-Type zz=1>", "<meta charset=x name=n>", "<meta zz=1 http-equiv=content-type content=c a=2>",
                               "<meta name=d content=e>", "<meta http-equiv=content-type lang=l>"]))
    for _ in range(1 + dec.below(6)):
        tag = dec.pick(S_TAGS)
        names = []
        for _ in range(dec.below(6)):
            a = dec.pick(S_ATTRS)
            if a not in names:
                names.append(a)
        parts.append("<%s%s>%s" % (tag, "".join(' %s="%s"' % (a, dec.pick(S_VALS)) for a in names), dec.pick(["", "x", " ", "</%s>" % tag])))
    opts = {"alphabetical_attributes": True}
    for k in S_OPTS:
        if k == "quote_attr_values":
            opts[k] = dec.pick(["legacy", "spec", "always"])
        else:
            opts[k] = bool(dec.below(2))
    case = {"kind": "serializer", "text": "".join(parts), "walker": dec.pick(["etree", "dom"]), "opts": opts, "encoding": dec.pick([None, "utf-8", "ascii", "koi8-r"])}
    if dec.below(3) == 0:
        # the convenience entry point html5lib.serializer.serialize(tree, tree=..., **options), called before with OTHER options that
        # have the same values (whatever the function keeps between calls must be keyed by the whole option set)
        case["entry"] = "function"
        base = {"quote_attr_values": dec.pick(["legacy", "spec", "always"])}
        if dec.below(2):
            base["quote_char"] = dec.pick(['"', "'"])
        if dec.below(3) == 0:
            base["omit_optional_tags"] = False
        case["prior"] = [dict(base, **{dec.pick(["strip_whitespace", "escape_rcdata", "sanitize", "use_trailing_solidus", "minimize_boolean_attributes", "alphabetical_attributes"]): True})
                         for _ in range(1 + dec.below(2))]
        case["opts"] = dict(base, alphabetical_attributes=True)
    return case


XLINK = "http://www.w3.org/1999/xlink"
XMLNS = "http://www.w3.org/2000/xmlns/"
XMLN = "http://www.w3.org/XML/1998/namespace"
F_ATTRS = ["xlink:href", "xml:lang", "xmlns", "xmlns:xlink", "xlink:title", "href", "id", "y", "lang", "title", "zoomAndPan", "a", "type", "role"]


def decode_foreign_case(data):
    """foreign elements with adjusted (namespaced) and plain attributes that share local names, in generated source order"""
    from vf.gen.soup import Dec
    dec = Dec(data)
    parts = []
    for _ in range(1 + dec.below(3)):
        root = dec.pick(["svg", "math"])
        inner = dec.pick(["a", "g", "mi", "use", "text"])
        def attrs():
            names = []
            for _ in range(2 + dec.below(5)):
                a = dec.pick(F_ATTRS)
                if a not in names:
                    names.append(a)
            return "".join(' %s="%s"' % (a, dec.pick(["1", "u", "en", "#t"])) for a in names)
        parts.append("<%s%s><%s%s>t</%s></%s>" % (root, attrs(), inner, attrs(), inner, root))
    return {"kind": "foreign-order", "text": "".join(parts), "walker": dec.pick(["etree", "dom"]), "quote": dec.pick(["legacy", "always"])}


def check_foreign_order(case):
    """Through parse -> walker -> HTMLSerializer(alphabetical_attributes=True): the attribute names written for every element, in order,
    must be the element's attributes (as the etree backend parsed them) sorted by (namespace or '', local name).  Expected from the
    etree tree whatever walker is used: a backend that loses or renames a namespaced attribute shows here as well."""
    import warnings
    from html5lib.serializer import HTMLSerializer
    from vf import h5, obs
    from vf.ref.tokenizer import RefTokenizer, normalize_newlines
    text, walker = case["text"], case.get("walker", "etree")
    ref_tree, _ = h5.parse(text, builder="etree", container="div")
    want = []
    for r in obs.flat(ref_tree):
        if r[1] == "elem":
            keys = sorted(((a[0], a[1]) for a in r[4]), key=lambda k: (k[0] or "", k[1]))
            names = []
            for k in keys:
                # the serializer writes local names only (recorded finding C08-attr-prefix-dropped); a lexer keeps the first of equal
                # names and lower-cases them
                if k[1].lower() not in names:
                    names.append(k[1].lower())
            want.append((r[3].lower(), names))
    tree, _ = h5.parse(text, builder=walker, container="div")
    with warnings.catch_warnings():
        warnings.simplefilter("ignore")
        out = HTMLSerializer(alphabetical_attributes=True, omit_optional_tags=False, quote_attr_values=case.get("quote", "legacy")).render(h5.walk(tree, walker))
    tok = RefTokenizer(normalize_newlines(out), cdata_allowed=lambda: True)
    got = []
    while True:
        t = tok.next_token()
        if t[0] == "eof":
            break
        if t[0] == "start":
            got.append((t[1].lower(), [a[0].lower() for a in t[2]]))
    if got != want:
        k = next((i for i, (a, b) in enumerate(zip(got, want)) if a != b), min(len(got), len(want)))
        return Verdict("fail", "%s walker, alphabetical_attributes=True: element %d is written as %s, its attributes sorted by (namespace, local name) are %s; input %s; output %s"
                       % (walker, k, short(got[k:k + 1], 120), short(want[k:k + 1], 120), short(text, 200), short(out, 300)), "foreign-order:" + walker, nontrivial=True)
    return Verdict("pass", nontrivial=True, sig=sig64("fo", out))


def check_serializer_case(case):
    """every start tag the reference lexer reads in the output has its attribute names in code-point order (all attributes here are un-namespaced)"""
    import warnings
    from html5lib.serializer import HTMLSerializer
    from vf import h5
    from vf.ref.tokenizer import RefTokenizer, normalize_newlines
    tree, _ = h5.parse(case["text"], builder=case["walker"], full_tree=True)
    with warnings.catch_warnings():
        warnings.simplefilter("ignore")
        ser = HTMLSerializer(**case["opts"])
        try:
            if case.get("entry") == "function":
                from html5lib import serializer as S
                for o in case.get("prior") or []:
                    try:
                        S.serialize(tree, tree=case["walker"], **o)
                    except Exception:
                        pass
                out = S.serialize(tree, tree=case["walker"], encoding=case.get("encoding"), **case["opts"])
            else:
                out = ser.render(h5.walk(tree, case["walker"]), case.get("encoding"))
        except Exception as e:
            return Verdict("fail", "serializer raised %r for %s" % (e, short(case["text"], 160)), "serializer-exception:" + type(e).__name__, nontrivial=True)
    if case.get("encoding"):
        out = out.decode(case["encoding"])
    tok = RefTokenizer(normalize_newlines(out))
    n_multi = 0
    while True:
        t = tok.next_token()
        if t[0] == "eof":
            break
        if t[0] == "start":
            names = [a[0] for a in t[2]]
            if len(names) >= 2:
                n_multi += 1
            if names != sorted(names):
                return Verdict("fail", "alphabetical_attributes=True wrote <%s> with attributes %s; options %s encoding %s; input %s; output %s"
                               % (t[1], names, case["opts"], case.get("encoding"), short(case["text"], 200), short(out, 300)), "serializer-order", nontrivial=True)
    return Verdict("pass", nontrivial=n_multi > 0, sig=sig64(out))


def run_shard(desc, seed, tier):
    acc = Acc()
    if desc["kind"] == "long":
        # long streams: nothing about the filter depends on how many tokens came before (block-wise buffering, caches)
        for n in (1022, 1023, 1024, 1025, 1026, 2047, 2049, 2050, 3075, 5000):
            toks = []
            i = 0
            while len(toks) < n:
                i += 1
                toks.append({"type": "StartTag", "name": "a", "namespace": None, "attrs": [[None, "z%d" % i, "1"], ["b", "a", str(i)], [None, "a", "2"]]})
                toks.append({"type": "Characters", "data": "t%d" % i})
                toks.append({"type": "EndTag", "name": "a", "namespace": None})
            case = {"tokens": toks[:n]}
            acc.add(case, check_case(case))
        return acc
    if desc["kind"] == "serializer":
        from vf.gen.soup import sized_binary

        def fn(data):
            case = decode_ser_case(data) if data[:1] and data[0] % 3 else decode_foreign_case(data[1:])
            acc.add(case, check_case(case))
        drive(sized_binary(8, 70), fn, desc["n"], seed)
        return acc
    if desc["kind"] == "hyp":
        def fn(tokens):
            case = {"tokens": tokens}
            acc.add(case, check_case(case))
        drive(_stream, fn, desc["n"], seed)
    else:
        # all insertion orders of fixed key sets with collisions
        sets = [
            [(None, "href"), ("http://www.w3.org/1999/xlink", "href"), ("http://www.w3.org/XML/1998/namespace", "href"),
             (None, "a"), ("a", "a"), ("b", "a")],
            [(None, "b"), ("a", "b"), (None, "a"), ("b", "a"), ("B", "a"), (None, "B")],
            [("href", "a"), (None, "href"), ("a", "href"), (None, "xlink:href"), ("~", "0"), (None, "~")],
            [(None, "z"), (None, "aa"), ("z", "a"), ("aa", "z"), (None, "ab"), ("a", "b")],
        ]
        k = desc["k"]
        mine = sets[desc["part"]::2]
        for keys in mine:
            keys = keys[:k]
            for perm in itertools.permutations(range(len(keys))):
                attrs = [[keys[i][0], keys[i][1], "v%d" % i] for i in perm]
                case = {"tokens": [{"type": "StartTag", "name": "a", "namespace": None, "attrs": attrs},
                                   {"type": "Characters", "data": "x"},
                                   {"type": "EndTag", "name": "a", "namespace": None}]}
                acc.add(case, check_case(case))
        acc.extra["permutations_enumerated"] = sum(1 for _ in itertools.permutations(range(k))) * len(mine)
    return acc
