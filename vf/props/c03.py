"""C03 - parsing is total: any input yields a well-formed document skeleton."""
import signal
import traceback

from hypothesis import strategies as st

from vf import h5, obs
from vf.core import Acc, Verdict, REPO, active, drive, short, sig64
from vf.gen import soup

ID = "C03"
TECHNIQUE = ("fuzzing-style property-based testing: Hypothesis bytes/Unicode/markup soup and parameterised pathological depth/length families "
             "through every builder x namespacing x document/fragment x container x scripting, with a crash oracle and a document-skeleton validity predicate")
RULE = ("Inputs: st.binary, st.text (all planes, surrogates), decoded markup soup (10 bias profiles), and pathological families unit*N (N up to 3000 quick / 20000 "
        "thorough) for ~45 units (deep nesting of every implied-end-tag / scope / formatting / table / select / ruby / heading / foreign class, alternating pairs, N attributes, "
        "N-character names, N comments) with optional closers; x builder {dom, etree, etree fullTree} x namespaceHTMLElements x {parse, parseFragment(container from 45 names "
        "and arbitrary strings)} x scripting; str and bytes. Oracle: no exception of any type; for documents an iterative skeleton check (optional doctype + comments + exactly "
        "one html element; its element children are head then body|frameset (+ noframes after frameset); no non-whitespace text directly under html). A per-case CPU watchdog "
        "yields 'inconclusive', never a violation. Non-trivial = the input has a tag-like construct and the parse recorded an error, or a family with N >= 1000; "
        "distinct = distinct (family, N-bucket, configuration) or (error-code set, configuration) signature.")
ASSUMPTIONS = ["termination in general is not decided: a watchdog timeout is 'inconclusive' unless the re-run under HTMLParser(debug=True) with a counting log shows more than 200*(n+50) token dispatches for n input characters (deterministic livelock verdict)",
               "a noframes element after frameset under html is what the algorithm itself produces and is accepted"]
SHRINK = {"text": "str", "data": "bytes"}

WS = " \t\n\f\r"

UNITS = ["<div>", "<b>", "<i>", "<a>", "<p>", "<li>", "<dd>", "<dt>", "<rt>", "<rp>", "<rb>", "<rtc>", "<option>", "<optgroup>", "<h1>", "<button>", "<nobr>",
         "<font>", "<table>", "<tr>", "<td>", "<tbody>", "<caption>", "<colgroup>", "<select>", "<svg>", "<math>", "<mi>", "<foreignObject>", "<ruby>", "<form>",
         "<applet>", "<object>", "<marquee>", "<template>", "<frameset>", "<ul>", "<span>", "<x>", "<b><p>", "<a><div>", "<table><td>", "<table><tr><td><table>",
         "<i><b>", "<svg><foreignObject>", "<math><mi>", "<select><option>", "<ul><li>", "<dl><dd>", "<table><caption>", "<p><button>", "<a><table>",
         "<b></p>", "<a><p></a>", "</p>", "</br>", "<!--x-->", "<!-->", "&amp;", "&#0;", "<a b=c>", "x<br>", "<b><table>", "<nobr><nobr>", "<a><a>", "<li><ul>",
         "<h1><h2>", "<button><div>", "<rt><div>", "<div><rt>"]
PREFIX = ["", "<div>", "<table>", "<svg>", "<select>", "<ruby>", "<p>", "<a>", "<math>", "<frameset>", "<template>", "<button>"]
SUFFIX = ["", "</div>", "</table>", "</b>", "</a>", "</p>", "</svg>", "</select>", "</ruby>", "x", "</body></html>", "</template>", "</button>"]
TINY = [["<form>", "</form>", "<table>", "</table>", "<object>", "</object>", "x"],
        ["<select>", "</select>", "<table>", "<td>", "<option>", "<input>", "x"],
        ["<a>", "</a>", "<b>", "</b>", "<p>", "</p>", "<table>"],
        ["<svg>", "</svg>", "<desc>", "<select>", "<table>", "</table>", "<p>"],
        ["<frameset>", "</frameset>", "<body>", "</html>", "<a>", " ", "<noframes>"],
        ["<template>", "</template>", "<table>", "<td>", "<select>", "</table>", "<form>"],
        ["<table>", "<math>", "<mi>", "x", "</mi>", "<svg>", "<desc>", "</desc>", "<tr>"],
        ["<svg>", "<tr>", "<foreignObject>", "<select>", "</select>", "<caption>", "<table>", "</table>", "<td>"],
        ["<math>", "<annotation-xml encoding=text/html>", "<table>", "</table>", "<col>", "<select>", "</select>", "<tbody>"]]
# one lexical construct made very long (a single token / reference / value of N characters): limits of the host language
# (int() digit limit, recursion in regexes, quadratic scans) show only here
LEXICAL = [("&#", "9", ";"), ("&#", "0", "65;"), ("&#x", "f", ";"), ("&#x", "0", "41;"), ("&", "a", ";"), ("<", "a", ">"), ("<a ", "b", "=c>"), ("<a b=", "c", ">"),
           ('<a b="', "c", '">'), ("<!--", "-", "-->"), ("<!--", "x", ""), ("<!DOCTYPE ", "h", ">"), ('<!DOCTYPE html PUBLIC "', "x", '">'), ("</", "a", ">"),
           ("<a ", "b ", ">"), ("<a ", "b=1 ", ">"), ("<svg><![CDATA[", "x", "]]>"), ("<svg><![CDATA[", "]", "]]>"), ("<title>", "&", "</title>"), ("<script>", "<!--", ""),
           ("<textarea>", "\n", ""), ("", "\r\n", ""), ("<p ", 'a="&amp;" ', ">"), ("<a b='&#", "1", "'>"), ("<a b=&", "x", ">"), ("<!DOCTYPE html SYSTEM '", "y", ""),
           ("&#", "1", ""), ("<a b=\"&#x", "A", ""), ("<p>", "\x00", ""), ("<", "\ud800", ">"),
           # many DISTINCT formatting elements (identical ones are capped at three) inside a marker scope that is then closed,
           # many distinct attributes / elements: a counter in the unit
           ("<table><tr><td>", "<font size=%d>", "x</td></table>"), ("<object>", "<b id=%d>", "</object>y"), ("<table><caption>", "<i class=c%d>", "</caption></table>"),
           ("<p>", "<a href=%d>", "</p>x"), ("<div>", "<nobr id=n%d>", "</div>"), ("<b ", "a%d=1 ", ">"), ("<table>", "<tr><td>%d", "</table>"), ("<select>", "<option value=%d>", "</select>"),
           ("<applet>", "<u id=%d><em id=e%d>", "</applet>"), ("<table><tr><th>", "<s id=%d>", "<th>z")]
CONFIGS = [(b, ns, ft) for b in ("dom", "etree") for ns in (True, False) for ft in ((False, True) if b == "etree" else (False,))]


class _Timeout(BaseException):
    pass


_ARMED = [False]


def _alarm(signum, frame):
    if _ARMED[0]:
        raise _Timeout()


def _arm(seconds):
    # repeating: a _Timeout raised inside a gc callback / __del__ is swallowed by the interpreter, the next tick gets through
    _ARMED[0] = True
    signal.setitimer(signal.ITIMER_REAL, seconds, 0.5)


def _disarm():
    _ARMED[0] = False
    signal.setitimer(signal.ITIMER_REAL, 0)


def skeleton_violation(fl):
    """Check the document skeleton on a flat tree of a *document* result; returns None or a message."""
    if not fl or fl[0][1] not in ("doc",):
        return "result is not a document"
    top = [r for r in fl if r[0] == 1]
    kinds = [r[1] for r in top]
    html_idx = [i for i, r in enumerate(top) if r[1] == "elem"]
    if len(html_idx) != 1:
        return "document has %d element children (%s)" % (len(html_idx), kinds[:8])
    root = top[html_idx[0]]
    if root[3] != "html":
        return "root element is <%s>" % root[3]
    seen_doctype = 0
    for r in top:
        if r[1] == "doctype":
            seen_doctype += 1
        elif r[1] not in ("comment", "elem"):
            return "document child of kind %s" % r[1]
    if seen_doctype > 1:
        return "%d doctypes" % seen_doctype
    # children of html: records at depth 2 between the html record and the next depth-1 record
    start = fl.index(root)
    kids = []
    for r in fl[start + 1:]:
        if r[0] <= 1:
            break
        if r[0] == 2:
            kids.append(r)
    elems = [r[3] for r in kids if r[1] == "elem"]
    for r in kids:
        if r[1] == "text" and r[2].strip(WS):
            return "non-whitespace text %r directly under html" % r[2][:40]
        if r[1] not in ("text", "elem", "comment"):
            return "child of html of kind %s" % r[1]
    if len(elems) < 2 or elems[0] != "head" or elems[1] not in ("body", "frameset"):
        return "element children of html are %s" % elems[:6]
    rest = elems[2:]
    if rest:
        if not (elems[1] == "frameset" and all(e == "noframes" for e in rest)):
            return "element children of html are %s" % elems[:6]
    return None


def _as_text(inp, p):
    """the characters the parser actually saw (bytes are decoded with the encoding it reports)"""
    if isinstance(inp, bytes):
        try:
            import webencodings
            enc = p.documentEncoding
            return inp.decode(webencodings.lookup(enc).codec_info.name, "replace")
        except Exception:
            return inp
    return inp


def _standard_produces_it(inp, scripting, msg):
    """Known-finding classifier: the tree the standard's own algorithm (vf.ref.treebuilder, strict) builds for this
    input has the very same skeleton anomaly (after a frameset the 'in body' rules can still reconstruct formatting
    elements under html)."""
    from vf.ref import treebuilder as T
    if isinstance(inp, bytes):
        return False
    try:
        r = T.parse_document(inp, scripting=scripting)
    except Exception:
        return False
    return skeleton_violation(obs.flat_ref(r.root)) == msg


def _innermost_frame(tb):
    fr = None
    for f in traceback.extract_tb(tb):
        if "html5lib" in f.filename:
            fr = f
    if fr is None:
        return "?"
    return "%s:%s" % (fr.filename.split("html5lib/")[-1], fr.name)


def build_input(case):
    if case.get("family") is not None:
        fam = case["family"]
        body = "".join(fam.replace("%d", str(i)) for i in range(case["n"])) if "%d" in fam else fam * case["n"]
        s = case.get("prefix", "") + body + case.get("suffix", "")
        if case.get("as_bytes"):
            return s.encode("utf-8", "surrogatepass")
        return s
    if "data" in case and case["data"] is not None:
        return case["data"]
    return case["text"]


_NONTERM = [0]


def check_case(case, budget=None):
    inp = build_input(case)
    builder, ns, ft = case.get("builder", "dom"), case.get("namespace", True), case.get("full_tree", False)
    container, scripting = case.get("container"), bool(case.get("scripting"))
    size = len(inp)
    budget = budget or int(5 + size / 500.0)
    fam = case.get("family")
    taglike = isinstance(inp, str) and "<" in inp or isinstance(inp, bytes) and b"<" in inp
    signal.signal(signal.SIGALRM, _alarm)
    if _NONTERM[0] >= 1:
        # this process has already proved non-termination once: from now on count dispatches first, so that a tree with a
        # common livelock costs milliseconds per case instead of one watchdog period each (the verdict is the same, deterministic one)
        limit = 200 * (size + 50)
        _arm(max(60, 4 * budget))
        try:
            try:
                h5.parse_bounded(inp, limit, builder=builder, namespace=ns, scripting=scripting, container=container, full_tree=ft)
            finally:
                _disarm()
        except h5.DispatchLimit as e:
            return Verdict("fail", "non-termination: the tree constructor dispatched more than %d times for %d input characters (%s); input %s container=%r"
                           % (limit, size, short(str(e), 200), short(inp, 200), container), "non-termination", nontrivial=True)
        except (_Timeout, Exception):
            pass
    _arm(budget)
    try:
        try:
            kw = dict(case.get("args") or {}) if isinstance(inp, bytes) else {}
            r, p = h5.parse(inp, builder=builder, namespace=ns, scripting=scripting, container=container, full_tree=ft, **kw)
            fl = obs.flat(r)
        finally:
            _disarm()
    except _Timeout:
        # a time budget is not an oracle: decide by counting dispatches instead (deterministic)
        limit = 200 * (size + 50)
        _arm(max(60, 4 * budget))
        try:
            try:
                h5.parse_bounded(inp, limit, builder=builder, namespace=ns, scripting=scripting, container=container, full_tree=ft)
            finally:
                _disarm()
        except h5.DispatchLimit as e:
            _NONTERM[0] += 1
            return Verdict("fail", "non-termination: the tree constructor dispatched more than %d times for %d input characters (%s); input %s container=%r"
                           % (limit, size, short(str(e), 200), short(inp, 200), container), "non-termination", nontrivial=True)
        except _Timeout:
            pass
        except Exception:
            pass
        return Verdict("inconclusive", "watchdog after %ds on %d chars" % (budget, size))
    except RecursionError as e:
        fr = _innermost_frame(e.__traceback__)
        return Verdict("fail", "RecursionError in %s on %s" % (fr, short(inp, 120)), "RecursionError@" + fr, nontrivial=True)
    except Exception as e:
        fr = _innermost_frame(e.__traceback__)
        return Verdict("fail", "%s: %s in %s on input %s (builder=%s ns=%s container=%r scripting=%s)"
                       % (type(e).__name__, short(str(e), 100), fr, short(inp, 200), builder, ns, container, scripting),
                       "%s@%s" % (type(e).__name__, fr), nontrivial=True)
    errs = [e[1] for e in p.errors]
    nontrivial = bool((taglike and errs) or (fam is not None and case["n"] >= 1000))
    cfg = (builder, ns, ft, container is None, scripting)
    if fam is not None:
        sig = sig64("fam", case.get("prefix"), fam, case.get("suffix"), case["n"] // 500, cfg, container)
    else:
        sig = sig64("err", tuple(sorted(set(errs))), cfg, container)
    if container is None:
        # etree without fullTree returns the html element itself
        if builder == "etree" and not ft:
            if fl[0][1] != "root" or len(fl) < 2 or fl[1][3] != "html":
                return Verdict("fail", "etree root-element form did not return the html element: %s" % short(fl[:3]), "skeleton:no-root", nontrivial=nontrivial)
            fl2 = [(0, "doc")] + fl[1:]
            msg = skeleton_violation(fl2)
        else:
            msg = skeleton_violation(fl)
        if msg and active("C03-skeleton-standard-anomaly") and _standard_produces_it(_as_text(inp, p), scripting, msg):
            return Verdict("known", finding="C03-skeleton-standard-anomaly", nontrivial=nontrivial, sig=sig)
        if msg:
            return Verdict("fail", "skeleton: %s; input %s (builder=%s ns=%s scripting=%s)" % (msg, short(inp, 200), builder, ns, scripting),
                           "skeleton:" + msg.split(" ")[0] + ":" + msg.split(" ")[-1][:20], nontrivial=nontrivial)
    else:
        if fl[0][1] != "frag":
            return Verdict("fail", "parseFragment did not return a fragment: %s" % short(fl[:2]), "fragment-result", nontrivial=nontrivial)
    classes = ["builder:" + builder + ("-full" if ft else ""), "doc" if container is None else "fragment"]
    return Verdict("pass", nontrivial=nontrivial, sig=sig, classes=classes)


# ---------------------------------------------------------------------------
_containers = st.one_of(st.none(), st.none(), st.sampled_from(soup.CONTEXTS), st.text(min_size=1, max_size=5))
_cfg = st.tuples(st.sampled_from(CONFIGS), _containers, st.booleans())


def _mk(inp, cfg):
    (builder, ns, ft), container, scripting = cfg
    case = {"builder": builder, "namespace": ns, "full_tree": ft, "container": container, "scripting": scripting}
    if isinstance(inp, bytes):
        case["data"] = inp
    else:
        case["text"] = inp
    return case


def shards(tier):
    quick = tier == "quick"
    out = []
    for i in range(6):
        out.append({"kind": "soup", "n": 2500 if quick else 120000})
    for i in range(2):
        out.append({"kind": "raw", "n": 3000 if quick else 150000})
    for i in range(2):
        out.append({"kind": "grammar", "n": 6000 if quick else 200000})
    # bounded-exhaustive: every sequence of <= L tokens over tiny paired alphabets (choreographies of scope barriers and pointers)
    for ai in range(len(TINY)):
        for part in range(2 if ai == 0 else 1):
            out.append({"kind": "tiny", "alphabet": ai, "len": ((6 if ai == 0 else 5) if quick else 7 if ai == 0 else 6) - (1 if len(TINY[ai]) > 8 and not quick else 0), "part": part, "of": 2 if ai == 0 else 1})
    out.append({"kind": "meta-prefixes"})
    out.append({"kind": "reparse-bytes", "len": 4 if quick else 5})
    for i in range(8):
        out.append({"kind": "family", "part": i, "of": 8, "quick": quick})
    out.append({"kind": "lexical", "quick": quick})
    if not quick:
        for i in range(6):
            out.append({"kind": "fuzz", "seconds": 300})
    return out


def run_shard(desc, seed, tier):
    acc = Acc()
    kind = desc["kind"]
    if kind == "fuzz":
        from vf.core import fuzz_shard
        return fuzz_shard("c03", desc["seconds"], seed)
    if kind == "soup":
        strat = st.tuples(soup.soup_text(max_items=60), _cfg, st.booleans())

        def fn(x):
            (profile, text), cfg, as_bytes = x
            inp = text.encode("utf-8", "surrogatepass") if as_bytes else text
            case = _mk(inp, cfg)
            v = check_case(case)
            v.classes = tuple(v.classes) + ("profile:" + profile,)
            acc.add(case, v, sample={"text": short(text, 200), "cfg": str(cfg)})
        drive(strat, fn, desc["n"], seed)
    elif kind == "tiny":
        import itertools
        al = TINY[desc["alphabet"]]
        n = 0
        for L in range(1, desc["len"] + 1):
            for tup in itertools.product(al, repeat=L):
                n += 1
                if n % desc["of"] != desc["part"]:
                    continue
                text = "".join(tup)
                cfgi = (n + seed) % len(CONFIGS)
                b, ns, ft = CONFIGS[cfgi]
                case = {"text": text, "builder": b, "namespace": ns, "full_tree": ft, "container": None if n % 3 else ["div", "table", "form", "select", "td"][n % 5], "scripting": bool(n & 8)}
                acc.add(case, check_case(case))
        acc.extra["tiny_alphabet_sequences"] = n // desc["of"]
        acc.exhaustive = True
    elif kind == "grammar":
        # long sequences over a tiny paired alphabet (form pointer / scope barriers / select / table): crashes that need a
        # specific 5-8 token choreography
        AL = ["<form>", "<form>", "</form>", "</form>", "<table>", "</table>", "<object>", "</object>", "<marquee>", "</marquee>", "<applet>", "</applet>", "<div>", "</div>", "<p>", "x",
              "<input>", "<tr>", "<td>", "</td>", "<template>", "</template>", "<button>", "</button>", "<select>", "</select>", "<svg>", "</svg>", "<li>", "<dd>", "<a>", "</a>", "<b>", "</b>",
              "<frameset>", "</frameset>", "<head>", "</head>", "<body>", "</body>", "<html>", "</html>", "<title>", "<math>", "<mi>", "<option>", "<caption>", "<colgroup>", "</p>", "</br>"]
        strat = st.tuples(st.lists(st.sampled_from(AL), min_size=3, max_size=14).map("".join), _cfg)

        def fn(x):
            inp, cfg = x
            case = _mk(inp, cfg)
            acc.add(case, check_case(case), sample={"input": short(inp, 120), "cfg": str(cfg)})
        drive(strat, fn, desc["n"], seed)
    elif kind == "raw":
        strat = st.tuples(st.one_of(st.binary(max_size=60), st.text(max_size=40),
                                    st.text(alphabet=st.characters(min_codepoint=0xD800, max_codepoint=0xDFFF), max_size=6),
                                    st.lists(st.sampled_from(["<", ">", "/", "a", "table", "!", "-", "\x00", "=", "\"", "&", "#", ";", " ", "\r", "svg", "p", "b"]), max_size=30).map("".join)),
                          _cfg)

        def fn(x):
            inp, cfg = x
            case = _mk(inp, cfg)
            acc.add(case, check_case(case), sample={"input": short(inp, 120), "cfg": str(cfg)})
        drive(strat, fn, desc["n"], seed)
    elif kind == "meta-prefixes":
        # byte input that ends (or whose 1024-byte prescan window ends) anywhere inside a <meta ...> tag
        from vf.props.c06 import META_FORMS
        n = 0
        for fi, form in enumerate(META_FORMS):
            m = ((form % "utf-8") if "%s" in form else form).encode("ascii", "replace")
            for pad in (b"", b"<!--" + b"x" * (1016 - len(m) // 2) + b"-->"):
                doc = pad + m + b"<p>\xe9"
                cuts = range(len(pad), len(doc) + 1) if not pad else [len(doc)]
                for cut in cuts:
                    for shift in ((0,) if not pad else range(0, len(m) + 8, 3)):
                        data = (b" " * shift + doc)[:cut + shift]
                        n += 1
                        (builder, ns, ft) = CONFIGS[n % len(CONFIGS)]
                        case = {"data": data, "builder": builder, "namespace": ns, "full_tree": ft, "container": None if n % 4 else "div", "scripting": False}
                        v = check_case(case, budget=20)
                        v.classes = tuple(v.classes) + ("meta-prefix",)
                        acc.add(case, v)
    elif kind == "reparse-bytes":
        # byte documents whose encoding declaration lies behind the 1024-byte prescan window, so that the tree builder changes the
        # encoding and parsing starts over; with ISO-2022-JP escape sequences, which change WHICH bytes are markup between the two
        # passes (a declaration can be markup in one pass and text in the other).  Every sequence of <= L atoms, x encoding hints.
        import itertools
        pad = b"<!--" + b"x" * 1030 + b"-->"
        atoms = [b"\x1b$B", b"\x1b(B", b"<meta charset=iso-2022-jp>", b"<meta charset=utf-8>", b"<meta http-equiv=content-type content='text/html; charset=shift_jis'>",
                 b"<p>\xe9x", b"<meta charset=utf-16>", b"<title>\xd0\x98</title>"]
        hints = [{}, {"likely_encoding": "iso-2022-jp"}, {"same_origin_parent_encoding": "iso-2022-jp"}, {"default_encoding": "utf-8"}]
        n = 0
        for ln in range(1, desc["len"] + 1):
            for tup in itertools.product(atoms, repeat=ln):
                if not any(a.startswith(b"<meta") for a in tup):
                    continue
                n += 1
                (builder, ns, ft) = CONFIGS[n % len(CONFIGS)]
                case = {"data": pad + b"".join(tup), "args": hints[n % len(hints)], "builder": builder, "namespace": ns, "full_tree": ft,
                        "container": None if n % 5 else "div", "scripting": bool(n % 2)}
                v = check_case(case, budget=20)
                v.classes = tuple(v.classes) + ("reparse-bytes",)
                acc.add(case, v)
        acc.extra["reparse_byte_sequences"] = n
    elif kind == "lexical":
        quick = desc["quick"]
        k = 0
        for (pre, u, suf) in LEXICAL:
            # (families with a counter nest DISTINCT elements: html5lib's list of active formatting elements makes them quadratic, so
            # their largest size is 60000 characters, about 4000 elements, instead of 200000)
            for n in ((4500, 20000) if quick else (4500, 20000, 60000 if "%d" in u else 200000)):
                for (builder, ns, ft) in (("etree", True, True), ("dom", True, False)):
                    k += 1
                    container = None if k % 3 else "div"
                    case = {"family": u, "n": n // len(u), "prefix": pre, "suffix": suf, "builder": builder, "namespace": ns, "full_tree": ft,
                            "container": container, "scripting": bool(k % 2), "as_bytes": k % 4 == 0 and "\ud800" not in u}
                    v = check_case(case, budget=120)
                    v.classes = tuple(v.classes) + ("lexical-length",)
                    acc.add(case, v)
        for n_, text in enumerate(soup.foreign_namesake_docs()):
            (builder, ns, ft) = CONFIGS[n_ % len(CONFIGS)]
            case = {"text": ("<!DOCTYPE html>" if n_ % 2 else "") + text, "builder": builder, "namespace": ns, "full_tree": ft, "container": None if n_ % 5 else "div", "scripting": bool(n_ % 3 == 0)}
            v = check_case(case, budget=20)
            v.classes = tuple(v.classes) + ("foreign-namesake",)
            acc.add(case, v)
        # many DISTINCT tag names in one parse (per-phase handler caches fill up and evict), in every prefix context
        tails = ["", "<p>t<table><tr><td>c</table>", "<td>y</table>", "<input><option>", "<frame>", "</p></div></table>"]
        for pi, pre in enumerate(PREFIX):
            for K in ((12, 20, 70, 130, 400) if quick else (5, 12, 20, 40, 70, 120, 130, 400, 3000)):
                for shape in range(3):
                    k += 1
                    body = "".join(("<n%d>" % i, "</n%d>" % i, "<n%d></n%d>" % (i, i))[shape] for i in range(K))
                    (builder, ns, ft) = CONFIGS[k % len(CONFIGS)]
                    container = None if k % 3 else soup.CONTEXTS[(k // 3) % len(soup.CONTEXTS)]
                    case = {"text": pre + body + tails[k % len(tails)], "builder": builder, "namespace": ns, "full_tree": ft, "container": container, "scripting": bool(k % 2)}
                    v = check_case(case, budget=60)
                    v.classes = tuple(v.classes) + ("distinct-names",)
                    acc.add(case, v)
    else:
        import itertools
        quick = desc["quick"]
        units = UNITS[desc["part"]::desc["of"]]
        k = 0
        combos = list(itertools.product(PREFIX, SUFFIX))
        for ui, u in enumerate(units):
            for ci, (pre, suf) in enumerate(combos):
                k += 1
                plain = pre in ("", "<div>") and suf in ("", "</div>")
                if quick and not plain and (ci + ui + seed) % 4 != 0:
                    continue        # quick: a seed-rotated quarter of the (prefix, suffix) combinations
                # every (unit, prefix, suffix) at moderate N on one rotating configuration; the plain ones at large N too
                cfgs = [CONFIGS[(k + seed) % len(CONFIGS)]]
                ns_list = [150 if quick else 300]
                if (pre == "" or suf == "") and (not quick or (ci + seed) % 3 == 0) or (k + seed) % 17 == 0:
                    ns_list.append(1000 if quick else 5000)
                if plain:
                    ns_list.append(3500 if quick else 20000)
                for n in ns_list:
                    for (builder, ns, ft) in cfgs:
                        if n > (500 if quick else 5000) and builder == "dom":
                            builder, ft = "etree", (k % 2 == 0)     # dom appendChild is quadratic in depth; keep the budget for the parser
                        container = None if (k % 3) else soup.CONTEXTS[k % len(soup.CONTEXTS)]
                        case = {"family": u, "n": n, "prefix": pre, "suffix": suf, "builder": builder, "namespace": ns, "full_tree": ft,
                                "container": container, "scripting": bool(k % 2), "as_bytes": k % 5 == 0}
                        v = check_case(case, budget=120)
                        v.classes = tuple(v.classes) + ("family-N>=1000" if n >= 1000 else "family-N<1000",)
                        acc.add(case, v)
    return acc
