"""C13 - the optional-tags filter removes only tags HTML allows to be omitted."""
import copy
import itertools

from hypothesis import strategies as st

from vf.core import Acc, Verdict, active, drive, short, sig64
from vf.ref import optionaltags as ref

ID = "C13"
TECHNIQUE = ("property-based testing: generated and enumerated walker-format token streams through the filter, judged by a subsequence/identity "
             "check and an independent transcription of the standard's optional-tag rules; parse-equivalence round trip on conforming documents")
RULE = ("(1) Hypothesis token streams (balanced trees and free sequences) over the 18 omittable names, every neighbour name the rules mention, "
        "near-miss/unknown names (m h t l ht tm ml htm tml datagrid dialog dir x), foreign-namespace namesakes, with/without attributes, EmptyTag, "
        "Comment, SpaceCharacters, Characters, Doctype; (2) enumeration of all (previous, token, next) triples over that alphabet (quick: a seeded slice). "
        "Oracle: output is an order-preserving subsequence of the very same token objects, unchanged; every removed token is an attribute-less StartTag "
        "or an EndTag for which vf/ref/optionaltags.py (the standard's rules) allows omission given its immediate neighbours. (3) conforming documents: "
        "parse(serialize(filtered)) == parse(serialize(unfiltered)). Non-trivial = the stream contains at least one omittable-name tag; distinct = distinct "
        "(type, namespace-class, name, has-attrs) sequence. (4) serializer level: conforming documents rendered by HTMLSerializer with sanitize / strip_whitespace / "
        "alphabetical options, once with and once without omit_optional_tags; both outputs are read by the reference lexer, the omitted one must be the full one minus tags, "
        "and each missing tag must satisfy the same reference rules between its neighbours in the final markup.")
ASSUMPTIONS = ["Characters tokens never start or end with whitespace and names are non-empty (what tree walkers emit; C11 checks that)",
               "'no more content in the parent element' is read as: the next token is an end tag or the stream ends",
               "vf/ref/optionaltags.py transcribes the June-2020 'Optional tags' section"]
SHRINK = {"tokens": "list"}

HTML_NS = "http://www.w3.org/1999/xhtml"
SVG_NS = "http://www.w3.org/2000/svg"
MATH_NS = "http://www.w3.org/1998/Math/MathML"
OMIT = "html head body li dt dd p rt rp optgroup option colgroup thead tbody tfoot tr td th caption".split()
NEIGH = """col meta link script style template a audio del ins map noscript video div span table ul ol dl hr h1 pre form address
details figure figcaption main hgroup section nav menu fieldset datagrid dialog dir select ruby title textarea x-y""".split()
ODD = "m h t l ht tm ml htm tml x htmlx bodyx pp".split()
VOID = frozenset("area base br col embed hr img input link meta param source track wbr".split())
NAMES = OMIT + NEIGH + ODD


def _filter(tokens):
    from html5lib.filters.optionaltags import Filter
    return list(Filter(tokens))


def _desc(t):
    ty = t["type"]
    if ty in ("StartTag", "EndTag", "EmptyTag"):
        ns = t.get("namespace")
        return "%s %s%s%s" % (ty, {None: "", HTML_NS: "", SVG_NS: "svg:", MATH_NS: "math:"}.get(ns, "?:"), t["name"],
                              " +attrs" if t.get("data") else "")
    return ty


def _snap(tokens):
    return [dict(t, data=dict(t["data"])) if isinstance(t.get("data"), dict) else dict(t) for t in tokens]


def _judge_removed(tokens, kept, nontrivial):
    """every token with kept[i] false must be one the standard allows to omit between its neighbours -> (failing Verdict | None, known finding | None)"""
    known = None
    for i, t in enumerate(tokens):
        if kept[i]:
            continue
        prev = tokens[i - 1] if i > 0 else None
        nxt = tokens[i + 1] if i + 1 < len(tokens) else None
        if t["type"] not in ("StartTag", "EndTag"):
            return Verdict("fail", "removed a %s token" % t["type"], "removed-non-tag", nontrivial=nontrivial), known
        if t["type"] == "StartTag" and t["data"]:
            return Verdict("fail", "removed a start tag with attributes: %s" % short(t), "removed-with-attrs", nontrivial=nontrivial), known
        if not ref.may_omit(t, prev, nxt, prev_removed=(i > 0 and not kept[i - 1])):
            # recorded defects the repository's own (pinned) tests demand; exact triggers only
            if (t["type"] == "EndTag" and t["name"] == "tfoot" and ref.is_html(t) and nxt is not None and nxt["type"] == "StartTag"
                    and nxt["name"] == "tbody" and ref.is_html(nxt) and active("C13-tfoot-before-tbody")):
                known = known or "C13-tfoot-before-tbody"
                continue
            if (t["type"] == "EndTag" and t["name"] == "p" and ref.is_html(t) and nxt is not None and nxt["type"] in ("StartTag", "EmptyTag")
                    and nxt["name"] in ("datagrid", "dialog", "dir") and ref.is_html(nxt) and active("C13-p-before-legacy-names")):
                known = known or "C13-p-before-legacy-names"
                continue
            what = "[%s] removed between [%s] and [%s]" % (_desc(t), _desc(prev) if prev else "start of stream",
                                                            _desc(nxt) if nxt else "end of stream")
            if not ref.is_html(t):
                bucket = "removed-foreign"
            elif t["name"] not in OMIT:
                bucket = "removed-not-omittable-name"
            else:
                bucket = "removed-not-allowed:%s:%s" % (t["type"], t["name"])
            return Verdict("fail", what + " - the standard does not allow omitting it there", bucket, nontrivial=nontrivial), known
    return None, known


def check_stream(tokens):
    before = _snap(tokens)
    try:
        out = _filter(tokens)
    except Exception as e:
        return Verdict("fail", "filter raised %r" % (e,), "exception:" + type(e).__name__)
    nontrivial = any(t["type"] in ("StartTag", "EndTag") and t["name"] in OMIT for t in tokens)
    # subsequence by identity
    kept = [False] * len(tokens)
    j = 0
    for o in out:
        while j < len(tokens) and tokens[j] is not o:
            j += 1
        if j == len(tokens):
            return Verdict("fail", "output token %s is not one of the input tokens in order (added, duplicated or reordered)" % short(o),
                           "not-subsequence", nontrivial=nontrivial)
        kept[j] = True
        j += 1
    for i, t in enumerate(tokens):
        if t != before[i]:
            return Verdict("fail", "token %d was modified: %s -> %s" % (i, short(before[i]), short(t)), "token-modified", nontrivial=nontrivial)
    bad, known = _judge_removed(tokens, kept, nontrivial)
    if bad is not None:
        return bad
    sig = sig64(tuple(_desc(t) for t in tokens))
    if known:
        return Verdict("known", finding=known, nontrivial=nontrivial, sig=sig)
    return Verdict("pass", nontrivial=nontrivial, sig=sig)


def build(case_tokens):
    out = []
    for t in case_tokens:
        t = dict(t)
        if t["type"] in ("StartTag", "EmptyTag"):
            t["data"] = {(None, k): v for k, v in (t.get("attrs") or [])}
            t.pop("attrs", None)
        out.append(t)
    return out


# --- serializer level: the filter inside HTMLSerializer, after the other filters the serializer installs ------------------------------
_LEX_VOID = frozenset("area base br col embed hr img input link meta param source track wbr basefont bgsound frame keygen".split())
SER_OPTS = [{"sanitize": True}, {"sanitize": True, "strip_whitespace": True}, {"sanitize": True, "alphabetical_attributes": True, "quote_attr_values": "always"},
            {"strip_whitespace": True}, {"sanitize": True, "minimize_boolean_attributes": False, "use_trailing_solidus": True}]


def lex_tokens(markup):
    """the rendered markup as walker-format tokens, read by the reference lexer (HTML content only; raw-text states follow the start tags)"""
    from vf.ref.tokenizer import RefTokenizer, normalize_newlines
    tok = RefTokenizer(normalize_newlines(markup))
    out = []
    while True:
        t = tok.next_token()
        if t[0] == "eof":
            return out
        if t[0] == "chars":
            if out and out[-1]["type"] == "Characters":
                out[-1]["data"] += t[1]
            else:
                out.append({"type": "Characters", "data": t[1]})
        elif t[0] == "start":
            out.append({"type": "EmptyTag" if t[1] in _LEX_VOID else "StartTag", "name": t[1], "namespace": HTML_NS, "data": {(None, k): v for k, v in t[2]}})
            if t[1] in ("title", "textarea"):
                tok.state = "rcdata"
            elif t[1] in ("style", "xmp", "iframe", "noembed", "noframes"):
                tok.state = "rawtext"
            elif t[1] == "script":
                tok.state = "script_data"
        elif t[0] == "end":
            out.append({"type": "EndTag", "name": t[1], "namespace": HTML_NS})
        elif t[0] == "comment":
            out.append({"type": "Comment", "data": t[1]})
        elif t[0] == "doctype":
            out.append({"type": "Doctype", "name": t[1]})


def check_serializer_doc(case):
    """The property's first clause observed where the serializer applies the filter: the tags missing from render(omit_optional_tags=True)
    relative to render(omit_optional_tags=False), other options equal, must be omittable between the neighbours they have in the
    final markup (so the filter has to see the tokens as the other configured filters leave them)."""
    import warnings
    from html5lib.serializer import HTMLSerializer
    from vf import h5
    from vf.gen import conforming as G
    from vf.props.c07 import noscript_text_trigger
    doc, opts = case["doc"], dict(case["opts"])
    if noscript_text_trigger(doc):
        return Verdict("excluded", finding="noscript text written raw by the serializer (recorded under C07)")
    names = set(n[1] for n in G.walk_nodes(doc) if n[0] == "e")
    if names & {"svg", "math", "plaintext"}:
        return Verdict("excluded", finding="foreign content (the lexer-level view has no namespaces)")
    tree, _ = h5.parse(G.writer(doc), builder=case.get("walker", "etree"), full_tree=True)
    with warnings.catch_warnings():
        warnings.simplefilter("ignore")
        full = HTMLSerializer(omit_optional_tags=False, **opts).render(h5.walk(tree, case.get("walker", "etree")))
        omitted = HTMLSerializer(omit_optional_tags=True, **opts).render(h5.walk(tree, case.get("walker", "etree")))
    a, b = lex_tokens(full), lex_tokens(omitted)
    kept = [False] * len(a)
    j = 0
    for i, t in enumerate(a):
        if j < len(b) and b[j] == t:
            kept[i] = True
            j += 1
    nontrivial = not all(kept)
    if j != len(b):
        return Verdict("fail", "render(omit_optional_tags=True) is not render(omit_optional_tags=False) minus some tags: token %s has no counterpart; options %s\nfull    %s\nomitted %s"
                       % (short(b[j]), opts, short(full, 300), short(omitted, 300)), "serializer:not-subsequence", nontrivial=True)
    bad, known = _judge_removed(a, kept, nontrivial)
    if bad is not None:
        bad.what = "serializer options %s: %s\nfull    %s\nomitted %s" % (opts, bad.what, short(full, 300), short(omitted, 300))
        bad.bucket = "serializer:" + bad.bucket
        return bad
    sig = sig64(omitted, sorted(opts.items()))
    if known:
        return Verdict("known", finding=known, nontrivial=nontrivial, sig=sig)
    return Verdict("pass", nontrivial=nontrivial, sig=sig, classes=["serializer-level"])


def check_case(case):
    if case.get("kind") == "serdoc":
        return check_serializer_doc(case)
    if case.get("kind") == "doc":
        return check_doc(case)
    return check_stream(build(case["tokens"]))


def check_doc(case):
    """Clause 2: for conforming documents the filtered stream parses to the same tree."""
    from vf.gen import conforming
    return conforming.check_optional_tags_equivalence(case)


# ---------------------------------------------------------------------------
def _tag(ty, name, ns=None, attrs=None):
    t = {"type": ty, "name": name, "namespace": ns if ns else HTML_NS}
    if ty != "EndTag":
        t["attrs"] = attrs or []
    return t


_ns = st.sampled_from([HTML_NS] * 8 + [None, SVG_NS, MATH_NS])
_name = st.one_of(st.sampled_from(OMIT), st.sampled_from(OMIT), st.sampled_from(NEIGH), st.sampled_from(ODD))
_attrs = st.sampled_from([[], [], [], [["class", "x"]], [["a", ""]]])
_chars = st.sampled_from(["x", "a b", "é", "<", "-"])
_other = st.one_of(
    st.builds(lambda d: {"type": "Characters", "data": d}, _chars),
    st.builds(lambda d: {"type": "SpaceCharacters", "data": d}, st.sampled_from([" ", "\n", "\t \n"])),
    st.builds(lambda d: {"type": "Comment", "data": d}, st.sampled_from(["c", ""])),
    st.just({"type": "Doctype", "name": "html", "publicId": None, "systemId": None}),
    st.just({"type": "Entity", "name": "amp"}),
)


@st.composite
def _tree_stream(draw, depth=0):
    """A balanced stream: sequence of elements / other tokens."""
    out = []
    n = draw(st.integers(0, 4 if depth < 3 else 1))
    for _ in range(n):
        k = draw(st.integers(0, 9))
        if k <= 6:
            name, ns, attrs = draw(_name), draw(_ns), draw(_attrs)
            if name in VOID and ns in (None, HTML_NS):
                out.append(_tag("EmptyTag", name, ns, attrs))
            else:
                out.append(_tag("StartTag", name, ns, attrs))
                if depth < 4:
                    out.extend(draw(_tree_stream(depth=depth + 1)))
                out.append(_tag("EndTag", name, ns))
        else:
            out.append(draw(_other))
    return out


_free_token = st.one_of(
    st.builds(lambda ty, n, ns, a: _tag(ty, n, ns, a), st.sampled_from(["StartTag", "StartTag", "EndTag", "EndTag", "EmptyTag"]), _name, _ns, _attrs),
    _other)
_free_stream = st.lists(_free_token, min_size=1, max_size=8)
# longer runs of sibling elements from a small vocabulary: the same (token, next) situation recurs within one stream with
# different predecessors (state carried from one decision to the next inside the filter shows up only here)
_SIB = ["tbody", "thead", "tfoot", "tr", "td", "th", "colgroup", "li", "p", "option", "optgroup", "dt", "dd", "rt", "rp", "caption", "div"]


@st.composite
def _sibling_run(draw):
    out = []
    n = draw(st.integers(3, 9))
    for _ in range(n):
        name = draw(st.sampled_from(_SIB))
        attrs = draw(st.sampled_from([[], [], [], [["a", "1"]]]))
        out.append(_tag("StartTag", name, None, attrs))
        k = draw(st.integers(0, 5))
        if k <= 1:
            inner = draw(st.sampled_from(["tr", "td", "li", "col", "option", "p", "span"]))
            if inner == "col":
                out.append(_tag("EmptyTag", "col"))
            else:
                out.append(_tag("StartTag", inner))
                if draw(st.booleans()):
                    out.append({"type": "Characters", "data": "x"})
                out.append(_tag("EndTag", inner))
        elif k == 2:
            out.append({"type": "Characters", "data": "x"})
        elif k == 3:
            out.append({"type": "SpaceCharacters", "data": " "})
        out.append(_tag("EndTag", name))
        if draw(st.integers(0, 7)) == 0:
            out.append(draw(st.sampled_from([{"type": "SpaceCharacters", "data": " "}, {"type": "Comment", "data": "c"}])))
    wrap = draw(st.sampled_from(["table", "ul", "select", "dl", "div", None]))
    if wrap:
        out = [_tag("StartTag", wrap)] + out + [_tag("EndTag", wrap)]
    return out


_stream = st.one_of(_tree_stream(), _tree_stream(), _free_stream, _sibling_run(), _sibling_run())


def _alphabet():
    al = []
    for n in NAMES:
        al.append(_tag("StartTag" if n not in VOID else "EmptyTag", n))
        al.append(_tag("EndTag", n))
    for n in ("p", "li", "td", "tr", "option", "html", "body", "title", "colgroup"):
        al.append(_tag("StartTag", n, SVG_NS))
        al.append(_tag("EndTag", n, SVG_NS))
    al.append(_tag("StartTag", "p", None, [["class", "x"]]))
    al.append(_tag("StartTag", "tbody", None, [["class", "x"]]))
    al.append(_tag("StartTag", "html", None, [["lang", "en"]]))
    al.append(_tag("StartTag", "body", None, [["a", ""]]))
    al += [{"type": "Characters", "data": "x"}, {"type": "SpaceCharacters", "data": " "}, {"type": "Comment", "data": "c"},
           {"type": "Doctype", "name": "html", "publicId": None, "systemId": None}, {"type": "Entity", "name": "amp"}, None]
    return al


def shards(tier):
    quick = tier == "quick"
    out = [{"kind": "hyp", "n": 2500 if quick else 80000} for _ in range(8)]
    out += [{"kind": "triples", "part": i, "of": 8, "stride": 9 if quick else 1} for i in range(8)]
    try:
        from vf.gen import conforming  # noqa
        out += [{"kind": "docs", "n": 250 if quick else 8000} for _ in range(4)]
        out += [{"kind": "serdocs", "n": 250 if quick else 8000} for _ in range(2)]
        out += [{"kind": "family", "part": i, "of": 2} for i in range(2)]
    except ImportError:
        pass
    return out


def run_shard(desc, seed, tier):
    acc = Acc()
    kind = desc["kind"]
    if kind == "hyp":
        def fn(tokens):
            case = {"tokens": tokens}
            acc.add(case, check_case(case))
        drive(_stream, fn, desc["n"], seed)
    elif kind == "triples":
        al = _alphabet()
        mids = [t for t in al if t is not None and t["type"] in ("StartTag", "EndTag")]
        mine = mids[desc["part"]::desc["of"]]
        k = 0
        off = seed % desc["stride"]
        n = 0
        for mid in mine:
            full = mid["name"] in OMIT and ref.is_html(mid)    # the rules' own names: every triple, in both tiers
            for prev in al:
                for nxt in al:
                    k += 1
                    if not full and k % desc["stride"] != off:
                        continue
                    toks = [t for t in (prev, mid, nxt) if t is not None]
                    case = {"tokens": _snap(toks)}
                    acc.add(case, check_case(case))
                    n += 1
        acc.extra["triples_enumerated"] = n
        acc.exhaustive = desc["stride"] == 1
    elif kind == "serdocs":
        from vf.gen import conforming

        def fn(x):
            doc, k, walker = x
            case = {"kind": "serdoc", "doc": doc, "opts": SER_OPTS[k], "walker": walker}
            acc.add(case, check_case(case))
        drive(st.tuples(conforming._doc_strategy(30), st.integers(0, len(SER_OPTS) - 1), st.sampled_from(["etree", "dom"])), fn, desc["n"], seed)
    elif kind == "family":
        # hand-written conforming documents, at least one per optional-tag rule of the standard and per document-level rule
        # (empty head / body, comments and white space around them), every tag written out; both walkers; every permitted DOCTYPE
        from vf.gen import conforming
        for k, markup in enumerate(conforming.family_documents()):
            if k % desc["of"] != desc["part"]:
                continue
            for walker in ("etree", "dom"):
                case = {"kind": "doc", "markup": markup, "walker": walker}
                if k % 3 == 0:
                    case["doctype_variant"] = 1
                acc.add(case, check_case(case), sample={"kind": "family", "markup": short(markup, 200)})
    else:
        from vf.gen import conforming
        conforming.run_optional_tags_docs(acc, desc["n"], seed)
    return acc


def finish(cov, total, tier):
    cov["exhaustive"] = False


def shrink_extra(case, fails):
    if case.get("kind") not in ("doc", "serdoc") or "doc" not in case:
        return case
    from vf.gen import conforming

    def f(doc):
        c = dict(case)
        c["doc"] = doc
        return fails(c)
    c = dict(case)
    c["doc"] = conforming.shrink_doc(case["doc"], f, budget=400)
    return c
