"""C15 - encoded serializations declare their encoding and decode to the same tree."""
import codecs
import copy

from hypothesis import strategies as st

from vf import h5, obs
from vf.core import Acc, Verdict, active, drive, guarded, short, sig64
from vf.gen import conforming as G
from vf.gen.soup import Dec, sized_binary

ID = "C15"
TECHNIQUE = ("model-based round-trip property-based testing: conforming documents with generated <meta> declarations are serialized with an output encoding; the bytes, parsed with no hints, "
             "must report that encoding and give the tree predicted by a tree-level model of the inject-meta-charset filter applied to the unencoded tree")
RULE = ("Conforming documents (vf/gen/conforming.py) whose head holds 0..3 extra meta elements (charset=, http-equiv content-type in both attribute orders and spellings, unrelated metas) at any "
        "position, optionally a meta in body, optionally > 1024 bytes before <head> (long comment / html attribute), with non-ASCII and astral text and attribute values; comments are constructed "
        "inside the codec's repertoire; x 48 output labels (nine of them underscore / colon spellings without a hyphenated twin) that both Python's codecs and webencodings accept (ASCII-compatible; utf-16 only as a pinned finding) x optional-tag omission on/off x "
        "walker. Oracle: parse(bytes) with no hints reports documentEncoding == webencodings.lookup(label).name; its tree == model(tree of the document): every meta with a charset attribute gets "
        "the label, every http-equiv=content-type meta with content gets 'text/html; charset=<label>', and if the head had none a <meta charset> is its first child; a declaration for the encoding is "
        "inside head. Non-trivial = the document has non-ASCII characters the codec cannot express or >= 1 pre-existing declaration or > 1024 bytes before head; distinct = (document, label, omission).")
ASSUMPTIONS = ["'supported output encoding label' = accepted by codecs.lookup and by webencodings.lookup, ASCII-compatible",
               "the expected documentEncoding is webencodings' canonical name of the label (ascii/iso-8859-1 -> windows-1252)",
               "text inside script/style is kept inside the codec's repertoire (character references are not decoded there: recorded under C07)"]
SHRINK = {}

LABELS = ["utf-8", "utf8", "UTF-8", "ascii", "us-ascii", "iso-8859-1", "latin1", "windows-1252", "cp1252", "iso-8859-2", "latin2", "iso-8859-5", "iso-8859-7", "greek", "iso-8859-15",
          "koi8-r", "koi8-u", "windows-1250", "windows-1251", "cp1251", "windows-1253", "windows-1254", "windows-1255", "windows-1256", "windows-1257", "windows-1258", "ibm866", "cp866",
          "macintosh", "shift_jis", "sjis", "euc-jp", "euc-kr", "gbk", "gb2312", "gb18030", "big5", "iso-8859-4", "iso-8859-13", "iso-8859-9",
          # labels with an underscore whose hyphenated spelling is NOT a label (a reader that "tidies" labels loses them)
          "ks_c_5601-1987", "elot_928", "iso_8859-2:1987", "iso_8859-5:1988", "iso_8859-7:1987", "ansi_x3.4-1968", "ecma-118", "csisolatin2", "x-mac-roman"]


def usable_labels():
    import webencodings
    out = []
    for lab in LABELS:
        try:
            codecs.lookup(lab)
        except LookupError:
            continue
        if webencodings.lookup(lab) is None:
            continue
        out.append(lab)
    return out


def add_metas(doc, dec, enc):
    """insert generated meta declarations; keep comments/raw text inside the codec's repertoire"""
    head = doc["html"][4][0]
    body = doc["html"][4][1]
    H = G.HTML_NS
    n = dec.below(4)
    placements = []
    for _ in range(n):
        k = dec.below(8)
        lab = dec.pick(["utf-8", "koi8-r", "windows-1252", "shift_jis", "bogus", "UTF-16", ""])
        if k == 0:
            m = ["e", H, "meta", [[None, "charset", lab]], []]
        elif k == 1:
            m = ["e", H, "meta", [[None, "http-equiv", "Content-Type"], [None, "content", "text/html; charset=" + lab]], []]
        elif k == 2:
            m = ["e", H, "meta", [[None, "content", "text/html;charset=" + lab], [None, "http-equiv", "content-type"]], []]
        elif k == 3:
            m = ["e", H, "meta", [[None, "name", "x"], [None, "charset", lab]], []]
        elif k == 4:
            m = ["e", H, "meta", [[None, "http-equiv", "refresh"], [None, "content", "1;charset=" + lab]], []]
        elif k == 5:
            m = ["e", H, "meta", [[None, "http-equiv", "CONTENT-TYPE"], [None, "content", "x"]], []]
        elif k == 6:
            m = ["e", H, "meta", [[None, "http-equiv", "content-type"]], []]
        else:
            m = ["e", H, "meta", [[None, "charset", lab], [None, "http-equiv", "content-type"], [None, "content", "text/html; charset=koi8-r"]], []]
        if dec.below(7) == 0:
            # inside a noscript element in head (the parser is in its own insertion mode there)
            head[4].insert(dec.below(len(head[4]) + 1), ["e", H, "noscript", [], [m]])
            placements.append("head-noscript")
        elif dec.below(6) == 0:
            body[4].insert(dec.below(len(body[4]) + 1), m)
            placements.append("body")
        else:
            head[4].insert(dec.below(len(head[4]) + 1), m)
            placements.append("head")
    if dec.below(4) == 0:
        # something that only looks like a declaration to a byte-level prescan: text of a script/style element in head.  The tree
        # constructor never sees it as a meta element, so a later real (or the injected) declaration still has to win.
        fake = dec.pick(['var s = "<meta charset=koi8-r>";', '<meta http-equiv="Content-Type" content="text/html; charset=shift_jis">', "/* <meta charset='windows-1251'> */",
                         "<meta charset=utf-16le>"])
        head[4].insert(dec.below(len(head[4]) + 1), ["e", H, dec.pick(["script", "style"]), [], [["t", fake]]])
        placements.append("fake-in-rawtext")
    if dec.below(12) == 0:
        # more than one 10240-byte stream read before the first declaration
        doc["pre"].append(["c", " pad " * (2050 + dec.below(8) * 512)])
        placements.append(">10240-before-head")
    elif dec.below(5) == 0:
        doc["pre"].append(["c", " pad " * 230])
        placements.append(">1024-before-head")
    elif dec.below(6) == 0:
        doc["html"][3].append([None, "data-pad", "x" * 1100])
        placements.append(">1024-before-head")

    # keep what cannot carry character references inside the repertoire of the codec
    def fit(s):
        return s.encode(enc, "ignore").decode(enc)
    for c in doc["pre"] + doc["post"]:
        c[1] = fit(c[1])
    for nnode in G.walk_nodes(doc):
        if nnode[0] == "c":
            nnode[1] = fit(nnode[1])
        elif nnode[0] == "e" and nnode[1] == H and nnode[2] in ("script", "style"):
            for c in nnode[4]:
                if c[0] == "t":
                    c[1] = fit(c[1])
            nnode[4][:] = [c for c in nnode[4] if not (c[0] == "t" and c[1] == "")]
    return placements


def model(fl, enc):
    """Tree-level model of the inject-meta-charset filter on a flat document tree (3-tuple attributes)."""
    out = []
    head_at = None
    head_depth = None
    in_head = False
    found_in_head = False
    for i, r in enumerate(fl):
        if in_head and r[0] <= head_depth:
            in_head = False
        if r[1] == "elem" and r[3] == "head" and head_at is None and r[2] in (None, G.HTML_NS):
            head_at = len(out)
            head_depth = r[0]
            in_head = True
            out.append(r)
            continue
        if r[1] == "elem" and r[3] == "meta" and r[2] in (None, G.HTML_NS):
            attrs = list(r[4])
            changed = False
            pragma = False
            for j, a in enumerate(attrs):
                if a[0] is not None:
                    continue
                if a[1].lower() == "charset":
                    attrs[j] = (a[0], a[1], enc)
                    changed = True
                    break
                if a[1] == "http-equiv" and a[2].lower() == "content-type":
                    pragma = True
            else:
                if pragma:
                    for j, a in enumerate(attrs):
                        if a[0] is None and a[1] == "content":
                            attrs[j] = (None, "content", "text/html; charset=%s" % enc)
                            changed = True
            if changed and in_head:
                found_in_head = True
            out.append((r[0], "elem", r[2], r[3], tuple(attrs)))
            continue
        out.append(r)
    if head_at is not None and not found_in_head:
        out.insert(head_at + 1, (head_depth + 1, "elem", G.HTML_NS, "meta", ((None, "charset", enc),)))
    return out


class _ReadOnly(object):
    def __init__(self, data):
        import io
        self._b = io.BytesIO(data)

    def read(self, n=-1):
        return self._b.read(n)


@guarded(60)
def check_case(case):
    if case.get("kind") == "chars":
        from vf.props import c07
        return c07.check_chars(case, "C15")
    import webencodings
    from html5lib.serializer import HTMLSerializer
    doc, enc, omit, walker = case["doc"], case["encoding"], bool(case.get("omit")), case.get("walker", "etree")
    want_name = webencodings.lookup(enc).name
    from vf.props.c07 import noscript_text_trigger
    if noscript_text_trigger(doc):
        return Verdict("excluded", finding="noscript text written raw by the serializer (recorded under C07)")
    markup = G.writer(doc)
    tree, p0 = h5.parse(markup, builder=walker, full_tree=True)
    base = obs.flat(tree)
    if obs.clarkify(base) != obs.clarkify(G.flat(doc)):
        return Verdict("excluded", finding="generated tree not parsed back from the explicit writer (C01-class deviation)")
    ser = HTMLSerializer(omit_optional_tags=omit, quote_attr_values="always", minimize_boolean_attributes=False)
    try:
        out = ser.render(h5.walk(tree, walker), enc)
    except Exception as e:
        return Verdict("fail", "render(encoding=%r) raised %s: %s on %s" % (enc, type(e).__name__, short(str(e), 100), short(markup, 200)), "exception:" + type(e).__name__, nontrivial=True)
    feats, n_el = G.features(doc)
    text_all = "".join(n[1] for n in G.walk_nodes(doc) if n[0] == "t") + "".join(a[2] for n in G.walk_nodes(doc) if n[0] == "e" for a in n[3])
    unenc = False
    try:
        text_all.encode(enc)
    except UnicodeEncodeError:
        unenc = True
    nontrivial = unenc or bool(case.get("placements"))
    # a reader with scripting enabled takes noscript content as raw text, where the character references the serializer must write for
    # unencodable characters stay literal (the serializer cannot know its reader): the scripting leg is for documents without them
    scripting = bool(case.get("scripting")) and not unenc
    sig = sig64(markup, enc, omit)
    classes = ["enc:" + want_name] + ["place:" + x for x in (case.get("placements") or [])] + (["unencodable-text"] if unenc else [])
    p = h5.parser("etree", True, full_tree=True)
    try:
        # the bytes as bytes, as a seekable stream and as a stream that can only be read (a socket, a pipe)
        how = case.get("source", "bytes")
        if how == "bytesio":
            import io
            src = io.BytesIO(out)
        elif how == "stream":
            src = _ReadOnly(out)
        else:
            src = out
        r2 = p.parse(src, scripting=scripting)
    except Exception as e:
        return Verdict("fail", "parsing the encoded output raised %s" % type(e).__name__, "reparse-exception", nontrivial=nontrivial)
    got_enc = p.documentEncoding
    cfg = "label=%r omit=%s walker=%s placements=%s scripting=%s\noutput %s" % (enc, omit, walker, case.get("placements"), scripting, short(out, 500))
    if want_name.startswith("utf-16") and active("C15-utf16-output"):
        # recorded: every output chunk is encoded on its own (one BOM per chunk) and a UTF-16 <meta> means UTF-8 to the reader
        if got_enc != want_name or obs.clarkify(obs.flat(r2)) != obs.clarkify(model(base, enc)):
            return Verdict("known", finding="C15-utf16-output", nontrivial=True, sig=sig, classes=classes)
    if got_enc != want_name:
        return Verdict("fail", "bytes serialized as %r are decoded as %s when parsed without hints; %s" % (enc, got_enc, cfg), "not-declared:" + str(got_enc), nontrivial=nontrivial, classes=classes)
    # the property compares with the tree of the *unencoded* serialization (same options), which factors out the
    # serializer's own round-trip defects (C07)
    ser_u = HTMLSerializer(omit_optional_tags=omit, quote_attr_values="always", minimize_boolean_attributes=False)
    base_u, _ = h5.parse(ser_u.render(h5.walk(tree, walker)), builder="etree", full_tree=True, scripting=scripting)
    want = obs.clarkify(model(obs.flat(base_u), enc))
    got = obs.clarkify(obs.flat(r2))
    if got != want:
        # recorded: omission of optional tags / boolean values etc. are other properties' business (C07); here only omission can interfere
        d = obs.first_diff(want, got)
        fid = None
        if _c1_or_codec_mismatch(text_all, enc, want_name) and active("C15-codec-disagrees-with-label"):
            fid = "C15-codec-disagrees-with-label"
        if fid:
            return Verdict("known", finding=fid, nontrivial=nontrivial, sig=sig, classes=classes)
        return Verdict("fail", "tree of the encoded bytes differs from the model at record %d: expected %s, got %s; %s" % (d[0], short(d[1], 160), short(d[2], 160), cfg),
                       "tree:%s" % (d[1][1] if d[1] else "-"), nontrivial=nontrivial, sig=sig, classes=classes)
    # a declaration inside head
    depth_head = None
    ok = False
    for r in got:
        if r[1] == "elem" and r[3] == "head":
            depth_head = r[0]
            continue
        if depth_head is not None:
            if r[0] <= depth_head:
                break
            if r[1] == "elem" and r[3] == "meta":
                d_ = dict(r[4])
                if d_.get("charset") == enc or ("charset=%s" % enc) in d_.get("content", ""):
                    ok = True
    if not ok:
        return Verdict("fail", "no <meta> declaring %r inside head; %s" % (enc, cfg), "no-meta-in-head", nontrivial=nontrivial, sig=sig, classes=classes)
    return Verdict("pass", nontrivial=nontrivial, sig=sig, classes=classes)


def _c1_or_codec_mismatch(text, enc, want_name):
    """Python's codec for the label and the decoder the label denotes disagree on a character of the document."""
    import webencodings
    try:
        b = text.encode(enc, "ignore")
        back = webencodings.lookup(enc).codec_info.decode(b, "replace")[0]
        return back != b.decode(enc, "replace")
    except Exception:
        return False


def shrink_extra(case, fails):
    if "doc" not in case:
        return case
    def f(doc):
        c = dict(case)
        c["doc"] = doc
        return fails(c)
    c = dict(case)
    c["doc"] = G.shrink_doc(case["doc"], f, budget=300)
    return c


def shards(tier):
    quick = tier == "quick"
    return [{"kind": "hyp", "n": 2500 if quick else 30000} for _ in range(16)] + [{"kind": "chars", "part": i, "of": 2} for i in range(2)] + [{"kind": "family"}]


def run_shard(desc, seed, tier):
    acc = Acc()
    if desc["kind"] == "chars":
        # 'every character the encoding cannot express is written as a character reference': all code points, in runs
        from vf.props import c07
        c07.run_chars(acc, desc["part"], desc["of"], ["ascii", "windows-1251", "koi8-r", "iso-8859-15", "macintosh", "euc-kr", "gbk"], "C15")
        return acc
    if desc["kind"] == "family":
        # hand-built documents with characters the output encoding cannot express at the places where the form of a character reference
        # matters to a reader: first in pre / listing / textarea, before and after a newline there, in attribute values, table cells,
        # option text, title - independent of generator statistics
        E, T = G.E, G.T
        texts = ["\u00e9\nsecond line", "\n\u00e9", "a\n\u0436\nb", "\u00e9", "x \u8a9e y", "\U0001f600\n", "\u00e9 &amp; \u0436", " \u00e9 ", "\u0436\r", "<\u00e9>"]
        n = 0
        for ti, tx in enumerate(texts):
            bodies = [E("pre", [], [T(tx)]), E("listing", [], [T(tx)]), E("textarea", [], [T(tx)]), E("p", [[None, "title", tx]], [T(tx)]),
                      E("table", [], [E("tbody", [], [E("tr", [], [E("td", [], [T(tx)])])])]), E("select", [], [E("option", [], [T(tx)])]),
                      E("pre", [], [E("b", [], [T(tx)]), T(tx)]), E("div", [], [E("pre", [], [T("x"), E("i", [], []), T(tx)])])]
            for bi, b in enumerate(bodies):
                doc = {"doctype": True, "pre": [], "post": [],
                       "html": E("html", [], [E("head", [], [E("title", [], [T("t" + (tx if "<" not in tx else ""))])]), E("body", [], [b])])}
                for enc in ("ascii", "koi8-r", "shift_jis", "windows-1252", "utf-8")[(n % 2):][:3]:
                    n += 1
                    case = {"doc": doc, "encoding": enc, "omit": bool(n % 2), "walker": "dom" if n % 3 == 0 else "etree", "placements": [], "source": "bytes"}
                    acc.add(case, check_case(case), sample={"markup": short(G.writer(doc), 200), "encoding": enc})
        return acc
    labels = usable_labels()

    def fn(x):
        data, cfg = x
        dec = Dec(cfg)
        enc = dec.pick(labels)
        doc = G.decode_document(data, size=30, always_doctype=True)
        placements = add_metas(doc, dec, enc)
        case = {"doc": doc, "encoding": enc, "omit": bool(dec.below(2)), "walker": dec.pick(["etree", "dom"]), "placements": placements,
                "source": dec.pick(["bytes", "bytes", "bytesio", "stream", "stream"])}
        if data and data[-1] % 3 == 0 and "head-noscript" not in placements:
            # a parser option, not an encoding hint: both parses below use it.  (Not with a declaration inside <noscript> in head:
            # to a reader with scripting enabled that is text, and the model of the expected tree is written for scripting off.)
            case["scripting"] = True
        acc.add(case, check_case(case), sample={"markup": short(G.writer(doc), 300), "encoding": enc})
    drive(st.tuples(sized_binary(20, 200), st.binary(min_size=26, max_size=26)), fn, desc["n"], seed)
    acc.extra["labels_used"] = len(labels)
    return acc
