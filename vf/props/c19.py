"""C19 - SAX adapter delivers a well-nested event stream equal to the tree."""
import xml.dom.pulldom
import xml.sax.handler

from hypothesis import strategies as st

from vf import h5, obs
from vf.core import Acc, Verdict, active, drive, guarded, short, sig64
from vf.gen import soup
from vf.props.c11 import _void_with_children

ID = "C19"
TECHNIQUE = ("round-trip property-based testing of treeadapters.sax.to_sax: a recording ContentHandler validates the event grammar, a tree rebuilt from the events "
             "(own builder, and independently xml.dom.pulldom.SAX2DOM) must equal the directly traversed source tree minus comments/doctype")
RULE = ("Trees parsed from Hypothesis markup soup (void elements, SVG/MathML subtrees, xlink:/xml:/xmlns attributes, namespacing on and off; documents and fragments) "
        "are walked by the etree and dom walkers and fed to to_sax. Oracle: exactly one startDocument first and one endDocument last, every startPrefixMapping closed by an "
        "endPrefixMapping, startElementNS/endElementNS properly nested with matching (namespace, name), nothing after endDocument; the tree rebuilt from the events has the same "
        "elements, namespaces, attributes (as mappings) and text as the source tree without comments and doctype; for documents xml.dom.pulldom.SAX2DOM builds the same tree. "
        "Non-trivial = the tree has a void or foreign element or a namespaced attribute and depth >= 3; distinct = distinct tree-shape hash.")
ASSUMPTIONS = ["comments and the doctype are omitted by design (property statement)", "attributes are compared as mappings: SAX attribute sets are unordered"]
SHRINK = {"text": "str"}

HTML_NS = "http://www.w3.org/1999/xhtml"


class Recorder(xml.sax.handler.ContentHandler):
    def __init__(self):
        self.events = []
        self.prefixes = {}       # prefix -> namespace, as announced by startPrefixMapping
        self.qname_problem = None

    def startDocument(self):
        self.events.append(("startDocument",))

    def endDocument(self):
        self.events.append(("endDocument",))

    def startPrefixMapping(self, prefix, uri):
        self.prefixes[prefix] = uri
        self.events.append(("startPrefixMapping", prefix, uri))

    def endPrefixMapping(self, prefix):
        self.events.append(("endPrefixMapping", prefix))

    def startElementNS(self, name, qname, attrs):
        items = {}
        for k in attrs.getNames():
            items[k] = attrs.getValue(k)
            if k[0] is not None and self.qname_problem is None:
                # a namespaced attribute: its qualified name has to resolve through the announced prefix mappings
                try:
                    qn = attrs.getQNameByName(k)
                    back = attrs.getNameByQName(qn)
                    val = attrs.getValueByQName(qn)
                except Exception as e:
                    self.qname_problem = "qualified name of attribute %r cannot be looked up: %s: %s" % (k, type(e).__name__, e)
                    continue
                prefix, _, local = qn.rpartition(":")
                if back != k or val != items[k] or local != k[1] or (prefix and self.prefixes.get(prefix) != k[0]):
                    self.qname_problem = "attribute %r has qualified name %r (maps back to %r, prefix %r bound to %r)" % (k, qn, back, prefix, self.prefixes.get(prefix))
        self.events.append(("startElementNS", tuple(name), qname, items))

    def endElementNS(self, name, qname):
        self.events.append(("endElementNS", tuple(name), qname))

    def characters(self, content):
        self.events.append(("characters", content))

    def startElement(self, name, attrs):
        self.events.append(("startElement", name))

    def endElement(self, name):
        self.events.append(("endElement", name))

    def ignorableWhitespace(self, ws):
        self.events.append(("characters", ws))

    def processingInstruction(self, target, data):
        self.events.append(("pi", target, data))


def grammar_violation(ev):
    if not ev or ev[0] != ("startDocument",):
        return "first event is %r, not startDocument" % (ev[0] if ev else None,)
    if ev[-1] != ("endDocument",):
        return "last event is %r, not endDocument" % (ev[-1],)
    if sum(1 for e in ev if e[0] == "startDocument") != 1 or sum(1 for e in ev if e[0] == "endDocument") != 1:
        return "startDocument/endDocument not exactly once"
    open_prefixes = {}
    stack = []
    for i, e in enumerate(ev[1:-1], 1):
        k = e[0]
        if k == "startPrefixMapping":
            open_prefixes[e[1]] = open_prefixes.get(e[1], 0) + 1
        elif k == "endPrefixMapping":
            if open_prefixes.get(e[1], 0) <= 0:
                return "event %d: endPrefixMapping(%r) without start" % (i, e[1])
            open_prefixes[e[1]] -= 1
        elif k == "startElementNS":
            stack.append(e[1])
        elif k == "endElementNS":
            if not stack:
                return "event %d: endElementNS%r with no open element" % (i, e[1])
            top = stack.pop()
            if top != e[1]:
                return "event %d: endElementNS%r closes %r" % (i, e[1], top)
        elif k == "characters":
            if not isinstance(e[1], str):
                return "event %d: characters with non-text" % i
        else:
            return "event %d: unexpected event %r" % (i, k)
    if stack:
        return "elements left open: %r" % (stack[-3:],)
    left = [p for p, n in open_prefixes.items() if n]
    if left:
        return "prefix mappings never ended: %r" % left
    return None


def rebuild(ev, root_kind):
    out = [(0, root_kind)]
    d = 1
    for e in ev:
        k = e[0]
        if k == "startElementNS":
            out.append((d, "elem", e[1][0], e[1][1], frozenset(e[3].items())))
            d += 1
        elif k == "endElementNS":
            d -= 1
        elif k == "characters":
            if out[-1][1] == "text" and out[-1][0] == d:
                out[-1] = (d, "text", out[-1][2] + e[1])
            elif e[1]:
                out.append((d, "text", e[1]))
    return out


def expected(fl):
    """source flat tree minus comments/doctype, attributes as mappings, text merged across removed comments."""
    out = [fl[0]]
    for r in fl[1:]:
        if r[1] in ("comment", "doctype"):
            continue
        if r[1] == "text":
            if out[-1][1] == "text" and out[-1][0] == r[0]:
                out[-1] = (r[0], "text", out[-1][2] + r[2])
            else:
                out.append(r)
        elif r[1] == "elem":
            out.append((r[0], "elem", r[2], r[3], frozenset(((a[0], a[1]), a[2]) for a in r[4])))
        else:
            out.append(r)
    return out


@guarded(40)
def check_case(case):
    from html5lib.treeadapters import sax
    text, container, scripting, ns = case["text"], case.get("container"), bool(case.get("scripting")), bool(case.get("namespace", True))
    doc = container is None
    nontrivial = False
    shape = None
    for builder in ("etree", "dom"):
        try:
            r, p = h5.parse(text, builder=builder, namespace=ns, scripting=scripting, container=container, full_tree=True)
        except Exception as e:
            return Verdict("excluded", finding="parse raised %s (C03's subject)" % type(e).__name__)
        fl = obs.flat(r)
        want = expected(fl)
        if shape is None:
            shape = tuple((x[0], x[1], x[3] if x[1] == "elem" else None) for x in want)
            depth = max(x[0] for x in want)
            nontrivial = depth >= 3 and any(x[1] == "elem" and (x[2] not in (None, HTML_NS) or any(k[0] for k, v in x[4]) or x[3] in ("br", "img", "input", "hr", "meta", "link"))
                                            for x in want)
        rec = Recorder()
        known_trigger = _void_with_children(fl)
        try:
            sax.to_sax(h5.walk(r, builder), rec)
        except Exception as e:
            # the recorded finding is exactly: to_sax's final 'assert False, "Unknown token type"' on the walker's SerializeError token
            if known_trigger and active("C19-void-element-with-children") and isinstance(e, AssertionError) and "Unknown token type" in str(e):
                return Verdict("known", finding="C19-void-element-with-children", nontrivial=True)
            return Verdict("fail", "to_sax raised %s: %s on the %s walk of %s" % (type(e).__name__, short(str(e), 80), builder, short(text, 150)),
                           "to_sax-exception:" + type(e).__name__, nontrivial=True)
        msg = grammar_violation(rec.events)
        if msg is None and rec.qname_problem:
            msg = rec.qname_problem
        if msg is None:
            got = rebuild(rec.events, want[0][1])
            if got != want:
                d = obs.first_diff(want, got)
                msg = "tree rebuilt from the events differs at record %d: tree %s, events %s" % (d[0], short(d[1], 140), short(d[2], 140))
        if msg is None and doc and builder == "etree":
            # independent consumer: the standard library's SAX2DOM
            h = xml.dom.pulldom.SAX2DOM()
            try:
                sax.to_sax(h5.walk(r, builder), h)
                dom = h.document
                got2 = expected(obs.flat_dom(dom))
            except Exception as e:
                got2 = None
                classes_note = "sax2dom-failed:%s" % type(e).__name__
            if got2 is not None:
                # SAX2DOM has attribute quirks of its own (it materialises prefix mappings as xmlns:* attributes, treats
                # an attribute named xmlns specially, and minidom cannot hold 'x:name' next to 'name'), so this second,
                # independent consumer is compared on elements, namespaces, nesting and text only; attributes are
                # decided by the rebuild above
                strip = lambda F: [(x[0], "elem", x[2], x[3]) if x[1] == "elem" else x for x in F]
                got2, want2 = strip(got2), strip(want)
            if got2 is not None and got2 != want2:
                d = obs.first_diff(want2, got2)
                msg = "tree built by xml.dom.pulldom.SAX2DOM differs at record %d: tree %s, SAX2DOM %s" % (d[0], short(d[1], 140), short(d[2], 140))
        if msg is not None:
            if known_trigger and active("C19-void-element-with-children"):
                return Verdict("known", finding="C19-void-element-with-children", nontrivial=True)
            return Verdict("fail", "%s walker -> to_sax: %s; input %s container=%r ns=%s" % (builder, msg, short(text, 160), container, ns),
                           "sax:" + msg.split(":")[0][:50], nontrivial=True)
    # a walker given a SUBTREE (an element that has following siblings: head, the first child of a fragment): the events describe that
    # element and nothing after it
    if not known_trigger:
        for builder in ("dom", "etree"):
            try:
                r, p = h5.parse(text, builder=builder, namespace=ns, scripting=scripting, container=container, full_tree=True)
                if builder == "dom":
                    top = r if not doc else next((c for c in r.childNodes if c.nodeType == 1), None)
                    node = next((c for c in top.childNodes if c.nodeType == 1), None) if top is not None else None
                else:
                    top = r if not doc else next((c for c in r if isinstance(c.tag, str) and c.tag != "<!DOCTYPE>"), None)
                    node = next((c for c in top if isinstance(c.tag, str)), None) if top is not None else None
                if node is None:
                    continue
                want_n = expected(obs.flat(node))
                rec_n = Recorder()
                sax.to_sax(h5.walk(node, builder), rec_n)
                msg = grammar_violation(rec_n.events)
                if msg is None:
                    got_n = rebuild(rec_n.events, want_n[0][1])
                    if got_n != want_n:
                        d = obs.first_diff(want_n, got_n)
                        msg = "tree rebuilt from the events of a SUBTREE walk differs at record %d: subtree %s, events %s" % (d[0], short(d[1], 140), short(d[2], 140))
            except Exception as e:
                msg = "to_sax over a subtree walk raised %s: %s" % (type(e).__name__, short(str(e), 80))
            if msg is not None:
                return Verdict("fail", "%s walker over a subtree -> to_sax: %s; input %s container=%r ns=%s" % (builder, msg, short(text, 160), container, ns), "sax-subtree:" + msg.split(":")[0][:50], nontrivial=True)
    # a walker over another ElementTree implementation (getTreeWalker('etree', implementation=X)), requested after the default one:
    # to_sax gives the same events whichever implementation holds the tree
    if not known_trigger:
        try:
            import html5lib
            from html5lib import treebuilders, treewalkers
            A = h5.alt_etree()
            treewalkers.getTreeWalker("etree")
            pa = html5lib.HTMLParser(treebuilders.getTreeBuilder("etree", implementation=A, fullTree=True), namespaceHTMLElements=ns)
            ra = pa.parse(text, scripting=scripting) if doc else pa.parseFragment(text, container=container, scripting=scripting)
            rec_a, rec_d = Recorder(), Recorder()
            sax.to_sax(treewalkers.getTreeWalker("etree", implementation=A)(ra), rec_a)
            r, p = h5.parse(text, builder="etree", namespace=ns, scripting=scripting, container=container, full_tree=True)
            sax.to_sax(h5.walk(r, "etree"), rec_d)
        except Exception as e:
            return Verdict("fail", "to_sax over the etree walker with implementation=<pure-Python ElementTree> raised %s: %s; input %s container=%r"
                           % (type(e).__name__, short(str(e), 100), short(text, 160), container), "alt-implementation-exception:" + type(e).__name__, nontrivial=True)
        if rec_a.events != rec_d.events:
            k = next((i for i, (a, b) in enumerate(zip(rec_a.events, rec_d.events)) if a != b), min(len(rec_a.events), len(rec_d.events)))
            return Verdict("fail", "to_sax events depend on the ElementTree implementation holding the tree: event %d is %s (pure-Python) vs %s (default); input %s"
                           % (k, short(rec_a.events[k:k + 1], 100), short(rec_d.events[k:k + 1], 100), short(text, 160)), "alt-implementation-differs", nontrivial=True)
    return Verdict("pass", nontrivial=nontrivial, sig=sig64(shape, doc, ns))


def shards(tier):
    quick = tier == "quick"
    profs = ["foreign", "foreign", "general", "table", "formatting", "head", "select", "raw"]
    return [{"kind": "hyp", "profile": profs[i % len(profs)], "n": 1500 if quick else 40000} for i in range(16)] + [{"kind": "long"}]


def run_shard(desc, seed, tier):
    acc = Acc()
    if desc["kind"] == "long":
        for text in soup.long_docs():
            case = {"text": text, "container": None, "scripting": False, "namespace": True}
            acc.add(case, check_case(case))
        return acc

    strat = st.tuples(soup.soup_text(profile=desc["profile"], max_items=40), st.one_of(st.none(), st.none(), st.sampled_from(soup.CONTEXTS)), st.booleans(), st.booleans())

    def fn(x):
        (profile, text), container, scripting, ns = x
        case = {"text": text, "container": container, "scripting": scripting, "namespace": ns}
        acc.add(case, check_case(case))
    drive(strat, fn, desc["n"], seed)
    return acc
