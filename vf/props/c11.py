"""C11 - tree walkers emit a well-formed stream that reproduces the tree."""
from hypothesis import strategies as st

from vf import h5, obs
from vf.core import Acc, Verdict, active, drive, guarded, short, sig64
from vf.gen import soup

ID = "C11"
TECHNIQUE = ("round-trip + differential property-based testing: trees parsed from generated markup soup are walked by the etree and dom walkers from "
             "several start nodes; own stream validator, html5lib's Lint filter, own rebuild(stream) == direct traversal, and etree-stream == dom-stream")
RULE = ("Trees parsed from Hypothesis markup soup (documents and fragments in 45 contexts, both builders, etree fullTree and root-element forms) are walked from the "
        "whole document, the fragment, the root element and an inner element. Oracle: (1) own validator: start/end tags balance with matching (namespace, name), void HTML elements "
        "appear as EmptyTag and never as EndTag, names non-empty, SpaceCharacters all-whitespace, Characters without leading/trailing whitespace, no other token types; (2) "
        "lint.Filter raises nothing; (3) a tree rebuilt from the stream by a 40-line builder of our own equals the direct traversal of the start node; (4) the etree and dom walkers "
        "give the same stream for the same input once adjacent character tokens are concatenated. Non-trivial = the tree has >= 6 nodes and text next to an element or a comment/doctype "
        "or a foreign attribute or depth >= 4; distinct = distinct tree-shape hash x start-node kind.")
ASSUMPTIONS = ["trees are observed by vf/obs.py (direct traversal), independent of the walkers",
               "the dom and etree trees of one input are equal up to the recorded minidom colon limitation (C04)"]
SHRINK = {"text": "str"}

WS = " \t\n\f\r"
HTML_NS = "http://www.w3.org/1999/xhtml"
VOID = None


def _void():
    global VOID
    if VOID is None:
        from html5lib.constants import voidElements
        VOID = frozenset(voidElements)
    return VOID


def validate(tokens):
    """Own validator; returns None or a message."""
    stack = []
    for i, t in enumerate(tokens):
        ty = t.get("type")
        if ty in ("StartTag", "EmptyTag", "EndTag"):
            name, ns = t.get("name"), t.get("namespace")
            if not isinstance(name, str) or name == "":
                return "token %d: empty or non-string name %r" % (i, name)
            if ns is not None and (not isinstance(ns, str) or ns == ""):
                return "token %d: bad namespace %r" % (i, ns)
            is_void = (ns in (None, HTML_NS)) and name in _void()
            if ty == "StartTag":
                if is_void:
                    return "token %d: void element %s emitted as StartTag" % (i, name)
                stack.append((ns, name))
            elif ty == "EmptyTag":
                if not is_void:
                    return "token %d: non-void element %s emitted as EmptyTag" % (i, name)
            else:
                if is_void:
                    return "token %d: EndTag for void element %s" % (i, name)
                if not stack:
                    return "token %d: EndTag %s without open element" % (i, name)
                top = stack.pop()
                if top != (ns, name):
                    return "token %d: EndTag %r closes %r" % (i, (ns, name), top)
            if ty != "EndTag":
                d = t.get("data")
                if not isinstance(d, dict):
                    return "token %d: attributes are not a dict" % i
                for k, v in d.items():
                    if not (isinstance(k, tuple) and len(k) == 2 and isinstance(k[1], str) and k[1] != "" and (k[0] is None or (isinstance(k[0], str) and k[0]))):
                        return "token %d: bad attribute key %r" % (i, k)
                    if not isinstance(v, str):
                        return "token %d: attribute value %r is not text" % (i, v)
        elif ty == "SpaceCharacters":
            d = t.get("data")
            if not isinstance(d, str) or d == "" or d.strip(WS) != "":
                return "token %d: SpaceCharacters with data %r" % (i, d)
        elif ty == "Characters":
            d = t.get("data")
            if not isinstance(d, str) or d == "" or d[0] in WS or d[-1] in WS:
                return "token %d: Characters with leading/trailing whitespace or empty: %r" % (i, d[:30] if isinstance(d, str) else d)
        elif ty == "Comment":
            if not isinstance(t.get("data"), str):
                return "token %d: comment data not text" % i
        elif ty == "Doctype":
            pass
        else:
            return "token %d: unexpected token type %r (%s)" % (i, ty, short(t.get("data"), 60))
    if stack:
        return "unclosed elements at end of stream: %r" % (stack[-3:],)
    return None


def rebuild(tokens, root_kind):
    out = [(0, root_kind)]
    d = 1
    for t in tokens:
        ty = t["type"]
        if ty == "StartTag" or ty == "EmptyTag":
            attrs = tuple((k[0], k[1], v) for k, v in t["data"].items())
            out.append((d, "elem", t["namespace"], t["name"], attrs))
            if ty == "StartTag":
                d += 1
        elif ty == "EndTag":
            d -= 1
        elif ty in ("Characters", "SpaceCharacters"):
            if out[-1][1] == "text" and out[-1][0] == d:
                out[-1] = (d, "text", out[-1][2] + t["data"])
            else:
                out.append((d, "text", t["data"]))
        elif ty == "Comment":
            out.append((d, "comment", t["data"]))
        elif ty == "Doctype":
            out.append((d, "doctype", t["name"] or "", t["publicId"] or "", t["systemId"] or ""))
    return out


def concat_chars(tokens):
    out = []
    for t in tokens:
        if t["type"] in ("Characters", "SpaceCharacters"):
            if out and out[-1]["type"] == "Characters*":
                out[-1] = {"type": "Characters*", "data": out[-1]["data"] + t["data"]}
            else:
                out.append({"type": "Characters*", "data": t["data"]})
        elif t["type"] in ("StartTag", "EmptyTag"):
            # attribute keys in Clark notation, as in C04: an ElementTree cannot tell the plain attribute '{x}y' from attribute y in
            # namespace x (it is the representation's limit, the same tree to every observer of an etree)
            out.append({"type": t["type"], "name": t["name"], "namespace": t["namespace"],
                        "data": [(("{%s}%s" % k) if k[0] else k[1], v) for k, v in t["data"].items()]})
        elif t["type"] == "Doctype":
            # a doctype name can never be the empty string: "" and None both mean "missing" (minidom stores None)
            # identifiers are compared as they are: a present-but-empty identifier ("") is not a missing one (None)
            out.append({"type": "Doctype", "name": t["name"] or "", "publicId": t["publicId"], "systemId": t["systemId"]})
        else:
            out.append(dict(t))
    return out


def start_nodes(builder, result, doc):
    """(label, node, root_kind-of-flat) start nodes for a parse result."""
    nodes = []
    if builder == "dom":
        nodes.append(("document" if doc else "fragment", result))
        # first element with children somewhere below
        n = result
        depth = 0
        while n is not None and depth < 6:
            kids = [c for c in n.childNodes if c.nodeType == 1]
            if not kids:
                break
            n = kids[-1]
            depth += 1
            if depth >= 2:
                break
        if n is not None and n is not result and n.nodeType == 1:
            nodes.append(("inner-element", n))
    else:
        nodes.append(("document" if doc else "fragment", result))
        if doc:
            for c in result:
                if isinstance(c.tag, str) and c.tag.endswith("html") and c.tag != "<!DOCTYPE>":
                    nodes.append(("root-element", c))
                    break
    return nodes


def walk(builder, node):
    return list(h5.walk(node, builder))


@guarded(40)
def check_case(case):
    from html5lib.filters import lint
    text, container, scripting = case["text"], case.get("container"), bool(case.get("scripting"))
    doc = container is None
    streams = {}
    nontrivial = False
    shape = None
    classes = []
    for builder in ("etree", "dom"):
        try:
            r, p = h5.parse(text, builder=builder, namespace=bool(case.get("namespace", True)), scripting=scripting, container=container, full_tree=True)
        except Exception as e:
            return Verdict("excluded", finding="parse raised %s (C03's subject)" % type(e).__name__)
        for label, node in start_nodes(builder, r, doc):
            want = obs.flat(node)
            try:
                toks = walk(builder, node)
            except Exception as e:
                return Verdict("fail", "%s walker raised %s: %s from %s of %s" % (builder, type(e).__name__, short(str(e), 80), label, short(text, 150)),
                               "walker-exception:%s:%s" % (builder, type(e).__name__), nontrivial=True)
            if shape is None:
                shape = tuple((x[0], x[1], x[3] if x[1] == "elem" else None) for x in want)
                depth = max(x[0] for x in want)
                kinds = {x[1] for x in want}
                nontrivial = len(want) >= 6 and (depth >= 4 or "comment" in kinds or "doctype" in kinds or any(x[1] == "elem" and any(a[0] for a in x[4]) for x in want)
                                                 or any(a[1] == "text" and b[1] == "elem" for a, b in zip(want, want[1:])))
            classes.append("start:%s:%s" % (builder, label))
            msg = validate(toks)
            void_children = _void_with_children(want)
            if msg is None:
                try:
                    for _ in lint.Filter(iter(toks)):
                        pass
                except AssertionError as e:
                    msg = "lint.Filter rejects the stream: %s" % short(str(e), 120)
                except Exception as e:
                    msg = "lint.Filter raised %s: %s" % (type(e).__name__, short(str(e), 120))
            if msg is None:
                got = rebuild(toks, want[0][1])
                if got != want:
                    d = obs.first_diff(want, got)
                    msg = "rebuilt tree differs from the walked tree at record %d: tree %s, stream %s" % (d[0], short(d[1], 120), short(d[2], 120))
            if msg is not None:
                if void_children and active("C11-void-element-with-children"):
                    # the recorded finding explains exactly this much: the children of the void-listed element are missing from the
                    # stream and a 'SerializeError' token stands in their place.  With both taken out, everything else must still hold.
                    pruned_want, skip = [], None
                    for r in want:
                        if skip is not None and r[0] > skip:
                            continue
                        skip = None
                        pruned_want.append(r)
                        if r[1] == "elem" and r[2] in (None, HTML_NS) and r[3] == "event-source":
                            skip = r[0]
                    pruned_toks = [t for t in toks if t["type"] != "SerializeError"]
                    msg2 = validate(pruned_toks)
                    if msg2 is None:
                        got2 = rebuild(pruned_toks, want[0][1])
                        if got2 != pruned_want:
                            d2 = obs.first_diff(pruned_want, got2)
                            msg2 = "(void-listed elements with children set aside) rebuilt tree differs from the walked tree at record %d: tree %s, stream %s" % (d2[0], short(d2[1], 120), short(d2[2], 120))
                    if msg2 is None:
                        return Verdict("known", finding="C11-void-element-with-children", nontrivial=True, classes=classes)
                    msg = msg2
                return Verdict("fail", "%s walker from %s: %s; input %s container=%r" % (builder, label, msg, short(text, 160), container),
                               "%s:%s" % (builder, msg.split(":")[0][:40] if msg.startswith("token") is False else msg.split(": ", 1)[1][:40]),
                               nontrivial=True, classes=classes)
            # the walker object itself: walking it again - also after a walk that was abandoned half way - gives the same stream,
            # and html5lib's own concatenateCharacterTokens (used by treewalkers.pprint) agrees with ours
            try:
                w = h5.walk(node, builder)
                it = iter(w)
                for _ in range(min(len(toks) // 2, 1 + len(text) % 5)):
                    next(it)
                again = list(w)
                zipped = [a for a, b in zip(h5.walk(node, builder), w)]
            except Exception as e:
                return Verdict("fail", "%s walker object raised %s: %s when walked again after an abandoned walk (from %s); input %s" % (builder, type(e).__name__, short(str(e), 80), label, short(text, 150)),
                               "%s:rewalk-exception:%s" % (builder, type(e).__name__), nontrivial=True, classes=classes)
            if again != toks or zipped != toks:
                return Verdict("fail", "%s walker object gives a different stream when walked again after an abandoned walk (from %s); input %s" % (builder, label, short(text, 150)),
                               "%s:rewalk-differs" % builder, nontrivial=True, classes=classes)
            from html5lib.treewalkers import concatenateCharacterTokens
            theirs = [{"type": "Characters*", "data": t["data"]} if t["type"] == "Characters" and "name" not in t else t for t in concatenateCharacterTokens(iter(toks))]
            ours = []
            for t in toks:
                if t["type"] in ("Characters", "SpaceCharacters"):
                    if ours and ours[-1]["type"] == "Characters*":
                        ours[-1] = {"type": "Characters*", "data": ours[-1]["data"] + t["data"]}
                    else:
                        ours.append({"type": "Characters*", "data": t["data"]})
                else:
                    ours.append(t)
            if theirs != ours:
                k = next((i for i, (a, b) in enumerate(zip(theirs, ours)) if a != b), min(len(theirs), len(ours)))
                return Verdict("fail", "treewalkers.concatenateCharacterTokens differs from plain concatenation at token %d (%s vs %s); %s walker from %s; input %s"
                               % (k, short(theirs[k:k + 1], 80), short(ours[k:k + 1], 80), builder, label, short(text, 150)), "concatenate-differs", nontrivial=True, classes=classes)
            if label in ("document", "fragment"):
                streams[builder] = (toks, want)
    if "etree" in streams:
        # the etree walker for another ElementTree implementation (getTreeWalker('etree', implementation=X)), requested after the
        # default one: the same document gives the same stream whichever implementation holds the tree
        try:
            import html5lib
            from html5lib import treebuilders, treewalkers
            A = h5.alt_etree()
            treewalkers.getTreeWalker("etree")
            tb = treebuilders.getTreeBuilder("etree", implementation=A, fullTree=True)
            pa = html5lib.HTMLParser(tb, namespaceHTMLElements=bool(case.get("namespace", True)))
            ra = pa.parse(text, scripting=scripting) if doc else pa.parseFragment(text, container=container, scripting=scripting)
            ta = list(treewalkers.getTreeWalker("etree", implementation=A)(ra))
        except Exception as e:
            return Verdict("fail", "etree builder/walker with implementation=<pure-Python ElementTree> raised %s: %s; input %s container=%r"
                           % (type(e).__name__, short(str(e), 100), short(text, 160), container), "alt-implementation-exception:" + type(e).__name__, nontrivial=True, classes=classes)
        if ta != streams["etree"][0]:
            te = streams["etree"][0]
            k = next((i for i, (a, b) in enumerate(zip(ta, te)) if a != b), min(len(ta), len(te)))
            return Verdict("fail", "the etree walker's stream depends on the ElementTree implementation: token %d is %s with the pure-Python implementation, %s with the default; input %s"
                           % (k, short(ta[k:k + 1], 100), short(te[k:k + 1], 100), short(text, 160)), "alt-implementation-differs", nontrivial=True, classes=classes)
        classes.append("alt-implementation")
    if "etree" in streams and "dom" in streams:
        (te, we), (td, wd) = streams["etree"], streams["dom"]
        if obs.clarkify(we) == obs.clarkify(wd):
            ce, cd = concat_chars(te), concat_chars(td)
            if ce != cd:
                i = 0
                while i < min(len(ce), len(cd)) and ce[i] == cd[i]:
                    i += 1
                return Verdict("fail", "etree and dom walkers disagree at token %d: etree %s, dom %s; input %s" % (i, short(ce[i] if i < len(ce) else None, 120),
                               short(cd[i] if i < len(cd) else None, 120), short(text, 160)), "walkers-disagree", nontrivial=True, classes=classes)
        else:
            # the two backends built different trees for the same document, so the two streams differ too.  Excused only by the recorded
            # minidom limitations of C04 (exact model); any other divergence means the walkers do not emit the same stream "for the
            # same document", whichever component is to blame
            modelled = obs.clarkify(obs.minidom_colon_model(we))
            if modelled == obs.clarkify(wd) or _only_doctype_name_differs(obs.clarkify(we), obs.clarkify(wd)) or obs.minidom_evicts_encoding(we):
                classes.append("trees-differ(C04 known finding)")
            else:
                d = obs.first_diff(obs.clarkify(we), obs.clarkify(wd))
                return Verdict("fail", "the etree and dom backends hold different trees for the same document, so their walkers emit different streams: record %d: etree %s, dom %s; input %s"
                               % (d[0], short(d[1], 120), short(d[2], 120), short(text, 160)), "backends-differ", nontrivial=True, classes=classes)
    return Verdict("pass", nontrivial=nontrivial, sig=sig64(shape, doc), classes=classes)


def _only_doctype_name_differs(a, b):
    return len(a) == len(b) and all(x == y or (x[1] == "doctype" and y[1] == "doctype") for x, y in zip(a, b))


def _void_with_children(fl):
    """Does the tree contain THE void-listed element that the parser nevertheless gives children (event-source: on the serializer's
    void list, an ordinary element to the tree constructor)?  That is the recorded finding's trigger.  Any other void element with
    children is not excused: the unchanged parser never builds one."""
    for a, b in zip(fl, fl[1:]):
        if a[1] == "elem" and a[2] in (None, HTML_NS) and a[3] == "event-source" and b[0] > a[0]:
            return True
    return False


def shards(tier):
    quick = tier == "quick"
    return [{"kind": "hyp", "n": 3000 if quick else 40000} for _ in range(16)] + [{"kind": "long"}]


def run_shard(desc, seed, tier):
    acc = Acc()
    if desc["kind"] == "long":
        for text in soup.long_docs():
            case = {"text": text, "container": None, "scripting": False, "namespace": True}
            acc.add(case, check_case(case))
        return acc

    strat = st.tuples(soup.soup_text(max_items=40), st.one_of(st.none(), st.none(), st.sampled_from(soup.CONTEXTS)), st.booleans(), st.booleans())

    def fn(x):
        (profile, text), container, scripting, ns = x
        case = {"text": text, "container": container, "scripting": scripting, "namespace": ns}
        acc.add(case, check_case(case))
    drive(strat, fn, desc["n"], seed)
    return acc
