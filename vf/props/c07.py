"""C07 - serialize then parse is the identity on conforming documents."""
import copy

from hypothesis import strategies as st

from vf import h5, obs
from vf.core import Acc, Verdict, active, drive, guarded, short, sig64
from vf.gen import conforming as G
from vf.gen.soup import Dec, sized_binary

ID = "C07"
TECHNIQUE = ("round-trip property-based testing: abstract trees generated from a grammar of the HTML content model are turned into html5lib trees, "
             "serialized under generated HTMLSerializer option records / walkers / output encodings and re-parsed; the re-parsed tree must equal the generated tree")
RULE = ("Conforming documents from vf/gen/conforming.py (head with title/meta/link/base/style/script; body flow content: sections, headings, p, lists, dl, full tables, forms, select, "
        "ruby, pre, textarea, a, formatting, void elements, SVG/MathML islands with camel-case names and xlink:/xml: attributes, comments; text over Unicode incl. astral, NBSP, U+2028, "
        "markup-significant characters; arbitrary attribute values) x the product of quote_attr_values, quote_char, omit_optional_tags, minimize_boolean_attributes, use_trailing_solidus, "
        "space_before_trailing_solidus, escape_lt_in_attrs, escape_rcdata, resolve_entities, alphabetical_attributes, encoding in {None, utf-8, ascii, iso-8859-1, windows-1252, shift_jis, koi8-r, gbk} "
        "x walker {etree, dom}. Oracle: flat(parse(render(walker(T)))) == flat(T) (bytes are re-parsed with transport_encoding; attribute order ignored only under alphabetical_attributes). "
        "A generated tree that html5lib does not parse back from our own fully explicit writer is excluded and counted (C01-class anomaly). Non-trivial = >= 5 elements and one of "
        "{omittable tag, attribute value needing quotes, raw-text/RCDATA element with text, foreign island, boolean attribute, non-ASCII text under a narrow encoding}; distinct = (tree hash, option record).")
ASSUMPTIONS = ["inject_meta_charset, strip_whitespace and sanitize are off (they change the tree by design; C15/C17/C09 own them)",
               "the generated trees are conforming with respect to the content model the generator encodes (obsolete-but-parseable elements such as font/center are included)"]
SHRINK = {}

ENCODINGS = [None, None, None, "utf-8", "ascii", "iso-8859-1", "windows-1252", "shift_jis", "koi8-r", "gbk"]


def decode_opts(dec):
    o = {}
    o["quote_attr_values"] = dec.pick(["legacy", "spec", "always"])
    qc = dec.pick([None, '"', "'"])
    if qc is not None:
        o["quote_char"] = qc
    for k in ("omit_optional_tags", "minimize_boolean_attributes", "use_trailing_solidus", "space_before_trailing_solidus", "escape_lt_in_attrs",
              "escape_rcdata", "resolve_entities", "alphabetical_attributes"):
        o[k] = bool(dec.below(2))
    return o, dec.pick(ENCODINGS), dec.pick(["etree", "dom"])


def _sorted_attrs(fl):
    return [(r[0], "elem", r[2], r[3], tuple(sorted(r[4], key=repr))) if r[1] == "elem" else r for r in fl]


def bool_attr_names():
    from html5lib.constants import booleanAttributes
    return booleanAttributes


def expected_with_known(doc, opts, enc):
    """Expected-difference transformers for the recorded serializer defects; yields (finding id, expected flat tree)."""
    base = G.flat(doc)
    # 1. leading newline of pre/textarea/listing content is lost (the serializer does not double it)
    if G.lf_after_pre_start(doc) and active("C07-pre-leading-newline"):
        d2 = copy.deepcopy(doc)
        for n in G.walk_nodes(d2):
            if n[0] == "e" and n[1] == G.HTML_NS and n[2] in ("pre", "textarea", "listing") and n[4] and n[4][0][0] == "t" and n[4][0][1].startswith("\n"):
                n[4][0][1] = n[4][0][1][1:]
                if not n[4][0][1]:
                    del n[4][0]
        yield "C07-pre-leading-newline", G.flat(d2), d2
    # 2. boolean minimisation writes just the name, which parses back with the empty string as value
    if opts.get("minimize_boolean_attributes", True) and active("C07-boolean-minimisation-value"):
        table = bool_attr_names()
        d2 = copy.deepcopy(doc)
        hit = False
        for n in G.walk_nodes(d2):
            if n[0] == "e":
                names = set(table.get(n[2], ())) | set(table.get("", ()))
                for a in n[3]:
                    if a[0] is None and a[1] in names and a[2] != "":
                        a[2] = ""
                        hit = True
        if hit:
            yield "C07-boolean-minimisation-value", G.flat(d2), d2


    # 3. escape_rcdata also escapes the content of raw-text elements (script, style), where character references are not decoded
    if opts.get("escape_rcdata") and active("C07-escape-rcdata-rawtext"):
        from xml.sax.saxutils import escape
        d2 = copy.deepcopy(doc)
        hit = False
        for n in G.walk_nodes(d2):
            if n[0] == "e" and n[1] == G.HTML_NS and n[2] in ("script", "style"):
                for c in n[4]:
                    if c[0] == "t" and escape(c[1]) != c[1]:
                        c[1] = escape(c[1])
                        hit = True
        if hit:
            yield "C07-escape-rcdata-rawtext", G.flat(d2), d2


    # 4. namespaced attributes are written without their prefix (xlink:href -> href), so they come back un-namespaced
    if active("C07-namespaced-attr-prefix-dropped"):
        d2 = copy.deepcopy(doc)
        hit = False
        for n in G.walk_nodes(d2):
            if n[0] == "e":
                new = []
                seen = set()
                for a in n[3]:
                    if a[0] is not None:
                        hit = True
                        a = [None, a[1], a[2]]
                    if (a[0], a[1]) in seen:
                        continue
                    seen.add((a[0], a[1]))
                    new.append(a)
                n[3][:] = new
        if hit:
            yield "C07-namespaced-attr-prefix-dropped", G.flat(d2), d2
    # 5. characters the output encoding cannot express become character references even inside script/style, where they are not decoded
    if enc and active("C07-rawtext-unencodable-charref"):
        import html5lib.serializer  # noqa  (registers the 'htmlentityreplace' error handler)
        d2 = copy.deepcopy(doc)
        hit = False
        for n in G.walk_nodes(d2):
            if n[0] == "e" and n[1] == G.HTML_NS and n[2] in ("script", "style"):
                for c in n[4]:
                    if c[0] == "t":
                        t2 = c[1].encode(enc, "htmlentityreplace").decode(enc)
                        if t2 != c[1]:
                            c[1] = t2
                            hit = True
        if hit:
            yield "C07-rawtext-unencodable-charref", G.flat(d2), d2


def unencodable_comment(doc, enc):
    def bad(s):
        try:
            s.encode(enc)
            return False
        except UnicodeEncodeError:
            return True
    for c in doc["pre"] + doc["post"]:
        if bad(c[1]):
            return True
    for n in G.walk_nodes(doc):
        if n[0] == "c" and bad(n[1]):
            return True
    return False


def noscript_text_trigger(doc):
    """noscript is on the serializer's raw-text list: text inside it is written unescaped although the (scripting-off) parser reads it as markup"""
    stack = [(doc["html"], False)]
    while stack:
        n, inside = stack.pop()
        if n[0] == "t" and inside and ("<" in n[1] or "&" in n[1]):
            return True
        if n[0] == "e":
            ins = inside or (n[1] == G.HTML_NS and n[2] == "noscript")
            for c in n[4]:
                stack.append((c, ins))
    return False


def run_roundtrip(doc, opts, enc, walker, prior=None, namespace=True):
    from html5lib.serializer import HTMLSerializer
    markup = G.writer(doc)
    tree, p = h5.parse(markup, builder=walker, full_tree=True, namespace=namespace)
    s = HTMLSerializer(inject_meta_charset=False, **opts)
    w = h5.walk(tree, walker)
    if prior is not None:
        # the serializer object has been used before, with another output encoding (a configuration like any other); and the
        # walker object has been walked before, that walk abandoned after a few tokens
        try:
            s.render(h5.walk(tree, walker), prior["encoding"])
        except Exception:
            pass
        it = iter(w)
        for _ in range(prior.get("walked", 0)):
            next(it, None)
    out = s.render(w, enc) if enc else s.render(w)
    if enc:
        r2, p2 = h5.parse(out, builder="etree", full_tree=True, transport_encoding=enc)
    else:
        r2, p2 = h5.parse(out, builder="etree", full_tree=True)
    return obs.flat(tree), out, obs.flat(r2), s


@guarded(60)
def check_case(case):
    if case.get("kind") == "chars":
        return check_chars(case)
    if case.get("kind") == "family":
        return check_family(case)
    doc, opts, enc, walker = case["doc"], dict(case["opts"]), case.get("encoding"), case.get("walker", "etree")
    want = G.flat(doc)
    if enc and unencodable_comment(doc, enc):
        # a comment cannot carry a character reference: such a document has no serialisation in that encoding at all
        return Verdict("excluded", finding="comment not expressible in the output encoding")
    try:
        got0, out, got, ser = run_roundtrip(doc, opts, enc, walker, case.get("prior"), bool(case.get("namespace", True)))
        if not case.get("namespace", True):
            got0 = [(r[0], r[1], G.HTML_NS if r[1] == "elem" and r[2] is None else r[2]) + tuple(r[3:]) if r[1] == "elem" else r for r in got0]
    except Exception as e:
        return Verdict("fail", "%s: %s (opts %s enc %s walker %s) on %s" % (type(e).__name__, short(str(e), 100), opts, enc, walker, short(G.writer(doc), 200)),
                       "exception:" + type(e).__name__, nontrivial=True)
    cw = obs.clarkify(want)
    if obs.clarkify(got0) != cw:
        return Verdict("excluded", finding="generated tree not parsed back from the explicit writer (C01-class deviation, e.g. pre-lf in table cells)")
    feats, n_el = G.features(doc)
    narrow = enc in ("ascii", "iso-8859-1", "windows-1252", "shift_jis", "koi8-r", "gbk") and "non-ascii" in feats
    nontrivial = n_el >= 5 and bool(feats - {"non-ascii"} or narrow)
    sig = sig64(repr(want), sorted(opts.items()), enc, walker)
    classes = ["feat:" + f for f in feats] + ["enc:%s" % enc, "walker:" + walker] + ["opt:%s=%s" % (k, v) for k, v in opts.items() if k in ("omit_optional_tags", "quote_attr_values")]
    alpha = opts.get("alphabetical_attributes")
    norm = (lambda f: _sorted_attrs(obs.clarkify(f))) if alpha else obs.clarkify
    if norm(got) == norm(want):
        return Verdict("pass", nontrivial=nontrivial, sig=sig, classes=classes)
    # recorded defects: the re-parsed tree must equal the exactly predicted wrong tree
    cands = list(expected_with_known(doc, opts, enc))
    for fid, exp, d2 in cands:
        if norm(got) == norm(exp):
            return Verdict("known", finding=fid, nontrivial=nontrivial, sig=sig, classes=classes)
    if len(cands) >= 2:
        # several at once: chain the transformers
        d3 = doc
        ids = []
        for _ in range(5):
            nxt = [c for c in expected_with_known(d3, opts, enc) if c[0] not in ids]
            if not nxt:
                break
            ids.append(nxt[0][0])
            d3 = nxt[0][2]
            if norm(got) == norm(G.flat(d3)):
                return Verdict("known", finding="+".join(ids), nontrivial=nontrivial, sig=sig, classes=classes)
    if noscript_text_trigger(doc) and active("C07-noscript-raw-text"):
        return Verdict("known", finding="C07-noscript-raw-text", nontrivial=nontrivial, sig=sig, classes=classes)
    d = obs.first_diff(norm(want), norm(got))
    kind = "%s/%s" % (d[1][1] if d[1] else "-", d[2][1] if d[2] else "-")
    ctx = ""
    if d[1] is not None and d[1][1] == "elem":
        ctx = d[1][3]
    elif d[0] > 0:
        # nearest preceding element record
        for r in reversed(norm(want)[:d[0]]):
            if r[1] == "elem" and r[0] < (d[1][0] if d[1] else 99):
                ctx = r[3]
                break
    what = ("re-parsed tree differs at record %d: original %s, re-parsed %s; opts=%s enc=%s walker=%s\noutput: %s"
            % (d[0], short(d[1], 200), short(d[2], 200), opts, enc, walker, short(out, 600)))
    return Verdict("fail", what, "roundtrip:%s:in-%s" % (kind, ctx), nontrivial=nontrivial, sig=sig, classes=classes)


def shrink_extra(case, fails):
    if "doc" not in case:
        return case

    def f(doc):
        c = dict(case)
        c["doc"] = doc
        return fails(c)
    small = G.shrink_doc(case["doc"], f, budget=300)
    c = dict(case)
    c["doc"] = small
    # try default options one by one
    for k in list(c["opts"]):
        c2 = dict(c)
        c2["opts"] = {kk: vv for kk, vv in c["opts"].items() if kk != k}
        if fails(c2):
            c = c2
    if c.get("encoding"):
        c2 = dict(c)
        c2["encoding"] = None
        if fails(c2):
            c = c2
    return c


def check_family(case):
    """Hand-written conforming documents (vf.gen.conforming.family_documents: one or more per optional-tag rule and per document-level
    rule) -> tree -> serializer -> parse: the same tree.  Documents with pre/textarea content starting with a newline are left to the
    generated shard, where the recorded finding about them is modelled."""
    from html5lib.serializer import HTMLSerializer
    markup, walker, opts = case["markup"], case.get("walker", "etree"), dict(case.get("opts") or {})
    tree, p = h5.parse(markup, builder=walker, full_tree=True)
    if p.errors:
        return Verdict("excluded", finding="family markup is not error-free on this tree")
    want = obs.clarkify(obs.flat(tree))
    try:
        out = HTMLSerializer(inject_meta_charset=False, **opts).render(h5.walk(tree, walker))
        back, _ = h5.parse(out, builder=walker, full_tree=True)
    except Exception as e:
        return Verdict("fail", "%s: %s (opts %s walker %s) on %s" % (type(e).__name__, short(str(e), 100), opts, walker, short(markup, 200)), "exception:" + type(e).__name__, nontrivial=True)
    got = obs.clarkify(obs.flat(back))
    if opts.get("alphabetical_attributes"):
        want, got = _sorted_attrs(want), _sorted_attrs(got)
    if got != want:
        d = obs.first_diff(want, got)
        return Verdict("fail", "conforming document does not survive serialize -> parse: record %d: tree %s, re-parsed %s; opts %s walker %s\nmarkup %s\noutput %s"
                       % (d[0], short(d[1], 140), short(d[2], 140), opts, walker, short(markup, 300), short(out, 300)), "family-roundtrip", nontrivial=True)
    return Verdict("pass", nontrivial=bool(opts.get("omit_optional_tags")), sig=sig64("family", markup, sorted(opts.items()), walker), classes=["family"])


FAMILY_OPTS = [{"omit_optional_tags": True}, {"omit_optional_tags": True, "quote_attr_values": "always", "alphabetical_attributes": True}, {"omit_optional_tags": False, "use_trailing_solidus": True},
               {"omit_optional_tags": True, "quote_attr_values": "spec", "minimize_boolean_attributes": False, "quote_char": "'"}]


CHAR_BLOCK = 127      # prime to 0x400 and never aligned with a U+xDC00 boundary: neighbouring code points stay neighbours in one run


def check_chars(case, pid="C07"):
    """Every Unicode scalar value (no C0/C1 controls, no surrogates) as text and as attribute value, serialized with an output
    encoding and read back: blocks of 127 consecutive code points, so that every run of unencodable characters is exercised."""
    import html5lib
    from html5lib.serializer import HTMLSerializer
    start, enc = case["start"], case["encoding"]
    block = "".join(chr(c) for c in range(start, min(start + CHAR_BLOCK, 0x110000)) if not (c < 0x20 or 0x7f <= c <= 0x9f or 0xd800 <= c <= 0xdfff))
    if not block:
        return Verdict("pass")
    frag = html5lib.parseFragment("<p title=a>a</p><i>z</i>", treebuilder="etree", namespaceHTMLElements=False)
    p = frag[0]
    p.text = block
    p.set("title", block)
    try:
        out = HTMLSerializer(quote_attr_values="always", omit_optional_tags=False).render(html5lib.getTreeWalker("etree")(frag), enc)
        back = html5lib.parseFragment(out.decode(enc), treebuilder="etree", namespaceHTMLElements=False)
    except Exception as e:
        return Verdict("fail", "characters U+%04X.. with encoding %s: %s: %s" % (start, enc, type(e).__name__, short(str(e), 100)), "chars-exception:" + type(e).__name__, nontrivial=True)
    try:
        block.encode(enc)
        nontrivial = False
    except UnicodeEncodeError:
        nontrivial = True
    got_text, got_attr = (back[0].text or "") if len(back) else None, back[0].get("title") if len(back) else None
    for what, got in (("text", got_text), ("attribute value", got_attr)):
        if got != block:
            k = next((i for i, (a, b) in enumerate(zip(got or "", block)) if a != b), min(len(got or ""), len(block)))
            return Verdict("fail", "%s with the characters U+%04X..U+%04X written in %s reads back differently from character %d on: given %s, read back %s (markup %s)"
                           % (what, start, start + CHAR_BLOCK - 1, enc, k, ascii(block[k:k + 4]), ascii((got or "")[k:k + 6]), short(out, 120)), "chars-differ:" + what.split()[0],
                           nontrivial=True)
    return Verdict("pass", nontrivial=nontrivial, sig=sig64("chars", start, enc), classes=["all-code-points"])


CHAR_ENCODINGS = ["ascii", "iso-8859-2", "windows-1252", "shift_jis", "koi8-r", "latin-1", "big5", "utf-8"]


def run_chars(acc, part, of, encodings, pid="C07"):
    n = 0
    for bi, start in enumerate(range(0x20, 0x110000, CHAR_BLOCK)):
        if bi % of != part:
            continue
        for enc in (encodings[0], encodings[1 + bi % (len(encodings) - 1)]):
            case = {"kind": "chars", "start": start, "encoding": enc}
            acc.add(case, check_chars(case, pid))
            n += 1
    acc.extra["code_point_blocks"] = n


def shards(tier):
    quick = tier == "quick"
    return [{"kind": "hyp", "n": 2500 if quick else 30000, "size": 40 if quick else 200} for _ in range(16)] + [{"kind": "chars", "part": i, "of": 2} for i in range(2)] + [{"kind": "family"}]


def run_shard(desc, seed, tier):
    acc = Acc()
    if desc["kind"] == "chars":
        run_chars(acc, desc["part"], desc["of"], CHAR_ENCODINGS)
        return acc
    if desc["kind"] == "family":
        for k, markup in enumerate(G.family_documents()):
            if "<pre>\n" in markup or "<textarea>\n" in markup:
                continue
            case = {"kind": "family", "markup": markup, "walker": "dom" if k % 3 == 0 else "etree", "opts": FAMILY_OPTS[k % len(FAMILY_OPTS)]}
            acc.add(case, check_case(case), sample={"markup": short(markup, 200), "opts": case["opts"]})
        return acc
    strat = st.tuples(sized_binary(20, 60 + desc["size"] * 6), st.binary(min_size=13, max_size=13))

    def fn(x):
        data, odata = x
        doc = G.decode_document(data, size=desc["size"])
        opts, enc, walker = decode_opts(Dec(odata))
        case = {"doc": doc, "opts": opts, "encoding": enc, "walker": walker}
        if odata[-2] % 5 == 0:
            case["namespace"] = False      # the tree that is serialized was built with namespaceHTMLElements=False
        k = odata[-1] % 8
        if k >= 4:
            case["prior"] = {"encoding": [None, "utf-8", "koi8-r", "utf-8"][k - 4], "walked": (odata[-2] % 4) * 3}
        acc.add(case, check_case(case), sample={"markup": short(G.writer(doc), 300), "opts": opts, "encoding": enc, "walker": walker})
    drive(strat, fn, desc["n"], seed)
    return acc
