"""C06 - byte input is decoded with the encoding the documented precedence selects."""
import io

from hypothesis import strategies as st

from vf import h5, obs
from vf.core import Acc, Verdict, active, drive, guarded, short, sig64
from vf.gen.soup import Dec, sized_binary
from vf.ref import prescan as P
from vf.ref import treebuilder as T

ID = "C06"
TECHNIQUE = ("model-based + round-trip property-based testing: byte documents from a prescan-oriented grammar x all subsets/values of the five *_encoding arguments; "
             "documentEncoding must equal the prediction of a reference precedence chain + reference WHATWG prescan + late-<meta> model, and the tree must equal parse(decode(bytes, reported))")
RULE = ("Byte documents built from pieces (BOMs, junk, comments incl. '<!-->', tags whose attribute values contain '<meta', meta declarations in every spelling: charset=, http-equiv+content in "
        "both orders, quoted/unquoted/upper-case/spaced, invalid labels, utf-16, x-user-defined, duplicates, '<meta/', inside title/textarea/script/style/comment/svg, after </head> and in body, "
        "padding that puts a declaration within +-40 bytes of offset 1024, non-ASCII body bytes) x every subset of {override, transport, same_origin_parent, likely, default}_encoding with "
        "values from valid labels (odd case / surrounding whitespace), invalid labels, utf-16/utf-16le/utf-16be and x-user-defined; bytes, BytesIO and non-seekable streams. "
        "Oracle: (1) documentEncoding == reference prediction (precedence + WHATWG prescan of 1024 bytes + first usable meta met by the in-head rules of the reference tree constructor, "
        "utf-16 from meta meaning utf-8); (2) the returned tree == the tree of parse(bytes.decode(reported encoding, 'replace')) given as str; (3) a BOM / override / transport encoding is never "
        "changed by content. Non-trivial = >= 2 competing sources, or a declaration within 40 bytes of offset 1024, or a declaration inside comment/RCDATA/attribute/bogus syntax; distinct = "
        "(source set, outcome, placement) signature.")
ASSUMPTIONS = ["chardet is not installed in this sandbox, so the chardet step of the chain is unexplored",
               "label validity and canonical names come from webencodings (third party)",
               "where the property statement and the standard differ, the statement is the oracle (a tentative UTF-16 from likely_encoding is used until a meta replaces it)"]
SHRINK = {"data": "bytes"}

ARGS = ["override_encoding", "transport_encoding", "same_origin_parent_encoding", "likely_encoding", "default_encoding"]
LABELS_VALID = ["utf-8", "UTF-8", " utf8 ", "koi8-r", "KOI8-R", "windows-1252", "latin1", "iso-8859-2", "shift_jis", "Shift_JIS", "euc-jp", "gbk", "big5", "euc-kr", "windows-1251",
                "iso-8859-15", "macintosh", "ibm866", "\tascii\n", "us-ascii", "cp1252", "gb18030", "iso-2022-jp", "windows-874", "x-mac-cyrillic"]
LABELS_ODD = ["utf-16", "utf-16le", "utf-16be", "x-user-defined", "bogus", "", "utf-7", "utf-32", "none", "\xe9",
              # look-alikes of valid labels that only Unicode case mapping / white-space stripping would accept
              "\u212aOI8-R", "euc-\u212ar", "\xa0koi8-r", "koi8-r\x0b", "\x1fshift_jis", "GB\u212a", "\u017fhift_jis", "w\u0131ndows-1252"]
# x-user-defined is not used as an *argument* value: webencodings' own stream reader for it is broken (third party)
ARG_LABELS_ODD = [x for x in LABELS_ODD if x != "x-user-defined"]

META_FORMS = [
    '<meta charset=%s>', '<meta charset="%s">', "<meta charset='%s'>", '<META CHARSET=%s>', '<meta charset = "%s" >', '<meta\tcharset=%s\n>', '<meta/charset=%s>',
    '<meta http-equiv="Content-Type" content="text/html; charset=%s">', '<meta content="text/html; charset=%s" http-equiv=content-type>', "<meta http-equiv=content-type content='text/html;charset=%s'>",
    '<meta content="charset=%s">', '<meta http-equiv=refresh content="charset=%s">', '<meta http-equiv="Content-Type" content="text/html; CHARSET = %s ; x">',
    '<meta http-equiv="Content-Type" content="text/html; charset=&quot;%s&quot;">', '<meta charset=bogus content="text/html; charset=%s" http-equiv=content-type>',
    '<meta charset=%s charset=koi8-r>', '<meta name=x content=y charset=%s>', '<metacharset=%s>', '<meta charset=%s', '<meta charset="%s>', '<meta charset>', '<meta x charset=%s/>',
    '<meta http-equiv="Content-Type" content="text/html; charset=\'%s\'">', '<meta http-equiv="Content-Type" content="charset charset=%s">', '<meta content="text/html; charset=%s;x" http-equiv="CONTENT-TYPE">',
]
WRAPS = ["%s", "%s", "%s", "<!--%s-->", "<!-->%s", "<!--->%s-->", "<title>%s</title>", "<textarea>%s</textarea>", "<script>%s</script>", "<style>%s</style>", "<a b='%s'>", '<a "%s">',
         "</head>%s", "<body>%s", "<p>%s", "<svg>%s</svg>", "<table>%s", "<!%s>", "</%s>", "<?%s?>", "<head>%s</head>", "<noscript>%s</noscript>", "<select>%s", "<template>%s</template>",
         "<a\n%s", "< %s", "<a b=%s>", "<html>%s",
         # a declaration met by the tree constructor in the middle of table / select / formatting structure (a restart must begin from a clean tree builder)
         "<table><tr><td>x</td></tr>%s<tr><td>y", "<table> <tbody>%s<tr><td>z", "<table><tr>%s<td>w", "<table><caption>c</caption>%s", "<select><option>o%s", "<p><b><i>t%s u",
         "<table><tbody><tr><td>a</td></tr>%s</tbody></table>\r", "%s\r", "<pre>%s\r", "%s x\r"]
JUNK = [b"", b"x", b"\xe9", b"\xc3\xa9", b"\xff", b"\x80\x9f", b"\xa4", b"<p>", b"text ", b"\n", b"<!DOCTYPE html>", b"<html>", b"<head>", b"\x00", b"&eacute;", b"\xe4\xb8\xad", b"\x82\xa0",
        b"<b>bold</b>", b"</html>", b"\x1b$B", b"+AGE-"]
BOMS = [b"\xef\xbb\xbf", b"\xff\xfe", b"\xfe\xff", b"\xef\xbb", b"\xff\xfe\x00\x00", b"\x00\x00\xfe\xff"]


def decode_case(data):
    dec = Dec(data)
    parts = []
    placement = set()
    if dec.below(12) == 0:
        parts.append(dec.pick(BOMS))
        placement.add("bom")
    n = 1 + dec.below(5)
    for _ in range(n):
        k = dec.below(10)
        if k <= 4:
            label = dec.pick(LABELS_VALID) if dec.below(4) else dec.pick(LABELS_ODD)
            form = dec.pick(META_FORMS)
            m = form % label if "%s" in form else form
            w = dec.pick(WRAPS)
            if w != "%s":
                placement.add("wrapped")
            parts.append((w % m).encode("utf-8", "replace"))
        elif k <= 6:
            parts.append(dec.pick(JUNK))
        elif k == 7:
            # padding towards the 1024 boundary
            cur = sum(len(p) for p in parts)
            target = (10240 if dec.below(6) == 0 else 1024) + dec.below(81) - 40 - dec.below(3) * 20
            if cur < target:
                pad = dec.pick([b" ", b"x", b"<!-- pad -->", b"<p>"])
                parts.append((pad * ((target - cur) // len(pad) + 1))[:target - cur])
                placement.add("near-1024")
        elif k == 8:
            parts.append(dec.pick(JUNK) * (1 + dec.below(3)))
        else:
            parts.append(bytes(dec.byte() for _ in range(dec.below(6))))
    args = {}
    for a in ARGS:
        r = dec.below(8)
        if r <= 3:
            continue
        args[a] = dec.pick(LABELS_VALID) if r <= 6 else dec.pick(ARG_LABELS_ODD)
    kind = dec.pick(["bytes", "bytes", "bytesio", "stream"])
    return b"".join(parts), args, kind, placement


class _NonSeekable(object):
    def __init__(self, data):
        self._b = io.BytesIO(data)

    def read(self, n=-1):
        return self._b.read(n)


_LAST = {"template": False}


def predict(data, args, prescan=None, fragment=False):
    """Reference prediction -> (encoding name, how)"""
    enc, conf, src = P.pre_parse_encoding(data, args, prescan)
    if conf == "certain":
        return enc, src
    # tentative: the first meta met by the in-head rules that declares a usable encoding decides
    body = data
    text = _decode(body, enc)
    try:
        res = T.parse_fragment(text, context="div") if fragment else T.parse_document(text)
    except Exception:
        return enc, src
    _LAST["template"] = "template" in res.trace
    declares = P.meta_declares_h5l if prescan is P.prescan_h5l else P.meta_declares
    for attrs in res.meta_log:
        new = declares(attrs)
        if new is None:
            continue
        if new in ("utf-16le", "utf-16be"):
            new = "utf-8"
        if new == "x-user-defined":
            new = "windows-1252"
        if new == enc:
            return enc, src + "+confirmed-by-meta"
        return new, "late-meta(after %s)" % src
    return enc, src


def _decode(data, enc):
    import webencodings
    b, n = P.bom(data)
    if b is not None and b == enc:
        data = data[n:]
    return webencodings.lookup(enc).codec_info.decode(data, "replace")[0]


@guarded(60)
def check_case(case):
    import webencodings
    data, args, kind = case["data"], dict(case.get("args") or {}), case.get("kind", "bytes")
    _LAST["template"] = False
    fragment = case.get("entry") == "fragment"
    _LAST["fragment"] = fragment
    want_enc, how = predict(data, args, fragment=fragment)
    template_involved = _LAST["template"]
    pre_enc, conf, src = P.pre_parse_encoding(data, args)
    sources = [k for k in args if P.lookup(args[k])]
    has_bom = P.bom(data)[0] is not None
    n_meta = data.lower().count(b"<meta")
    near = any(984 <= i <= 1064 for i in _find_all(data.lower(), b"<meta"))
    nontrivial = (len(sources) + has_bom + (1 if n_meta else 0)) >= 2 or near or bool(case.get("placement"))
    sig = sig64(tuple(sorted(sources)), has_bom, how, want_enc, near, tuple(sorted(case.get("placement") or [])))
    classes = ["decided-by:" + how.split("(")[0]] + ["near-1024"] * near + ["kind:" + kind, "entry:" + ("fragment" if fragment else "document")]
    source = data if kind == "bytes" else (io.BytesIO(data) if kind == "bytesio" else _NonSeekable(data))
    p = h5.parser("etree", True, full_tree=True)
    try:
        tree = p.parseFragment(source, container="div", **args) if fragment else p.parse(source, **args)
    except Exception as e:
        return Verdict("fail", "%s: %s with args %s on %s" % (type(e).__name__, short(str(e), 100), args, short(data, 200)), "exception:" + type(e).__name__, nontrivial=nontrivial, classes=classes)
    got = p.documentEncoding
    got_name = P.lookup(got) if isinstance(got, str) else (got.name if got is not None else None)
    cfg = "args=%s kind=%s entry=%s data=%s" % (args, kind, "parseFragment(div)" if fragment else "parse", short(data, 260))
    # (3) certain sources are never overridden by content
    if conf == "certain" and got_name != pre_enc:
        return Verdict("fail", "a certain encoding (%s from %s) was changed to %s; %s" % (pre_enc, src, got_name, cfg), "certain-changed:" + src, nontrivial=nontrivial, classes=classes)
    # (2) round trip: the tree is the tree of the bytes decoded with the reported encoding
    if got_name is None:
        return Verdict("fail", "documentEncoding is %r; %s" % (got, cfg), "no-encoding", nontrivial=nontrivial, classes=classes)
    try:
        text = _decode(data, got_name)
        ref_tree, _ = h5.parse(text, builder="etree", full_tree=True, container="div" if fragment else None)
    except Exception as e:
        return Verdict("excluded", finding="reference str parse raised %s" % type(e).__name__)
    if obs.flat(tree) != obs.flat(ref_tree) and active("C06-truncated-sequence-at-eof"):
        # recorded defect: an incomplete multi-byte sequence at the very end of the input is dropped by the stream
        # reader instead of being decoded to U+FFFD
        import codecs
        b, nb = P.bom(data)
        body = data[nb:] if (b is not None and b == got_name) else data
        ci = webencodings.lookup(got_name).codec_info
        try:
            text2 = ci.incrementaldecoder("replace").decode(body, False)
        except Exception:
            text2 = None
        if text2 is not None and text2 != text:
            t2, _ = h5.parse(text2, builder="etree", full_tree=True, container="div" if fragment else None)
            if obs.flat(tree) == obs.flat(t2):
                return Verdict("known", finding="C06-truncated-sequence-at-eof", nontrivial=nontrivial, sig=sig, classes=classes)
    if obs.flat(tree) != obs.flat(ref_tree):
        d = obs.first_diff(obs.flat(ref_tree), obs.flat(tree))
        return Verdict("fail", "tree is not the tree of the bytes decoded as %s: record %d: expected %s, got %s; %s" % (got_name, d[0], short(d[1], 120), short(d[2], 120), cfg),
                       "tree-vs-reported-encoding", nontrivial=nontrivial, classes=classes)
    # (1) the reported encoding is the one the documented precedence selects
    if fragment and conf != "certain":
        # the standard gives fragment parsers no encoding step of their own (confidence "irrelevant"): for a tentative encoding
        # only oracles (2) and (3) apply - whichever encoding is reported, the tree must be the tree of the bytes decoded with it
        return Verdict("pass", nontrivial=nontrivial, sig=sig, classes=classes + ["fragment-tentative"])
    if got_name != want_enc and template_involved:
        # the late-meta model ran template machinery, which html5lib does not have at all (recorded as C01-template)
        return Verdict("excluded", finding="template in the late-meta path (C01-template)")
    if got_name != want_enc:
        fid = _known_encoding_difference(data, args, got_name, want_enc, how)
        if fid:
            return Verdict("known", finding=fid, nontrivial=nontrivial, sig=sig, classes=classes)
        if active("C06-prescan-variant") and predict(data, args, prescan=P.prescan_h5l, fragment=fragment)[0] != want_enc:
            # the recorded prescan variant is triggered (its model disagrees with the standard here) but does not reproduce html5lib's answer
            return Verdict("masked", "prescan variant triggered, model differs: got %s, standard %s; %s" % (got_name, want_enc, cfg), finding="masked:C06-prescan-variant",
                           nontrivial=nontrivial, sig=sig, classes=classes)
        return Verdict("fail", "documentEncoding %s, the documented precedence selects %s (%s); %s" % (got_name, want_enc, how, cfg),
                       "encoding:%s" % how.split("(")[0], nontrivial=nontrivial, classes=classes)
    return Verdict("pass", nontrivial=nontrivial, sig=sig, classes=classes)


def _find_all(hay, needle):
    i = hay.find(needle)
    while i >= 0:
        yield i
        i = hay.find(needle, i + 1)


def _known_encoding_difference(data, args, got, want, how):
    """Exact classifiers of recorded deviations (filled in as the machinery establishes them)."""
    for fid, fn in KNOWN_CLASSIFIERS:
        if active(fid) and fn(data, args, got, want, how):
            return fid
    return None


def _is_prescan_variant(data, args, got, want, how):
    """html5lib's prescan variant (vf.ref.prescan.prescan_h5l) predicts html5lib's answer, the standard's prescan does not."""
    return predict(data, args, prescan=P.prescan_h5l, fragment=_LAST.get("fragment", False))[0] == got


KNOWN_CLASSIFIERS = [("C06-prescan-variant", _is_prescan_variant)]


def shards(tier):
    quick = tier == "quick"
    return [{"kind": "hyp", "n": 5000 if quick else 40000} for _ in range(16)]


def run_shard(desc, seed, tier):
    acc = Acc()

    def fn(b):
        data, args, kind, placement = decode_case(b[1:])
        entry = "fragment" if b[:1] and b[0] % 4 == 0 else "document"
        case = {"data": data, "args": args, "kind": kind, "placement": sorted(placement), "entry": entry}
        acc.add(case, check_case(case), sample={"data": short(data, 200), "args": args, "kind": kind, "entry": entry})
    drive(sized_binary(8, 80), fn, desc["n"], seed)
    return acc
