"""C17 - the whitespace filter changes nothing but whitespace."""
import re

from hypothesis import strategies as st

from vf import h5, obs
from vf.core import Acc, Verdict, active, drive, guarded, short, sig64
from vf.gen import soup

ID = "C17"
TECHNIQUE = ("property-based testing against an independent collapse model: walker streams (etree and dom) of whitespace-rich trees parsed from generated "
             "markup go through filters.whitespace.Filter; text is compared group-wise with the model, non-text tokens must be identical, F(F(x)) == F(x)")
RULE = ("Token streams obtained by walking (etree and dom walkers - the dom builder yields adjacent text nodes, which splits whitespace runs across tokens) trees parsed from "
        "Hypothesis markup soup enriched with all five ASCII whitespace characters, NBSP / EM SPACE / U+2028 (must survive), character references to whitespace, nested preserve "
        "elements (pre > b > text, textarea, script, style, xmp...). Oracle (vf model): between two non-text tokens the concatenated text outside pre/textarea/raw-text elements "
        "must equal the concatenated input with every maximal run of [\\t\\n\\f\\r ] replaced by one space; inside those elements it must be identical; every non-text token "
        "is passed through unchanged and in order; applying the filter twice equals applying it once; the filter applied to the live walker gives the same tokens as "
        "applied to a copy of the walker's tokens, and a second walk of the tree is unchanged by it; HTMLSerializer(strip_whitespace=True, other options) writes what it writes "
        "for the hand-filtered stream (so the filter sees the stream before the serializer's other filters drop or rewrite tags). Text inside title, plaintext, listing and foreign namesakes of "
        "style/script/title is not judged (the statement does not decide them). Non-trivial = some judged text group contains a run of >= 2 whitespace characters or a "
        "non-space whitespace character; distinct = distinct (group texts) signature.")
ASSUMPTIONS = ["'text' = a maximal sequence of Characters/SpaceCharacters tokens between two other tokens",
               "raw-text elements = script, style, xmp, iframe, noembed, noframes, noscript (HTML namespace; the set the property's anchor names, constants.rcdataElements of the pinned tree); title/plaintext/listing/foreign namesakes are not judged"]
SHRINK = {"text": "str"}

HTML_NS = "http://www.w3.org/1999/xhtml"
# "raw-text elements" is read as the property's anchor defines it: constants.rcdataElements of the pinned tree (which includes noscript)
PRESERVE = frozenset(["pre", "textarea", "script", "style", "xmp", "iframe", "noembed", "noframes", "noscript"])
DONTCARE = frozenset(["title", "plaintext", "listing"])
_RUN = re.compile("[\t\n\x0c\r ]+")
TEXT = ("Characters", "SpaceCharacters")


def collapse(s):
    return _RUN.sub(" ", s)


def groups(tokens):
    """-> list of ("text", concatenated data, state) / ("tok", token) where state in {"collapse", "preserve", "dontcare"}"""
    out = []
    stack = []     # per open element: "p" preserve / "d" dontcare / "n" normal
    for t in tokens:
        ty = t["type"]
        if ty in TEXT:
            st_ = "preserve" if "p" in stack else ("dontcare" if "d" in stack else "collapse")
            if out and out[-1][0] == "text":
                out[-1] = ("text", out[-1][1] + t["data"], out[-1][2], out[-1][3] + [t["data"]])
            else:
                out.append(("text", t["data"], st_, [t["data"]]))
        else:
            out.append(("tok", t))
            if ty == "StartTag":
                html = t.get("namespace") in (None, HTML_NS)
                name = t["name"]
                if html and name in PRESERVE:
                    stack.append("p")
                elif (html and name in DONTCARE) or (not html and name in ("style", "script", "title", "pre", "textarea", "xmp", "iframe", "noembed", "noframes", "noscript")):
                    stack.append("d")
                else:
                    stack.append("n")
            elif ty == "EndTag":
                if stack:
                    stack.pop()
    return out


def _snapshot(tokens):
    return [dict(t, data=dict(t["data"])) if isinstance(t.get("data"), dict) else dict(t) for t in tokens]


def check_stream(tokens):
    from html5lib.filters.whitespace import Filter
    before = _snapshot(tokens)
    try:
        out = list(Filter(_snapshot(tokens)))
        out2 = list(Filter(_snapshot(out)))
    except Exception as e:
        return Verdict("fail", "filter raised %r" % (e,), "exception:" + type(e).__name__)
    gi, go = groups(before), groups(out)
    nontrivial = any(g[0] == "text" and g[2] != "dontcare" and (re.search("[\t\n\x0c\r ]{2,}", g[1]) or re.search("[\t\n\x0c\r]", g[1])) for g in gi)
    sig = sig64(tuple((g[1], g[2]) for g in gi if g[0] == "text"))
    if len(gi) != len(go):
        return Verdict("fail", "token structure changed: %d groups -> %d" % (len(gi), len(go)), "structure", nontrivial=nontrivial)
    known = None
    for a, b in zip(gi, go):
        if a[0] != b[0]:
            return Verdict("fail", "token kinds changed: %s -> %s" % (short(a, 80), short(b, 80)), "structure", nontrivial=nontrivial)
        if a[0] == "tok":
            if a[1] != b[1]:
                return Verdict("fail", "non-text token changed: %s -> %s" % (short(a[1], 120), short(b[1], 120)), "non-text-token", nontrivial=nontrivial)
            continue
        if a[2] == "dontcare":
            continue
        if a[2] == "preserve":
            if b[1] != a[1]:
                return Verdict("fail", "text inside a preserve element changed: %r -> %r" % (a[1][:60], b[1][:60]), "preserve-changed", nontrivial=nontrivial)
            continue
        want = collapse(a[1])
        if b[1] != want:
            # non-whitespace characters must survive in any case
            if _RUN.sub("", b[1]) != _RUN.sub("", a[1]):
                return Verdict("fail", "non-whitespace characters changed: %r -> %r" % (a[1][:80], b[1][:80]), "non-ws-changed", nontrivial=nontrivial)
            # recorded defect: runs split across tokens are collapsed per token, so more than one space can remain
            if b[1] == "".join(collapse(x) for x in a[3]) and len(a[3]) > 1 and active("C17-run-split-across-tokens"):
                known = "C17-run-split-across-tokens"
                continue
            return Verdict("fail", "text %r became %r, expected %r" % (a[1][:80], b[1][:80], want[:80]), "collapse-wrong", nontrivial=nontrivial)
    if out2 != out:
        return Verdict("fail", "applying the filter twice differs from applying it once", "not-idempotent", nontrivial=nontrivial)
    if known:
        return Verdict("known", finding=known, nontrivial=nontrivial, sig=sig)
    return Verdict("pass", nontrivial=nontrivial, sig=sig)


def check_serializer(case):
    """HTMLSerializer(strip_whitespace=True) must be the whitespace filter applied to the walker's stream: the same output as
    feeding the serializer (same other options) the hand-filtered stream.  (The filter counts open elements, so it has to
    see the stream before tags are dropped or rewritten by the serializer's other filters.)"""
    import warnings
    from html5lib.filters.whitespace import Filter
    from html5lib.serializer import HTMLSerializer
    text, walker, opts = case["text"], case.get("walker", "etree"), dict(case.get("opts") or {})
    try:
        r, p = h5.parse(text, builder=walker, container=case.get("container"), full_tree=True)
        if any(t["type"] == "SerializeError" for t in h5.walk(r, walker)):
            return Verdict("excluded", finding="walker error token (C11 known finding)")
    except Exception as e:
        return Verdict("excluded", finding="parse/walk raised %s (C03/C11's subject)" % type(e).__name__)
    with warnings.catch_warnings():
        warnings.simplefilter("ignore")
        try:
            a = HTMLSerializer(strip_whitespace=True, **opts).render(h5.walk(r, walker))
            b = HTMLSerializer(strip_whitespace=False, **opts).render(Filter(h5.walk(r, walker)))
        except Exception as e:
            return Verdict("fail", "serializer raised %r on %s" % (e, short(text, 160)), "serializer-exception:" + type(e).__name__, nontrivial=True)
    nontrivial = bool(re.search("[\t\n\x0c\r ]{2,}|[\t\n\x0c\r]", text)) and ("<pre" in text or "<textarea" in text)
    if a != b:
        k = next((i for i, (x, y) in enumerate(zip(a, b)) if x != y), min(len(a), len(b)))
        return Verdict("fail", "HTMLSerializer(strip_whitespace=True, %s) differs from serializing the hand-filtered stream at offset %d: %s vs %s; input %s"
                       % (opts, k, short(a[max(0, k - 30):k + 40], 100), short(b[max(0, k - 30):k + 40], 100), short(text, 200)), "serializer-strip-differs", nontrivial=True)
    return Verdict("pass", nontrivial=nontrivial, sig=sig64("ser", a, sorted(opts.items())), classes=["serializer-level"])


@guarded(40)
def check_case(case):
    if case.get("kind") == "serializer":
        return check_serializer(case)
    if "tokens" in case:
        return check_stream(case["tokens"])
    text, container, walker = case["text"], case.get("container"), case.get("walker", "etree")
    try:
        r, p = h5.parse(text, builder=walker, container=container, full_tree=True, scripting=bool(case.get("scripting")))
        toks = list(h5.walk(r, walker))
    except Exception as e:
        return Verdict("excluded", finding="parse/walk raised %s (C03/C11's subject)" % type(e).__name__)
    if any(t["type"] == "SerializeError" for t in toks):
        return Verdict("excluded", finding="walker error token (C11 known finding)")
    v = check_stream(toks)
    v.classes = tuple(v.classes) + ("walker:" + walker,)
    if v.status in ("pass", "known"):
        # the way the filter is really used: directly on the live walker (the filter rewrites tokens in place, so any token
        # object a walker shares between positions or walks would carry the rewrite elsewhere)
        from html5lib.filters.whitespace import Filter
        want = list(Filter(_snapshot(toks)))
        live = list(Filter(h5.walk(r, walker)))
        again = list(h5.walk(r, walker))
        if live != want:
            k = next((i for i, (a, b) in enumerate(zip(live, want)) if a != b), min(len(live), len(want)))
            return Verdict("fail", "filter on the live %s walker differs from the filter on a copy of its tokens at token %d: %s vs %s; input %s"
                           % (walker, k, short(live[k:k + 1], 100), short(want[k:k + 1], 100), short(text, 160)), "live-walker-differs", nontrivial=True)
        if again != toks:
            return Verdict("fail", "a second walk of the same tree differs after filtering the first; input %s" % short(text, 160), "walk-poisoned", nontrivial=True)
        # the same two clauses judged against the TREE (our own traversal) instead of the walker's account of it: every
        # non-whitespace character of the tree comes out, in order; and where the tree says 'not inside pre/textarea/raw text'
        # no tab, newline or form feed survives
        if walker == "dom" and container is None:
            # the dom tree has one text node per character token, so the filter's output shows where tokens end: that must not depend
            # on how the characters arrived (here: the same text through a text stream that returns 5, 3, 7, 2 ... characters per read)
            from vf.props.c02 import _ShortReads
            try:
                r2, _p2 = h5.parse(_ShortReads(text, [5, 3, 7, 2, 11]), builder="dom", full_tree=True, scripting=bool(case.get("scripting")))
                other = list(Filter(h5.walk(r2, "dom")))
            except Exception as e:
                other = None
            if other is not None and other != want:
                k = next((i for i, (a, b) in enumerate(zip(other, want)) if a != b), min(len(other), len(want)))
                return Verdict("fail", "filtered dom stream depends on how the text arrives (token %d: %s read in short pieces, %s in one piece); input %s"
                               % (k, short(other[k:k + 1], 100), short(want[k:k + 1], 100), short(text, 160)), "arrival-dependent", nontrivial=True)
        msg = tree_clause(obs.flat(r), want)
        if msg:
            return Verdict("fail", "%s; %s walker, input %s" % (msg, walker, short(text, 200)), "tree:" + msg.split(":")[0][:40], nontrivial=True)
    return v


def _tree_groups(fl):
    """maximal text runs of the tree in document order, each with 'judged' = no ancestor is named like a preserve / undecided element"""
    out, stack, last = [], [], None
    for r in fl:
        d = r[0]
        while stack and stack[-1][0] >= d:
            stack.pop()
        if r[1] == "text":
            if last is not None and last == d:
                out[-1] = (out[-1][0] + r[2], out[-1][1])
            else:
                out.append((r[2], not any(f for _, f in stack)))
            last = d
            continue
        last = None
        if r[1] == "elem":
            stack.append((d, r[3] in PRESERVE or r[3] in DONTCARE))
    return out


def tree_clause(fl, filtered):
    tg = _tree_groups(fl)
    fg = []
    prev_text = False
    for t in filtered:
        if t["type"] in TEXT:
            if prev_text:
                fg[-1] += t["data"]
            else:
                fg.append(t["data"])
            prev_text = True
        else:
            prev_text = False
    strip = lambda x: _RUN.sub("", x)
    a, b = "".join(strip(x[0]) for x in tg), "".join(strip(x) for x in fg)
    if a != b:
        k = next((i for i, (x, y) in enumerate(zip(a, b)) if x != y), min(len(a), len(b)))
        return "non-whitespace characters lost or altered: the tree has %s where the filtered stream has %s (character %d)" % (ascii(a[k:k + 12]), ascii(b[k:k + 12]), k)
    if len(tg) == len(fg):
        for (tt, judged), ft in zip(tg, fg):
            if judged and re.search("[\t\n\x0c\r]", ft):
                return "white space not collapsed: the text %s lies outside pre/textarea/raw-text elements in the tree and comes out as %s" % (ascii(tt[:40]), ascii(ft[:40]))
    return None


_WS = st.sampled_from([" ", "  ", "\n", "\t", "\x0c", "\r\n", " \n ", "&#32;", "&#9;", "&#10; ", " &#32; ", "\xa0", " ", " ", "a", "b c", "x  y", " x ", "&amp;", "&lt; "])
_WRAP = st.sampled_from(["<pre>%s<br>%s</pre>", "<pre>%s<img>%s<b>%s</b>%s</pre>", "<pre><b>%s</b>%s</pre>", "<textarea>%s</textarea>%s", "<pre>%s<hr>%s<input>%s</pre>%s", "<pre>%s</pre>", "<p>%s</p>", "<textarea>%s</textarea>", "<pre><b>%s</b> </pre>", "<script>%s</script>", "<style>%s</style>", "<xmp>%s</xmp>",
                         "<div> %s </div>", "<span>%s</span> ", "<b> %s<i> </i></b>", "<table> <tr> <td> %s </table>", "<svg><style>%s</style></svg>", "<title>%s</title>",
                         "<pre><pre>%s</pre>%s</pre>", "<pre><p>%s</pre><div>%s</div>", "<pre><table><colgroup><col></colgroup> </table>%s</pre>%s", "<pre><ul><li>%s</ul>%s</pre>%s",
                         "<pre><dl><dt>%s<dd>%s</dl></pre>%s", "<textarea>%s</textarea><ul><li>%s<li>%s</ul>", "<pre><table><tr><td>%s</table>%s</pre> %s", "<noscript>%s</noscript>", "<ul> <li> %s </ul>", "%s<br>%s", "<!--c-->%s", "<pre>%s<textarea>%s</textarea>%s</pre>", "<iframe>%s</iframe>",
                         # text that reaches the tree in one piece although it holds white space (foster-parented table text, CDATA sections, plaintext),
                         # and elements whose NAME merely ends like a preserve element's
                         "<table> %s<tr><td>%s</table>", "<table><tr> %s</table>%s", "<svg><![CDATA[ %s ]]></svg>", "<math><mi> %s</mi><![CDATA[%s]]></math>", "<x}pre>%s</x}pre>",
                         "<my}script>%s</my}script>%s", "<t}textarea>%s</t}textarea>", "<o:pre>%s</o:pre>", "<select> %s<option> %s</select>", "<div>%s<plaintext> %s"])


@st.composite
def _texts(draw):
    parts = []
    for _ in range(draw(st.integers(1, 6))):
        w = draw(_WRAP)
        n = w.count("%s")
        fills = tuple("".join(draw(st.lists(_WS, min_size=1, max_size=5))) for _ in range(n))
        parts.append(w % fills)
    if draw(st.integers(0, 3)) == 0:
        parts.append(draw(soup.soup_text(max_items=10))[1])
    return "".join(parts)


def shards(tier):
    quick = tier == "quick"
    return [{"kind": "hyp", "n": 3000 if quick else 40000} for _ in range(16)] + [{"kind": "long"}] + [{"kind": "serializer", "n": 1500 if quick else 20000} for _ in range(2)]


def run_shard(desc, seed, tier):
    acc = Acc()
    if desc["kind"] == "long":
        for text in soup.long_docs():
            for walker in ("etree", "dom"):
                case = {"text": text, "container": None, "walker": walker, "scripting": False}
                acc.add(case, check_case(case))
        return acc

    if desc["kind"] == "serializer":
        so = st.fixed_dictionaries({"omit_optional_tags": st.booleans(), "sanitize": st.booleans(), "alphabetical_attributes": st.booleans(),
                                    "quote_attr_values": st.sampled_from(["legacy", "always"])})

        def fs(x):
            text, container, walker, o = x
            case = {"kind": "serializer", "text": text, "container": container, "walker": walker, "opts": o}
            acc.add(case, check_case(case))
        drive(st.tuples(_texts(), st.one_of(st.none(), st.none(), st.sampled_from(["div", "pre", "td"])), st.sampled_from(["etree", "dom"]), so), fs, desc["n"], seed)
        return acc
    strat = st.tuples(_texts(), st.one_of(st.none(), st.none(), st.sampled_from(["div", "pre", "td", "textarea", "p"])), st.sampled_from(["etree", "dom"]), st.booleans())

    def fn(x):
        text, container, walker, scripting = x
        case = {"text": text, "container": container, "walker": walker, "scripting": scripting}
        acc.add(case, check_case(case))
    drive(strat, fn, desc["n"], seed)
    return acc
