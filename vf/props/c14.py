"""C14 - every character reference decodes to the standard's replacement (exhaustive)."""
import html.entities

from vf import h5, obs
from vf.core import Acc, Verdict, active, short, sig64

ID = "C14"
TECHNIQUE = ("exhaustive enumeration of the finite domain (all 2231 names x follower classes x 5 contexts; all numeric values "
             "0..0x110000 + overflow samples x dec/x/X x ';'/none; all code points through entity-encoding) against an "
             "independent oracle (html.entities.html5 + numeric rules written from the standard)")
RULE = ("Named: every key of html.entities.html5 (2231 names, with and without ';' as listed) and every ';'-less stem that is not a key (2125; must stay literal) x follower in {EOF ; = a Z 0 9 space < & \" ' > # x} "
        "x context in {data, RCDATA, double-, single-, un-quoted attribute value}, observed through the tokenizer and through parseFragment. "
        "Numeric: every value 0..0x110000 (quick: a stratified 1/8 slice plus all special values) and overflow samples x {decimal, x, X} x {';', none}, "
        "batched ~400 per document and compared as a whole, bisected on mismatch. Reverse: every non-surrogate code point except NUL (CR is a recorded finding) serialised as "
        "text and attribute value with encoding ascii (quick: 1/4 slice; plus latin-1, koi8-r and shift_jis samples) and parsed back. "
        "Non-trivial = the unit contains a reference that the oracle decodes to something other than its literal text; distinct = distinct unit.")
ASSUMPTIONS = ["html.entities.html5 (CPython stdlib) is the standard's named character reference table",
               "numeric rules (0, surrogates, >0x10FFFF -> U+FFFD; C1 table; everything else unchanged) are written from the standard"]
SHRINK = {}

HTML5 = html.entities.html5
NAMES = sorted(HTML5)
# ';'-less stems that are NOT in the table: they must not decode as a whole (only a shorter legacy name inside them may)
STEMS = sorted(set(n[:-1] for n in HTML5 if n.endswith(";")) - set(HTML5))
_MAXLEN = max(len(k) for k in NAMES)
_ALNUM = set("abcdefghijklmnopqrstuvwxyzABCDEFGHIJKLMNOPQRSTUVWXYZ0123456789")
_DIG = set("0123456789")
_HEX = set("0123456789abcdefABCDEF")
C1 = {0x80: 0x20AC, 0x82: 0x201A, 0x83: 0x0192, 0x84: 0x201E, 0x85: 0x2026, 0x86: 0x2020, 0x87: 0x2021, 0x88: 0x02C6,
      0x89: 0x2030, 0x8A: 0x0160, 0x8B: 0x2039, 0x8C: 0x0152, 0x8E: 0x017D, 0x91: 0x2018, 0x92: 0x2019, 0x93: 0x201C,
      0x94: 0x201D, 0x95: 0x2022, 0x96: 0x2013, 0x97: 0x2014, 0x98: 0x02DC, 0x99: 0x2122, 0x9A: 0x0161, 0x9B: 0x203A,
      0x9C: 0x0153, 0x9E: 0x017E, 0x9F: 0x0178}
FOLLOWERS = ["", ";", "=", "a", "Z", "0", "9", " ", "<", "&", '"', "'", ">", "#", "x", "\n", "\xe9"]
CONTEXTS = ["data", "rcdata", "dq", "sq", "uq"]


def numeric_value(n):
    if n == 0 or n > 0x10FFFF or 0xD800 <= n <= 0xDFFF:
        return "�"
    if n in C1:
        return chr(C1[n])
    return chr(n)


def decode(s, in_attr):
    """Oracle: decode all character references in s (text or attribute value) per the standard."""
    out = []
    i = 0
    n = len(s)
    while i < n:
        c = s[i]
        if c != "&":
            out.append(c)
            i += 1
            continue
        j = i + 1
        if j < n and s[j] == "#":
            k = j + 1
            hexa = k < n and s[k] in "xX"
            if hexa:
                k += 1
            start = k
            digits = _HEX if hexa else _DIG
            while k < n and s[k] in digits:
                k += 1
            if k == start:
                out.append(s[i:start])
                i = start
                continue
            val = int(s[start:k], 16 if hexa else 10)
            if k < n and s[k] == ";":
                k += 1
            out.append(numeric_value(val))
            i = k
            continue
        if j < n and s[j] in _ALNUM:
            # longest match
            best = None
            for ln in range(min(_MAXLEN, n - j), 0, -1):
                if s[j:j + ln] in HTML5:
                    best = s[j:j + ln]
                    break
            if best is not None:
                end = j + len(best)
                if in_attr and best[-1] != ";" and end < n and (s[end] == "=" or s[end] in _ALNUM):
                    out.append(s[i:end])
                else:
                    out.append(HTML5[best])
                i = end
                continue
        out.append("&")
        i += 1
    return "".join(out)


def wrap(ctx, payload):
    """-> (document text, tokenizer start state, last start tag)."""
    if ctx == "data":
        return payload, "data", None
    if ctx == "rcdata":
        return payload, "rcdata", "title"
    if ctx == "dq":
        return '<a b="%s">' % payload, "data", None
    if ctx == "sq":
        return "<a b='%s'>" % payload, "data", None
    return "<a b=%s>" % payload, "data", None


def observe_tok(ctx, payload):
    text, state, last = wrap(ctx, payload)
    toks = h5.tokenize(text, state, last)
    if ctx in ("data", "rcdata"):
        return "".join(t[1] for t in toks if t[0] == "chars"), toks
    for t in toks:
        if t[0] == "start":
            d = dict(t[2])
            return d.get("b"), toks
    return None, toks


def observe_tree(ctx, payload):
    """Through parseFragment: text content / attribute value in the tree."""
    if ctx == "data":
        r, _ = h5.parse(payload, container="div")
    elif ctx == "rcdata":
        r, _ = h5.parse(payload, container="textarea")
    else:
        text, _, _ = wrap(ctx, payload)
        r, _ = h5.parse(text, container="div")
    fl = obs.flat(r)
    if ctx in ("data", "rcdata"):
        return "".join(x[2] for x in fl if x[1] == "text")
    for x in fl:
        if x[1] == "elem":
            return dict((a[1], a[2]) for a in x[4]).get("b")
    return None


def payload_ok(ctx, payload):
    """Units whose payload would terminate its own syntactic context are not part of the domain."""
    if ctx == "data" or ctx == "rcdata":
        return "<" not in payload
    if ctx == "dq":
        return '"' not in payload
    if ctx == "sq":
        return "'" not in payload
    return not (set(payload) & set(" \t\n\f\r>")) and payload != "" and payload[0] not in "\"'"


def _check_element_context(case):
    """text content of the element == what the reference tree constructor (on the reference tokenizer) gives"""
    from vf.ref import treebuilder as T
    markup = case["markup"]
    r, _ = h5.parse(markup, builder=case.get("builder", "etree"), container="div")
    got = "".join(x[2] for x in obs.flat(r) if x[1] == "text")
    want = "".join(x[2] for x in obs.flat_ref(T.parse_fragment(markup, context="div").root) if x[1] == "text")
    if got != want:
        return Verdict("fail", "%s builder: text of %s is %r, the standard gives %r" % (case.get("builder"), short(markup, 80), got, want), "element-context:" + case.get("builder", "etree"), nontrivial=True)
    return Verdict("pass", nontrivial=True, sig=sig64("elctx", markup))


def _check_edge_space(case):
    from html5lib.serializer import HTMLSerializer
    text, walker, enc = case["text"], case.get("walker", "etree"), case.get("encoding")
    tree, _ = h5.parse("<p>" + text + "</p>", builder=walker, container="div")
    ser = HTMLSerializer(omit_optional_tags=False, strip_whitespace=True)
    out = ser.render(h5.walk(tree, walker), enc) if enc else ser.render(h5.walk(tree, walker))
    if enc:
        out = out.decode(enc)
    r, _ = h5.parse(out, container="div")
    got = "".join(x[2] for x in obs.flat(r) if x[1] == "text")
    if got != text:
        return Verdict("fail", "text %r through the %s walker and HTMLSerializer(strip_whitespace=True, encoding=%r) is written as %s and decodes to %r" % (text, walker, enc, short(out, 80), got),
                       "edge-space:" + walker, nontrivial=True)
    return Verdict("pass", nontrivial=True, sig=sig64("edge", text, walker, enc))


def check_case(case):
    if case.get("kind") == "edge-space":
        return _check_edge_space(case)
    if case.get("kind") == "entity-token":
        return _check_entity_token(case)
    if case.get("kind") == "element-context":
        return _check_element_context(case)
    kind = case["kind"]
    if kind == "ref":
        ctx, payload = case["ctx"], case["payload"]
        want = decode(payload.replace("\r\n", "\n").replace("\r", "\n"), ctx in ("dq", "sq", "uq"))
        nontrivial = want != payload
        try:
            got, toks = observe_tok(ctx, payload)
        except Exception as e:
            return Verdict("fail", "tokenizer raised %r on %s" % (e, short(payload)), "exception:" + type(e).__name__, nontrivial=nontrivial)
        if got != want:
            return Verdict("fail", "context %s payload %s: standard %s, html5lib tokenizer %s" % (ctx, short(payload), short(want), short(got)),
                           "decode:" + ("numeric" if "&#" in payload else "named") + ":" + ("attr" if ctx in ("dq", "sq", "uq") else ctx),
                           nontrivial=nontrivial)
        if case.get("tree"):
            try:
                got2 = observe_tree(ctx, payload)
            except Exception as e:
                return Verdict("fail", "parseFragment raised %r on %s" % (e, short(payload)), "exception-tree:" + type(e).__name__, nontrivial=nontrivial)
            want2 = want if ctx in ("dq", "sq", "uq") else want.replace("\x00", "")
            if ctx == "rcdata":
                want2 = want  # fragment case: no textarea start tag is processed, so no leading newline is dropped
            if got2 != (want2 if want2 != "" or ctx in ("dq", "sq", "uq") else ""):
                return Verdict("fail", "context %s payload %s: standard %s, parseFragment %s" % (ctx, short(payload), short(want2), short(got2)),
                               "decode-tree:" + ctx, nontrivial=nontrivial)
        return Verdict("pass", nontrivial=nontrivial, sig=sig64(ctx, payload))
    if kind == "encode":
        text, enc, where = case["text"], case["encoding"], case["where"]
        return _check_encode(text, enc, where)
    raise ValueError(kind)


def _check_encode(text, enc, where):
    """text serialized with named-entity replacement for `enc` decodes back to the same text."""
    from html5lib.serializer import HTMLSerializer
    if where == "text":
        stream = [{"type": "Characters", "data": text}]
    else:
        stream = [{"type": "StartTag", "name": "a", "namespace": "http://www.w3.org/1999/xhtml", "data": {(None, "b"): text}},
                  {"type": "EndTag", "name": "a", "namespace": "http://www.w3.org/1999/xhtml"}]
    ser = HTMLSerializer(omit_optional_tags=False, inject_meta_charset=False, quote_attr_values="always")
    try:
        out = ser.render(stream, enc)
    except Exception as e:
        return Verdict("fail", "serializer raised %r for %s under %s" % (e, short(text), enc), "encode-exception:" + type(e).__name__)
    try:
        markup = out.decode(enc)
    except Exception as e:
        return Verdict("fail", "output not decodable as %s: %r" % (enc, e), "encode-undecodable")
    nontrivial = b"&" in out and "&" not in text
    r, _ = h5.parse(markup, container="div")
    fl = obs.flat(r)
    if where == "text":
        got = "".join(x[2] for x in fl if x[1] == "text")
    else:
        got = None
        for x in fl:
            if x[1] == "elem":
                got = dict((a[1], a[2]) for a in x[4]).get("b")
                break
    if got == text:
        return Verdict("pass", nontrivial=nontrivial, sig=sig64(enc, where, text))
    # which characters fail?
    bad = [ch for ch in text if _roundtrip_one(ser, ch, enc, where) != ch] if len(text) > 1 else list(text)
    if bad and all(ch == "\r" for ch in bad) and active("C14-cr-written-raw"):
        return Verdict("known", finding="C14-cr-written-raw", nontrivial=nontrivial, sig=sig64(enc, where, text))
    if bad and all(0x80 <= ord(ch) <= 0x9F and ord(ch) in C1 for ch in bad) and active("C14-c1-unrepresentable"):
        return Verdict("known", finding="C14-c1-unrepresentable", nontrivial=nontrivial, sig=sig64(enc, where, text))
    return Verdict("fail", "encoding %s, %s: %s serialised as %s parses back as %s (bad: %s)"
                   % (enc, where, short(text, 80), short(markup, 120), short(got, 80), short(bad, 80)), "encode-roundtrip:" + where, nontrivial=nontrivial)


def _roundtrip_one(ser, ch, enc, where):
    from html5lib.serializer import HTMLSerializer
    s = HTMLSerializer(omit_optional_tags=False, inject_meta_charset=False, quote_attr_values="always")
    if where == "text":
        stream = [{"type": "Characters", "data": ch}]
    else:
        stream = [{"type": "StartTag", "name": "a", "namespace": "http://www.w3.org/1999/xhtml", "data": {(None, "b"): ch}},
                  {"type": "EndTag", "name": "a", "namespace": "http://www.w3.org/1999/xhtml"}]
    try:
        markup = s.render(stream, enc).decode(enc)
    except Exception:
        return None
    r, _ = h5.parse(markup, container="div")
    fl = obs.flat(r)
    if where == "text":
        return "".join(x[2] for x in fl if x[1] == "text")
    for x in fl:
        if x[1] == "elem":
            return dict((a[1], a[2]) for a in x[4]).get("b")
    return None


# ---------------------------------------------------------------------------
SPECIAL_VALUES = sorted(set([0, 1, 8, 9, 0xA, 0xB, 0xC, 0xD, 0xE, 0x1F, 0x20, 0x26, 0x3C, 0x7F, 0x80, 0x81, 0x8D, 0x8F, 0x90, 0x9D, 0x9F, 0xA0,
                             0xD7FF, 0xD800, 0xDBFF, 0xDC00, 0xDFFF, 0xE000, 0xFDCF, 0xFDD0, 0xFDEF, 0xFDF0, 0xFFFD, 0xFFFE, 0xFFFF, 0x10000,
                             0x1FFFE, 0x1FFFF, 0x10FFFD, 0x10FFFE, 0x10FFFF, 0x110000] + list(range(0x80, 0xA0))))
OVERFLOW = [0x110001, 0x1FFFFF, 10 ** 9, 2 ** 31 - 1, 2 ** 31, 2 ** 32 - 1, 2 ** 32, 2 ** 32 + 1, 2 ** 32 + 0x41, 2 ** 64, 2 ** 64 + 0x41, 10 ** 40]
FORMS = [("", "%d"), ("x", "%x"), ("X", "%X"), ("x", "%X"), ("", "%08d"), ("x", "%08x")]


def _numeric_units(values):
    for v in values:
        for pfx, fmt in FORMS:
            for semi in (";", ""):
                yield "&#" + pfx + (fmt % v) + semi


def continuations(name):
    """Followers taken from the table: the next 1..3 characters of every longer name that starts with `name`
    (a longest-prefix search has to back off from exactly these)."""
    out = set()
    for other in NAMES:
        if other != name and other.startswith(name):
            rest = other[len(name):]
            for k in (1, 2, 3):
                if len(rest) > k:          # a *proper* prefix of the longer name: the longer one must not match
                    out.add(rest[:k])
    return sorted(out)


def shards(tier):
    quick = tier == "quick"
    out = []
    for i in range(4):
        out.append({"kind": "named", "part": i, "of": 4, "tree": True})
    for i in range(2):
        out.append({"kind": "named-continuations", "part": i, "of": 2})
    nparts = 24
    for i in range(nparts):
        out.append({"kind": "numeric", "part": i, "of": nparts, "stride": 8 if quick else 1})
    out.append({"kind": "numeric-special"})
    for i in range(8):
        out.append({"kind": "encode", "part": i, "of": 8, "stride": 4 if quick else 1})
    out.append({"kind": "encode-named"})
    out.append({"kind": "entity-tokens"})
    out.append({"kind": "element-contexts"})
    return out


def _batch_check(acc, ctx, units, sep="|"):
    """Compare a whole batch at once; on mismatch fall back to unit-by-unit (which pins the culprit)."""
    payload = sep.join(units)
    want = decode(payload, ctx in ("dq", "sq", "uq"))
    try:
        got, _ = observe_tok(ctx, payload)
    except Exception:
        got = None
    if got == want:
        acc.evaluations += len(units)
        acc.count("batched-units:" + ctx, len(units))
        return
    if len(units) == 1:
        case = {"kind": "ref", "ctx": ctx, "payload": units[0] + sep, "tree": False}
        acc.add(case, check_case(case))
        return
    mid = len(units) // 2
    _batch_check(acc, ctx, units[:mid], sep)
    _batch_check(acc, ctx, units[mid:], sep)


def run_shard(desc, seed, tier):
    acc = Acc()
    kind = desc["kind"]
    if kind == "named":
        mine = NAMES[desc["part"]::desc["of"]] + STEMS[desc["part"]::desc["of"]]
        n = 0
        for name in mine:
            for fol in (FOLLOWERS if name in HTML5 else ["", "=", "a", "0", " ", "<", "&", "x"]):
                for ctx in CONTEXTS:
                    for tail in ("", "z"):
                        payload = "&" + name + fol + (tail if fol else "")
                        if tail and not fol:
                            continue
                        if not payload_ok(ctx, payload):
                            acc.excluded["payload-ends-context"] = acc.excluded.get("payload-ends-context", 0) + 1
                            continue
                        case = {"kind": "ref", "ctx": ctx, "payload": payload, "tree": desc["tree"] and tail == ""}
                        v = check_case(case)
                        acc.add(case, v)
                        n += 1
        acc.extra["named_units"] = n
        acc.exhaustive = True
    elif kind == "named-continuations":
        mine = NAMES[desc["part"]::desc["of"]]
        n = 0
        for name in mine:
            for cont in continuations(name):
                for tail in ("!", ";", "", "=", "z"):
                    for ctx in ("data", "rcdata", "dq", "uq"):
                        payload = "&" + name + cont + tail
                        if not payload_ok(ctx, payload):
                            continue
                        case = {"kind": "ref", "ctx": ctx, "payload": payload, "tree": False}
                        acc.add(case, check_case(case))
                        n += 1
        acc.extra["continuation_units"] = n
        acc.exhaustive = True
    elif kind == "numeric":
        lo = 0x110001 * desc["part"] // desc["of"]
        hi = 0x110001 * (desc["part"] + 1) // desc["of"]
        stride = desc["stride"]
        off = seed % stride
        vals = range(lo + ((off - lo) % stride), hi, stride)
        units = list(_numeric_units(vals))
        B = 420
        nsig = 0
        for ctx in ("data", "dq") if stride > 1 else ("data", "rcdata", "dq", "uq"):
            for i in range(0, len(units), B):
                _batch_check(acc, ctx, units[i:i + B])
        # every unit is non-trivial (a numeric reference always decodes to something else than its text)
        for u in units[::97]:
            acc.sigs.add(sig64("num", u))
        acc.extra["numeric_values"] = len(vals)
        acc.extra["numeric_units_distinct"] = len(units)
        acc.exhaustive = stride == 1
        if len(acc.samples) < 3:
            acc.samples.append({"kind": "numeric-batch", "first_units": units[:6]})
    elif kind == "numeric-special":
        units = list(_numeric_units(SPECIAL_VALUES + OVERFLOW))
        for ctx in CONTEXTS:
            for u in units:
                for fol in ("", ";", "a", "g", "0", " ", "=", "&", "#"):
                    payload = u + fol
                    if not payload_ok(ctx, payload):
                        continue
                    case = {"kind": "ref", "ctx": ctx, "payload": payload, "tree": fol in ("", "a")}
                    acc.add(case, check_case(case))
        acc.exhaustive = True
    elif kind == "encode":
        stride = desc["stride"]
        cps = [cp for cp in range(1, 0x110000) if not (0xD800 <= cp <= 0xDFFF)]
        cps = cps[desc["part"]::desc["of"]]
        off = seed % stride
        B = 64
        for enc in ["ascii"] + (["iso-8859-1", "koi8-r", "shift_jis", "windows-1252", "utf-8"] if desc["part"] % 2 == 0 else []):
            mine = cps if enc == "ascii" else cps[::23]
            chunks = [mine[i:i + B] for i in range(0, len(mine), B)]
            for ci, ch in enumerate(chunks):
                if ci % stride != off:
                    continue
                text = "".join(chr(c) for c in ch)
                variants = [text]
                if enc != "utf-8" and ci % 3 == 0:
                    # every character followed by an alphanumeric / '=': a reference written without ';' would be misread
                    variants += ["".join(chr(c) + "a" for c in ch), "".join(chr(c) + "=1" for c in ch[:16])]
                for text in variants:
                  for where in ("text", "attr"):
                    case = {"kind": "encode", "text": text, "encoding": enc, "where": where}
                    v = check_case(case)
                    if v.status == "fail" and len(text) > 3:
                        # pin the culprit: halves, down to a few characters
                        parts = [text[:len(text) // 2], text[len(text) // 2:]]
                        while parts:
                            t2 = parts.pop()
                            c1 = {"kind": "encode", "text": t2, "encoding": enc, "where": where}
                            v1 = check_case(c1)
                            if v1.status == "fail" and len(t2) > 3:
                                parts += [t2[:len(t2) // 2], t2[len(t2) // 2:]]
                            else:
                                acc.add(c1, v1)
                    else:
                        acc.add(case, v)
                        acc.count("encoded-codepoints:" + enc, len(text))
        acc.exhaustive = stride == 1
    elif kind == "element-contexts":
        # references as element content where the tree constructor (not the tokenizer) treats newlines / white space specially:
        # pre, listing, textarea, table cells, select, after other text; both tree builders
        ws_names = sorted(n for n in HTML5 if HTML5[n].strip(" \t\n\x0c\r") == "" or "\n" in HTML5[n])
        refs = ["&" + n for n in ws_names] + ["&#10;", "&#xA;", "&#9;", "&#32;", "&#13;", "&#12;", "&amp;\n", "&lt;\n", "&#10;\n", "&nbsp;\n", "&amp;", "&eacute;\n"] + \
               ["&" + n for n in NAMES[::37]]
        shells = ["<pre>x%sy</pre>", "<pre>%sy</pre>", "<listing>x%sy</listing>", "<textarea>x%sy</textarea>", "<textarea>%sy</textarea>", "<table><tr><td>x%sy</td></tr></table>",
                  "<pre><b>x</b>%sy</pre>", "<pre>x%s</pre>", "<p>x%sy</p>",
                  # text that is foster-parented out of a table (collected as pending table text first), select and caption content
                  "<table>x%sy</table>", "<table><tr>x%s y</tr></table>", "<table><tbody>x %sy</table>", "<table>x%s</table>", "<select><option>x%sy</select>", "<table><caption>x%sy</caption></table>"]
        for builder in ("etree", "dom"):
            for shell in shells:
                for ref in refs:
                    markup = shell % ref
                    case = {"kind": "element-context", "markup": markup, "builder": builder}
                    acc.add(case, check_case(case))
    elif kind == "entity-tokens":
        # the walker-format 'Entity' token (an unexpanded entity reference in the tree): whatever the serializer writes for it -
        # the reference again, or its expansion when resolve_entities is on - must decode to the entity's characters, also when
        # the following text would continue a reference or a tag
        from html5lib.serializer import HTMLSerializer
        names = sorted(n[:-1] for n in HTML5 if n.endswith(";"))
        tails = ["", "x", "lt;y", "#65;", "b>", "amp;", ";"]
        for resolve in (True, False):
            ser = HTMLSerializer(omit_optional_tags=False, resolve_entities=resolve)
            for i in range(0, len(names), 40):
                for tail in tails:
                    group = names[i:i + 40]

                    def run(ns):
                        stream = []
                        want = []
                        for nm in ns:
                            stream += [{"type": "StartTag", "name": "p", "namespace": "http://www.w3.org/1999/xhtml", "data": {}}, {"type": "Characters", "data": "a"},
                                       {"type": "Entity", "name": nm}] + ([{"type": "Characters", "data": tail}] if tail else []) + \
                                      [{"type": "EndTag", "name": "p", "namespace": "http://www.w3.org/1999/xhtml"}]
                            want.append("a" + HTML5[nm + ";"] + tail)
                        out = ser.render(stream)
                        r, _ = h5.parse(out, container="div")
                        got = []
                        cur = None
                        for x in obs.flat(r)[1:]:
                            if x[1] == "elem" and x[0] == 1:
                                cur = []
                                got.append(cur)
                            elif x[1] == "text" and cur is not None:
                                cur.append(x[2])
                        return ["".join(g) for g in got], want, out
                    got, want, out = run(group)
                    if got == want and not ser.errors:
                        acc.add({"kind": "entity-token", "names": group[:2], "tail": tail, "resolve": resolve}, Verdict("pass", nontrivial=True, sig=sig64("ent", i, tail, resolve)))
                        acc.count("entity-tokens", len(group))
                        continue
                    for nm in group:
                        g1, w1, o1 = run([nm])
                        if g1 != w1:
                            acc.add({"kind": "entity-token", "names": [nm], "tail": tail, "resolve": resolve},
                                    Verdict("fail", "Entity token %r followed by text %r (resolve_entities=%s) is written as %s, which decodes to %r instead of %r"
                                            % (nm, tail, resolve, short(o1, 80), g1, w1), "entity-token:%s" % ("resolved" if resolve else "kept"), nontrivial=True))
    elif kind == "encode-named":
        # Unicode-but-not-HTML white space at the edges of a text node, through tree -> walker -> serializer(strip_whitespace=True):
        # the named references of these characters must come back as the characters (the text has no ASCII white space to collapse)
        from html5lib.serializer import HTMLSerializer
        uni_ws = sorted(set(ord(v) for v in HTML5.values() if len(v) == 1 and v.isspace() and v not in " \t\n\x0c\r") | {0xA0, 0x2003, 0x3000})
        for cp in uni_ws:
            for shape in ("%sa", "a%s", "%s", "a%sb", "%s%s"):
                text = shape.replace("%s", chr(cp))
                for walker in ("etree", "dom"):
                    for enc in ("ascii", None):
                        case = {"kind": "edge-space", "text": text, "walker": walker, "encoding": enc}
                        acc.add(case, check_case(case))
        # every code point that has a name in the standard's table (these are the ones the serializer writes as named
        # references), in every tier, each followed by the characters that would be misread after an unterminated name
        from html.entities import html5 as TABLE
        cps = sorted(set(ord(v) for v in TABLE.values() if len(v) == 1) | set(range(0xA0, 0x180)))
        for enc in ("ascii", "koi8-r"):
            for i in range(0, len(cps), 16):
                ch = cps[i:i + 16]
                for sep in ("", "a", ";", "=1", "9", "x;", "A"):
                    text = "".join(chr(c) + sep for c in ch)
                    for where in ("text", "attr"):
                        case = {"kind": "encode", "text": text, "encoding": enc, "where": where}
                        v = check_case(case)
                        if v.status == "fail":
                            for c in ch:
                                c1 = {"kind": "encode", "text": chr(c) + sep, "encoding": enc, "where": where}
                                v1 = check_case(c1)
                                if v1.status != "pass":
                                    acc.add(c1, v1)
                        else:
                            acc.add(case, v)
                            acc.count("encoded-named-codepoints:" + enc, len(ch))
    return acc


def _check_entity_token(case):
    """replay form of one unit of the 'entity-tokens' shard"""
    from html5lib.serializer import HTMLSerializer
    nm, tail, resolve = case["names"][0], case["tail"], case["resolve"]
    ser = HTMLSerializer(omit_optional_tags=False, resolve_entities=resolve)
    stream = [{"type": "Characters", "data": "a"}, {"type": "Entity", "name": nm}] + ([{"type": "Characters", "data": tail}] if tail else [])
    out = ser.render(stream)
    r, _ = h5.parse(out, container="div")
    got = "".join(x[2] for x in obs.flat(r) if x[1] == "text")
    want = "a" + HTML5[nm + ";"] + tail
    if got != want:
        return Verdict("fail", "Entity token %r followed by text %r (resolve_entities=%s) is written as %s, which decodes to %r instead of %r" % (nm, tail, resolve, short(out, 80), got, want),
                       "entity-token:%s" % ("resolved" if resolve else "kept"), nontrivial=True)
    return Verdict("pass", nontrivial=True)


def finish(cov, total, tier):
    cov["exhaustive"] = tier == "thorough"
    cov["note"] = ("evaluations counts units (one reference in one context), batched units included; quick runs the whole named table and "
                   "the special numeric values, and a seed-rotated 1/8 slice of the plain numeric space and 1/4 of the encode space")
