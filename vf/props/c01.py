"""C01 - tree construction follows the WHATWG algorithm for every input."""
import itertools
import os
import subprocess
import sys

from hypothesis import strategies as st

from vf import h5, obs
from vf.core import Acc, Verdict, active, drive, guarded, short, sig64
from vf.gen import soup
from vf.ref import treebuilder as T

ID = "C01"
TECHNIQUE = ("differential testing against an independently written reference WHATWG tree constructor (on a reference tokenizer): "
             "Hypothesis markup soup x {document, fragment in 45 contexts} x scripting, and a systematic insertion-mode-prefix x token-pair product")
RULE = ("(a) Hypothesis markup soup (10 bias profiles: table, select, formatting misnesting, foreign content, head/noscript, frameset, raw text, ruby...) "
        "x {parse, parseFragment with 45 context names} x scripting; (b) ~60 prefixes, one or more per insertion mode / stack shape, x every ordered pair of tokens "
        "from a ~250-symbol token alphabet (start+end tag of every pooled name, text, whitespace, NUL, comment, doctype) (quick: a seed-rotated slice). "
        "Oracle: the directly traversed tree html5lib builds (etree fullTree builder, the default backend) == the tree vf/ref/treebuilder.py (strict June-2020 standard) builds, "
        "attribute order included; the same case parsed twice and on a fresh parser must agree, and a sample is re-run in a subprocess under another PYTHONHASHSEED. "
        "Cases whose reference trace executes a revision-ambiguous step or template machinery are excluded and counted; a mismatch is attributed to a recorded deviation only "
        "if the reference with exactly the compat switches whose trigger fired reproduces html5lib's tree. Non-trivial = the trace has a tree-construction error, adoption agency "
        "with a furthest block, reconstruction, foster parenting, foreign content / integration point, a mode outside initial..in body/text/after body, or a fragment context other "
        "than div; distinct = distinct trace signature (set of trace tags + modes entered).")
ASSUMPTIONS = ["vf/ref/treebuilder.py + vf/ref/tokenizer.py are faithful transcriptions of the June-2020 standard (self-tests: 263 + 364 hand-derived cases; SPEC_NOTES.md)",
               "html5lib's tree is observed through the etree fullTree builder (C04 covers equality with the other builders)",
               "steps whose 2020 wording is uncertain (ambiguous:* trace tags) and <template> are excluded, not judged"]
SHRINK = {"text": "str"}

COMPAT = T.COMPAT_SWITCHES


def impl_tree(case):
    text, container, scripting = case["text"], case.get("container"), bool(case.get("scripting"))
    r, p = h5.parse(text, builder="etree", namespace=True, scripting=scripting, container=container, full_tree=True)
    return obs.clarkify(obs.flat(r))


def ref_result(case, compat=frozenset()):
    text, container, scripting = case["text"], case.get("container"), bool(case.get("scripting"))
    if container is None:
        return T.parse_document(text, scripting=scripting, compat=compat)
    return T.parse_fragment(text, context=container, scripting=scripting, compat=compat)


INTERESTING = ("tree-error", "aaa:furthest-block", "reconstruct", "foster", "table-text-foster", "foreign", "integration-point")
PLAIN_MODES = frozenset(["initial", "before html", "before head", "in head", "after head", "in body", "text", "after body", "after after body"])


def classify(case, res):
    tr = res.trace
    nontrivial = any(t in tr for t in INTERESTING) or bool(set(res.modes) - PLAIN_MODES) or case.get("container") not in (None, "div")
    sig = sig64(tuple(sorted(tr)), tuple(sorted(res.modes)), case.get("container") is None)
    return nontrivial, sig


@guarded(40)
def check_case(case):
    text = case["text"]
    res = ref_result(case)          # exceptions here are harness errors (our reference), they propagate
    tr = res.trace
    amb = sorted(t for t in tr if t.startswith("ambiguous:"))
    if amb:
        return Verdict("excluded", finding=amb[0])
    template = "template" in tr
    nontrivial, sig = classify(case, res)
    classes = ["mode:" + m for m in res.modes if m not in PLAIN_MODES] + [t for t in INTERESTING if t in tr]
    try:
        got = impl_tree(case)
    except Exception as e:
        return Verdict("fail", "%s: %s while parsing %s (container=%r)" % (type(e).__name__, short(str(e), 100), short(text, 160), case.get("container")),
                       "exception:" + type(e).__name__, nontrivial=True)
    want = obs.clarkify(obs.flat_ref(res.root))
    if got == want:
        return Verdict("pass", nontrivial=nontrivial, sig=sig, classes=classes)
    if template and active("C01-template"):
        # html5lib has no template support at all; nothing to model: every mismatch of a case that ran template
        # machinery in the reference is counted under this finding
        return Verdict("known", finding="C01-template", nontrivial=nontrivial, sig=sig, classes=classes)
    # recorded deviations: only switches whose trigger fired in the reference trace (and that are listed as known);
    # the smallest explanation wins: each fired switch alone first, then all of them together (to a fixpoint)
    fired = {t[4:] for t in tr if t.startswith("dev:")} & COMPAT
    fired = {s for s in fired if active("C01-" + s)}
    if len(fired) > 1:
        for sw in sorted(fired):
            res2 = ref_result(case, compat=frozenset([sw]))
            if obs.clarkify(obs.flat_ref(res2.root)) == got:
                return Verdict("known", finding="C01-" + sw, nontrivial=nontrivial, sig=sig, classes=classes)
    cur = set(fired)
    for _ in range(4):
        if not cur:
            break
        res2 = ref_result(case, compat=frozenset(cur))
        if obs.clarkify(obs.flat_ref(res2.root)) == got:
            return Verdict("known", finding="+".join("C01-" + x for x in sorted(cur)), nontrivial=nontrivial, sig=sig, classes=classes)
        more = {t[4:] for t in res2.trace if t.startswith("dev:")} & COMPAT
        more = {s for s in more if active("C01-" + s)}
        if more <= cur:
            break
        cur |= more
    fired = cur
    d = obs.first_diff(want, got)
    devs = sorted(t for t in tr if t.startswith("dev:"))
    if fired:
        # a recorded deviation was triggered but its model does not reproduce html5lib's tree exactly
        return Verdict("masked", "input %s container=%r: recorded triggers %s fired, compat model differs" % (short(text, 200), case.get("container"), sorted(fired)),
                       finding="masked:" + "+".join(sorted(fired)), nontrivial=nontrivial, sig=sig, classes=classes)
    kind = "%s/%s" % (d[1][1] if d[1] else "-", d[2][1] if d[2] else "-")
    what = ("input %s container=%r scripting=%s: trees differ at record %d: standard %s, html5lib %s; dev tags %s\n--- standard\n%s\n--- html5lib\n%s"
            % (short(text, 200), case.get("container"), bool(case.get("scripting")), d[0], short(d[1], 150), short(d[2], 150), devs,
               obs.dump(want, 50), obs.dump(got, 50)))
    return Verdict("fail", what, "diff:%s:%s:%s" % (kind, "doc" if case.get("container") is None else "frag", ",".join(devs)[:80]),
                   nontrivial=nontrivial, sig=sig, classes=classes)


def determinism_violation(case):
    """Second clause: the result is a function of input and options alone (same process, fresh parser)."""
    a = impl_tree(case)
    b = impl_tree(case)
    if a != b:
        return "two parses of the same input differ"
    return None


_SUB = r'''
import sys, json, hashlib
sys.path.insert(0, %r); sys.path.insert(0, %r)
from vf import h5, obs
from vf.core import from_json
cases = from_json(json.load(sys.stdin))
out = []
for c in cases:
    r, p = h5.parse(c["text"], builder="etree", namespace=True, scripting=bool(c.get("scripting")), container=c.get("container"), full_tree=True)
    out.append(hashlib.sha1(repr(obs.flat(r)).encode("utf-8", "surrogatepass")).hexdigest())
print(json.dumps(out))
'''


def subprocess_digests(cases, hashseed):
    import json
    from vf.core import REPO, VERIF_DIR, to_json
    env = dict(os.environ, PYTHONHASHSEED=str(hashseed), PYTHONDONTWRITEBYTECODE="1")
    p = subprocess.run([sys.executable, "-c", _SUB % (REPO, VERIF_DIR)], input=json.dumps(to_json(cases)), capture_output=True, text=True, env=env, timeout=600)
    if p.returncode != 0:
        raise RuntimeError("determinism subprocess failed: " + p.stderr[-500:])
    return json.loads(p.stdout)


# ---------------------------------------------------------------------------
# (b) systematic mode x token-pair product

PREFIXES = [
    ("", None), ("<!DOCTYPE html>", None), ("<html>", None), ("<head>", None), ("<head><noscript>", None), ("</head>", None), ("<body>", None),
    ("<p>", None), ("<p><b><i>", None), ("<a><div>", None), ("<b><p>", None), ("<ul><li>", None), ("<dl><dd>", None), ("<button>", None), ("<ruby><rt>", None),
    ("<table>", None), ("<table><tr>", None), ("<table><tr><td>", None), ("<table><caption>", None), ("<table><colgroup>", None), ("<table><tbody>", None),
    ("<table><td><select>", None), ("<select>", None), ("<select><optgroup><option>", None), ("<textarea>", None), ("<title>", None), ("<script>", None),
    ("<style>", None), ("<pre>", None), ("<frameset>", None), ("<frameset></frameset>", None), ("<frameset></frameset></html>", None), ("</body>", None),
    ("</html>", None), ("<svg>", None), ("<svg><foreignObject>", None), ("<svg><desc>", None), ("<math><mi>", None), ("<math><annotation-xml encoding=text/html>", None),
    ("<math><annotation-xml>", None), ("<applet>", None), ("<a><table>", None), ("<b><table><td>", None), ("<form>", None), ("<table><form>", None),
    ("<h1>", None), ("<nobr>", None), ("<b><b><b><b>", None), ("<p><b><i><u><s><em>", None), ("<object><table>", None), ("<noscript>", None), ("<xmp>", None),
    ("<table><tr><td><table>", None), ("<body><table><td><p><a>", None),
    ("<div><table><caption>", None), ("<div><table><tr><td>", None), ("<ul><li><table><tr><td>", None), ("<div><button><p>", None), ("<div><applet>", None),
    ("<div><marquee><p>", None), ("<div><object><p>", None), ("<p><svg><foreignObject>", None), ("<div><math><mi>", None), ("<div><svg><title>", None),
    ("<div><select>", None), ("<p><b><b><b><b>", None), ("<p><b a=1><b a=1><b a=1><b a=1>", None), ("<p><b><b><b>", None), ("<ol><li><div><table><th>", None),
    ("<a><b><table><caption>", None), ("<dl><dt><svg><desc>", None), ("<form><table><tr>", None), ("<h1><table><tbody>", None),
    ("", "table"), ("", "tbody"), ("", "tr"), ("", "td"), ("", "select"), ("", "colgroup"), ("", "caption"), ("", "head"), ("", "html"), ("", "frameset"), ("", "body"),
    ("<tr>", "table"), ("<td>", "tr"), ("<option>", "select"), ("<b>", "td"), ("<svg>", "div"), ("<table>", "td"), ("<p>", "button"), ("<li>", "ul"),
]


def token_alphabet():
    names = sorted(set(soup.HTML_NAMES + ["svg", "math", "mi", "mglyph", "foreignObject", "desc", "annotation-xml", "x"]))
    al = []
    for n in names:
        al.append("<%s>" % n)
        al.append("</%s>" % n)
    al += ["a", " ", "\n", "\x00", "<!--c-->", "<!DOCTYPE html>", "<input type=hidden>", "<font color=red>", "<font size=1>", "<font face=f>", "<font>", "<font id=i>", "&nbsp;", "&#x2003;", "&#11;", "\xa0", "<br/>", "<svg/>", "<p a=1>", "<body a=1>", "<html a=1>",
           "<a href=x>", "<annotation-xml encoding=text/html>", "&amp;", " a ", "<![CDATA[x]]>"]
    return al


CORE_NAMES = """p div b a i table tr td th caption tbody colgroup col select option optgroup li ul dd dt h1 button form svg math mi desc br input textarea
script style title head body html frameset frame nobr applet ruby rt span pre hr img noscript""".split()


def core_alphabet():
    al = []
    for n in CORE_NAMES:
        al.append("<%s>" % n)
        al.append("</%s>" % n)
    al += ["a", " ", "\x00", "<!--c-->", "<!DOCTYPE html>", "<input type=hidden>", "<font color=red>", "<font size=1>", "<font face=f>", "<p a=1>", "&amp;", "&nbsp;", "&#11;"]
    return al


def shards(tier):
    quick = tier == "quick"
    out = []
    profs = soup.PROFILE_NAMES
    for i in range(10):
        out.append({"kind": "soup", "profile": profs[i % len(profs)], "n": 3000 if quick else 60000})
    for i in range(12):
        out.append({"kind": "pairs", "part": i, "of": 12, "stride": 1, "core": True})     # every pair over the core alphabet, both tiers
    for i in range(12):
        out.append({"kind": "pairs", "part": i, "of": 12, "stride": 16 if quick else 1, "core": False})
    for i in range(3):
        out.append({"kind": "grammar", "which": ["afe", "form", "afe"][i], "n": 6000 if quick else 150000})
    out.append({"kind": "distinct"})
    out.append({"kind": "determinism", "n": 300 if quick else 5000})
    out.append({"kind": "quirks"})
    if not quick:
        for i in range(6):
            out.append({"kind": "fuzz", "seconds": 300})
    return out


def run_shard(desc, seed, tier):
    acc = Acc()
    kind = desc["kind"]
    if kind == "fuzz":
        from vf.core import fuzz_shard
        return fuzz_shard("c01", desc["seconds"], seed)
    if kind == "soup":
        strat = st.tuples(soup.soup_text(profile=desc["profile"], max_items=40 if tier == "quick" else 120),
                          st.one_of(st.none(), st.none(), st.none(), st.sampled_from(soup.CONTEXTS)), st.booleans())

        def fn(x):
            (profile, text), container, scripting = x
            case = {"text": text, "container": container, "scripting": scripting}
            acc.add(case, check_case(case))
        drive(strat, fn, desc["n"], seed)
    elif kind == "pairs":
        al = core_alphabet() if desc.get("core") else token_alphabet()
        mine = PREFIXES[desc["part"]::desc["of"]]
        stride = desc["stride"]
        off = seed % stride
        k = 0
        n = 0
        for pre, container in mine:
            for a in al:
                for b in al:
                    k += 1
                    if k % stride != off:
                        continue
                    case = {"text": pre + a + b, "container": container, "scripting": bool(k & 64)}
                    acc.add(case, check_case(case))
                    n += 1
        acc.extra["mode_pair_cases_core" if desc.get("core") else "mode_pair_cases_full_alphabet"] = n
    elif kind == "grammar":
        # long sequences over tiny alphabets: states that need many *identical* or *paired* tokens in a row (Noah's ark across
        # markers, stale form pointer, nested scopes) are out of reach of the general soup
        AL = {"afe": ["<b>", "<b>", "<b>", "<i>", "</b>", "<p>", "</p>", "<table><tr><td>", "</table>", "<object>", "</object>", "x", "<a>", "</a>", "<nobr>", "<div>", "</div>",
                      "<b a=1>", "<caption>", "<marquee>", "</marquee>", "<button>", "</button>", "<applet>", "</applet>", "<td>", "</td>", "<th>", " "],
              "form": ["<form>", "<form>", "</form>", "</form>", "<table>", "</table>", "<object>", "</object>", "<marquee>", "</marquee>", "<applet>", "</applet>", "<div>", "</div>", "<p>", "x",
                       "<input>", "<tr>", "<td>", "</td>", "<template>", "</template>", "<button>", "</button>", "<select>", "</select>", "<svg>", "</svg>", "<li>", "<dd>"]}[desc["which"]]
        strat = st.tuples(st.lists(st.sampled_from(AL), min_size=4, max_size=16).map("".join), st.sampled_from([None, None, None, "div", "td", "table", "form", "object"]), st.booleans())

        def fn(x):
            text, container, scripting = x
            case = {"text": text, "container": container, "scripting": scripting}
            acc.add(case, check_case(case))
        drive(strat, fn, desc["n"], seed)
    elif kind == "distinct":
        # many DISTINCT tag names in one parse, then tags with dedicated rules: the per-phase handler caches of html5lib fill up
        # and evict; nothing in the standard depends on how many different names came before
        pres = ["", "<!DOCTYPE html>", "<table><tr><td>", "<select>", "<table>", "<table><caption>", "<svg>", "<frameset>", "<table><tr>", "<p>", "<ruby>", "<head>"]
        tails = ["<p>t<table><tr><td>c</table>", "<td>y</table>z", "<input><option>o", "<frame>", "</p></div></table>x", "<tr><td>q", "<li>a<li>b</li>", "<select><option>a<option>b",
                 "<b>x</p><i>y", "<caption>c<col>", "<body a=1><html b=2>", "</table>w<table>"]
        n = 0
        for pi, pre in enumerate(pres):
            for K in (3, 6, 9, 11, 12, 13, 17, 18, 30, 62, 63, 64, 114, 115, 116, 130, 200):
                for shape in range(3):
                    for ti in range(2):
                        body = "".join(("<n%d>" % i, "</n%d>" % i, "<n%d></n%d>" % (i, i))[shape] for i in range(K))
                        n += 1
                        case = {"text": pre + body + tails[(n + ti * 5) % len(tails)], "container": None if n % 3 else ["div", "table", "tr", "select", "frameset", "td", "colgroup"][n % 7],
                                "scripting": bool(n % 2)}
                        acc.add(case, check_case(case))
        for k, text in enumerate(soup.foreign_namesake_docs() + soup.integration_afe_docs() + soup.newline_docs()):
            case = {"text": ("<!DOCTYPE html>" if k % 2 else "") + text, "container": None if k % 5 else "div", "scripting": bool(k % 3 == 0)}
            acc.add(case, check_case(case))
        acc.extra["distinct_name_cases"] = n
    elif kind == "quirks":
        # the quirks tables, observed through the tree: in quirks mode <table> does not close an open p
        pubs = list(T.QUIRKS_PUBLIC_PREFIXES) + list(T.QUIRKS_PUBLIC_EXACT) + list(T.LIMITED_QUIRKS_PREFIXES) + \
            ["-//w3c//dtd html 4.01 frameset//", "-//w3c//dtd html 4.01 transitional//", "-//W3C//DTD HTML 4.01//EN", "-//W3C//DTD XHTML 1.0 Strict//EN", "", "x"]
        n = 0
        for pub in pubs:
            for variant in (pub, pub.upper(), pub + "EN", pub + "x", pub[:-1], "x" + pub):
                for sysid in (None, "", "x", T.QUIRKS_SYSTEM_EXACT, T.QUIRKS_SYSTEM_EXACT.upper(), "http://www.w3.org/TR/html4/loose.dtd"):
                    for name in ("html", "HTML", "htm"):
                        if name != "html" and sysid not in (None, "x"):
                            continue
                        if '"' in variant:
                            continue
                        d = '<!DOCTYPE %s PUBLIC "%s"%s>' % (name, variant, "" if sysid is None else ' "%s"' % sysid)
                        case = {"text": d + "<p><table>", "container": None, "scripting": False}
                        acc.add(case, check_case(case))
                        n += 1
        for sysid in ("", "x", T.QUIRKS_SYSTEM_EXACT, "about:legacy-compat"):
            for d in ('<!DOCTYPE html SYSTEM "%s">' % sysid, "<!DOCTYPE html>", "<!DOCTYPE>", "<!DOCTYPE html PUBLIC>", ""):
                case = {"text": d + "<p><table>", "container": None, "scripting": False}
                acc.add(case, check_case(case))
                n += 1
        acc.extra["quirks_table_cases"] = n
    else:
        # determinism: same process twice + another hash seed in a subprocess
        import hashlib
        cases = []

        def fn(x):
            (profile, text), container, scripting = x
            cases.append({"text": text, "container": container, "scripting": scripting})
        drive(st.tuples(soup.soup_text(max_items=40), st.one_of(st.none(), st.sampled_from(soup.CONTEXTS)), st.booleans()), fn, desc["n"], seed)
        here = []
        for c in cases:
            msg = None
            try:
                msg = determinism_violation(c)
                r, p = h5.parse(c["text"], builder="etree", namespace=True, scripting=bool(c.get("scripting")), container=c.get("container"), full_tree=True)
                here.append(hashlib.sha1(repr(obs.flat(r)).encode("utf-8", "surrogatepass")).hexdigest())
            except Exception as e:
                here.append("exc")
            v = Verdict("fail", msg, "nondeterministic", nontrivial=True) if msg else Verdict("pass", nontrivial=True, sig=sig64("det", c["text"], c["container"]))
            acc.add(c, v)
        there = subprocess_digests(cases, 12345 + seed)
        for c, a, b in zip(cases, here, there):
            if a != b and a != "exc":
                acc.add(c, Verdict("fail", "tree differs under another PYTHONHASHSEED / fresh interpreter for %s" % short(c["text"], 200), "hashseed-dependent", nontrivial=True))
        acc.extra["fresh_interpreter_comparisons"] = len(cases)
    return acc


def finish(cov, total, tier):
    cov["exhaustive"] = False
    cov["modes_seen"] = sorted(k[5:] for k in cov.get("classes", {}) if k.startswith("mode:"))
