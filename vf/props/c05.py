"""C05 - the result does not depend on how the input characters are delivered."""
import codecs
import io

from hypothesis import strategies as st

from vf import h5, obs
from vf.core import Acc, Verdict, active, drive, guarded, short, sig64
from vf.gen import soup

ID = "C05"
TECHNIQUE = ("metamorphic property-based testing: the same characters delivered as str / StringIO / short-read text stream / bytes / BytesIO / non-seekable "
             "short-read byte stream, under generated read-size schedules, internal chunk sizes and encodings, must give the tree and error list of the one-shot str parse")
RULE = ("Text = markup soup with boosted CR, LF, CRLF, lone/paired surrogates, astral and multi-character tokens; delivery = (source kind in 6 kinds) x (read schedule: "
        "Hypothesis list of read sizes >= 1, replayed by a file-like object that returns at most that many characters/bytes) x (_defaultChunkSize in {1,2,3,4,5,7,16,64,10240}) x "
        "(for byte kinds an encoding from 14 labels incl. multi-byte ones, declared certain by transport/override argument or BOM; the text is first projected into the codec's repertoire). "
        "Oracle: (flat tree, [(code, line, col)...]) == that of parsing the same characters as one str with the default chunk size (for bytes: the one-shot codec.decode(bytes,'replace')). "
        "Non-trivial = some read or chunk boundary falls inside a CRLF pair, next to a surrogate, inside a multi-byte sequence or inside a markup token (between '<' and '>' or '&' and ';'); "
        "distinct = distinct (text hash, boundary-kind set, source kind, chunk size).")
ASSUMPTIONS = ["a read() of a file-like source returns at least one character/byte unless the source is exhausted",
               "'supported encoding declared as certain' = transport_encoding / override_encoding argument or a BOM; labels from webencodings that CPython can decode"]
SHRINK = {"text": "str", "schedule": "list"}

CHUNKS = [1, 2, 3, 4, 5, 7, 16, 64, 10240]
KINDS = ["str", "stringio", "textstream", "bytes", "bytesio", "bytestream", "stringio-sub", "stringio-advanced", "bytesio-sub", "textstream", "bytestream"]
ENTRIES = ["method", "method", "method", "function", "fragment-method", "fragment-function"]
ENCODINGS = ["utf-8", "windows-1252", "iso-8859-2", "shift_jis", "euc-jp", "gbk", "big5", "euc-kr", "koi8-r", "windows-1251", "gb18030", "iso-8859-15",
             "bom-utf-8", "bom-utf-16le", "bom-utf-16be", "utf-16le", "utf-16be", "utf-16"]
PYCODEC = {"windows-1252": "cp1252", "windows-1251": "cp1251", "euc-kr": "cp949", "shift_jis": "cp932", "big5": "big5hkscs", "iso-8859-15": "iso8859-15"}


class ShortReads(object):
    """File-like object delivering `data` according to a schedule of maximum read sizes (cycled)."""

    def __init__(self, data, schedule, seekable=False):
        self.data = data
        self.pos = 0
        self.schedule = list(schedule) or [1]
        self.i = 0
        self.reads = []      # (start, end) of every non-empty read
        self._seekable = seekable

    def read(self, n=-1):
        if n == 0:
            return self.data[:0]
        lim = self.schedule[self.i % len(self.schedule)]
        self.i += 1
        if n is None or n < 0:
            n = len(self.data)
        k = max(1, min(n, lim))
        out = self.data[self.pos:self.pos + k]
        if out:
            self.reads.append((self.pos, self.pos + len(out)))
        self.pos += len(out)
        return out

    def __getattr__(self, name):
        if name in ("seek", "tell") and not self._seekable:
            raise AttributeError(name)
        raise AttributeError(name)


def project(text, enc):
    """Project the text into the repertoire of the codec (constructed, not filtered) -> (bytes, decoded reference text, webencodings label, how)."""
    import webencodings
    if enc.startswith("bom-"):
        label = enc[4:]
        py = {"utf-8": "utf-8", "utf-16le": "utf-16-le", "utf-16be": "utf-16-be"}[label]
        bom = {"utf-8": codecs.BOM_UTF8, "utf-16le": codecs.BOM_UTF16_LE, "utf-16be": codecs.BOM_UTF16_BE}[label]
        body = text.encode(py, "ignore")
        ref = body.decode(py, "replace")
        body = ref.encode(py, "ignore")
        ref = body.decode(py, "replace")
        return bom + body, ref, label, "bom"
    py = webencodings.lookup(enc).codec_info.name
    if py == "utf-16":
        py = "utf-16-le"        # the label utf-16 means UTF-16LE; no BOM is written here
    body = text.encode(py, "ignore")
    # to a fixed point: the byte string must be a valid, complete encoding of the reference text
    ref = body.decode(py, "replace")
    body = ref.encode(py, "ignore")
    if body[:3] == codecs.BOM_UTF8 or body[:2] in (codecs.BOM_UTF16_LE, codecs.BOM_UTF16_BE):
        body = " ".encode(py) + body
    ref = body.decode(py, "replace")
    return body, ref, enc, "arg"


class _SubStringIO(io.StringIO):
    """a genuine io.StringIO subclass whose read() delivers short reads along a schedule"""

    def __init__(self, text, schedule):
        io.StringIO.__init__(self, text, newline="")
        self._schedule, self._i = list(schedule) or [1], 0

    def read(self, n=-1):
        if n is None or n < 0:
            n = 1 << 30
        if n:
            n = max(1, min(n, self._schedule[self._i % len(self._schedule)]))
            self._i += 1
        return io.StringIO.read(self, n)


class _SubBytesIO(io.BytesIO):
    def __init__(self, data, schedule):
        io.BytesIO.__init__(self, data)
        self._schedule, self._i = list(schedule) or [1], 0

    def read(self, n=-1):
        if n is None or n < 0:
            n = 1 << 30
        if n:
            n = max(1, min(n, self._schedule[self._i % len(self._schedule)]))
            self._i += 1
        return io.BytesIO.read(self, n)


def run_parse(source, chunk, kw, entry="method"):
    """entry: HTMLParser.parse / html5lib.parse() / HTMLParser.parseFragment / html5lib.parseFragment() (the functions give no access to errors)"""
    import html5lib
    from html5lib import _inputstream
    old = _inputstream.HTMLUnicodeInputStream._defaultChunkSize
    _inputstream.HTMLUnicodeInputStream._defaultChunkSize = chunk
    try:
        if entry == "function":
            r = html5lib.parse(source, treebuilder="etree", **kw)
            return obs.flat(r), None, None
        if entry == "fragment-function":
            r = html5lib.parseFragment(source, container="div", treebuilder="etree", **kw)
            return obs.flat(r), None, None
        p = h5.parser("etree", True, full_tree=True)
        if entry == "fragment-method":
            r = p.parseFragment(source, container="div", **kw)
        else:
            r = p.parse(source, **kw)
        return obs.flat(r), [(code, pos[0], pos[1]) for (pos, code, v) in p.errors], p
    finally:
        _inputstream.HTMLUnicodeInputStream._defaultChunkSize = old


def boundaries_kinds(ref_text, cuts):
    """Which interesting places do the cut positions (character offsets into ref_text) fall into?"""
    kinds = set()
    n = len(ref_text)
    for c in cuts:
        if c <= 0 or c >= n:
            continue
        a, b = ref_text[c - 1], ref_text[c]
        if a == "\r" and b == "\n":
            kinds.add("in-crlf")
        if a == "\r":
            kinds.add("after-cr")
        if "\ud800" <= a <= "\udfff" or "\ud800" <= b <= "\udfff":
            kinds.add("at-surrogate")
        lt = ref_text.rfind("<", 0, c)
        if lt != -1 and ref_text.find(">", lt, c) == -1:
            kinds.add("in-tag")
        amp = ref_text.rfind("&", max(0, c - 10), c)
        if amp != -1 and ref_text.find(";", amp, c) == -1:
            kinds.add("in-charref")
    return kinds


@guarded(60)
def check_case(case):
    text, kind, chunk, schedule = case["text"], case["kind"], int(case["chunk"]), list(case.get("schedule") or [1])
    enc, via = case.get("encoding"), case.get("via", "transport")
    entry = case.get("entry", "method")
    kw = {}
    bkinds = set()
    how = None
    if kind in ("bytes", "bytesio", "bytestream", "bytesio-sub"):
        try:
            data, ref_text, label, how = project(text, enc)
        except Exception as e:
            raise
        if how == "arg":
            kw["override_encoding" if via == "override" else "transport_encoding"] = label
        if kind == "bytes":
            source = data
        elif kind == "bytesio":
            source = io.BytesIO(data)
        elif kind == "bytesio-sub":
            source = _SubBytesIO(data, schedule)
        else:
            source = ShortReads(data, schedule)
        if len(data) != len(ref_text):
            bkinds.add("multibyte-text")
    else:
        ref_text = text
        if kind == "str":
            source = text
        elif kind == "stringio":
            source = io.StringIO(text, newline="")
        elif kind == "stringio-sub":
            source = _SubStringIO(text, schedule)
        elif kind == "stringio-advanced":
            # the stream has been read from before: the document is what is left
            junk = "<!--junk-->\r<b>" * (1 + schedule[0] % 3)
            source = io.StringIO(junk + text, newline="")
            source.read(len(junk))
        else:
            source = ShortReads(text, schedule)
    ref_entry = entry      # the reference is the same entry point given the characters as one str
    try:
        want_tree, want_err, _ = run_parse(ref_text, 10240, {}, ref_entry)
    except Exception as e:
        return Verdict("excluded", finding="reference parse raised %s" % type(e).__name__)
    try:
        got_tree, got_err, p = run_parse(source, chunk, kw, entry)
    except Exception as e:
        return Verdict("fail", "%s: %s with kind=%s chunk=%d enc=%s schedule=%s on %s" % (type(e).__name__, short(str(e), 100), kind, chunk, enc, schedule[:8], short(text, 150)),
                       "exception:%s:%s" % (type(e).__name__, kind), nontrivial=True)
    # non-triviality: where do boundaries fall?
    n = len(ref_text)
    cuts = set(range(chunk, n, chunk)) if chunk < n else set()
    if isinstance(source, ShortReads) and isinstance(source.data, str):
        cuts |= {e for (s, e) in source.reads}
    elif isinstance(source, ShortReads):
        bkinds.add("byte-reads")
        # map byte offsets to "inside a multibyte sequence?"
        py = None
        try:
            for (s, e) in source.reads[:200]:
                try:
                    source.data[:e].decode(webenc_codec(enc), "strict")
                except UnicodeDecodeError:
                    bkinds.add("in-multibyte")
                    break
                except Exception:
                    break
        except Exception:
            pass
    bkinds |= boundaries_kinds(ref_text, cuts)
    nontrivial = bool(bkinds - {"byte-reads", "multibyte-text"})
    sig = sig64(ref_text, tuple(sorted(bkinds)), kind, chunk)
    classes = ["kind:" + kind, "entry:" + entry, "chunk:%d" % chunk] + ["boundary:" + b for b in bkinds] + (["enc:" + enc] if enc and kind.startswith("byte") else [])
    cfg = "kind=%s entry=%s chunk=%d enc=%s via=%s schedule=%s" % (kind, entry, chunk, enc, via, schedule[:10])
    # recorded defect: BOM sniffing does one read(4) and trusts it to return 4 bytes
    short_sniff = False
    if how == "bom" and active("C05-short-byte-reads-sniffing"):
        if kind == "bytestream" and source.reads:
            short_sniff = (source.reads[0][1] - source.reads[0][0]) < min(4, len(data))
        elif kind == "bytesio-sub":
            short_sniff = schedule[0] < min(4, len(data))
    if kind in ("bytes", "bytesio", "bytestream", "bytesio-sub") and p is not None:
        de = p.documentEncoding
        exp = label
        import webencodings
        if de is None or webencodings.lookup(de.name if hasattr(de, "name") else de) != webencodings.lookup(exp):
            if short_sniff:
                return Verdict("known", finding="C05-short-byte-reads-sniffing", nontrivial=nontrivial, sig=sig, classes=classes)
            return Verdict("fail", "encoding declared certain (%s) but documentEncoding is %r; %s" % (exp, de, cfg), "encoding-not-honoured", nontrivial=nontrivial, classes=classes)
    if got_tree != want_tree:
        if short_sniff and p is None:
            # the function entry points give no documentEncoding to look at: the lost BOM shows in the tree
            return Verdict("known", finding="C05-short-byte-reads-sniffing", nontrivial=nontrivial, sig=sig, classes=classes)
        if short_sniff:
            # the BOM was missed but a <meta> in the document names the same encoding: documentEncoding is right and the lost BOM shows
            # as a U+FEFF character at the start of the text - exactly that tree, nothing else, is the recorded finding
            try:
                alt_tree = run_parse("\ufeff" + ref_text, 10240, {}, ref_entry)[0]
            except Exception:
                alt_tree = None
            if alt_tree is not None and got_tree == alt_tree:
                return Verdict("known", finding="C05-short-byte-reads-sniffing", nontrivial=nontrivial, sig=sig, classes=classes)
        d = obs.first_diff(want_tree, got_tree)
        return Verdict("fail", "tree differs from the one-shot str parse at record %d: expected %s, got %s; %s; text %s" % (d[0], short(d[1], 120), short(d[2], 120), cfg, short(ref_text, 200)),
                       "tree:%s" % ("bytes" if kind.startswith("byte") else "text"), nontrivial=nontrivial, sig=sig, classes=classes)
    if got_err is not None and got_err != want_err:
        # recorded defect: stream-level 'invalid-codepoint' errors are queued per chunk, so their position and order depend on the chunking
        strip = lambda L: [e for e in L if e[0] != "invalid-codepoint"]
        if (strip(got_err) == strip(want_err) and len(got_err) == len(want_err) and active("C05-invalid-codepoint-position")):
            return Verdict("known", finding="C05-invalid-codepoint-position", nontrivial=nontrivial, sig=sig, classes=classes)
        i = 0
        while i < min(len(got_err), len(want_err)) and got_err[i] == want_err[i]:
            i += 1
        return Verdict("fail", "parse errors differ from the one-shot str parse at index %d: expected %s, got %s (of %d/%d); %s; text %s"
                       % (i, want_err[i] if i < len(want_err) else None, got_err[i] if i < len(got_err) else None, len(want_err), len(got_err), cfg, short(ref_text, 200)),
                       "errors:%s" % ("bytes" if kind.startswith("byte") else "text"), nontrivial=nontrivial, sig=sig, classes=classes)
    return Verdict("pass", nontrivial=nontrivial, sig=sig, classes=classes)


def webenc_codec(enc):
    import webencodings
    if enc.startswith("bom-"):
        return {"utf-8": "utf-8", "utf-16le": "utf-16-le", "utf-16be": "utf-16-be"}[enc[4:]]
    return webencodings.lookup(enc).codec_info.name


# ---------------------------------------------------------------------------
_NEWLINES = st.sampled_from(["\r", "\n", "\r\n", "\r\r", "\n\r", "\r\n\r\n", "\ud800", "\udc00", "\U0001f600", "\U0001F600", "\u00e9", "\u8a9e", "&amp;", "&#x41;", "<b>", "</b>", "<!--c-->", "a", " ",
                             "\x00", "\x01", "\ufffe", "<p a='\r\n'>", "<!DOCTYPE html>\r\n", "x\r",
                             # constructs after which the tokenizer pushes many characters back (entity-name prefixes that match no entity,
                             # failed markup declarations), followed by something that reports an error on the same line
                             "&CounterClockwiseContourIntegra</x y=1 y=2>", "&DoubleLongLeftRightArro!&#0;", "<a b=\"&NotSquareSupersetEqua\" b=2>", "&NotNestedGreaterGreate;</>",
                             "&ClockwiseContourIntegr&", "<!DOCTYP", "<!doctyp?>", "<![CDAT", "<!-x>", "<svg><![CDATx",
                             # declarations that must not matter once the encoding is certain
                             "<meta charset=koi8-r>\u00e9", "<meta charset=utf-8>\u0436", "<meta http-equiv=content-type content='text/html; charset=windows-1251'>\u00e9",
                             "<meta charset=shift_jis>", "<head><meta charset=iso-8859-2>\u0159"])


import re
_INVALID = re.compile("[\x01-\x08\x0b\x0e-\x1f\x7f-\x9f\ud800-\udfff\ufdd0-\ufdef\ufffe\uffff\U0001fffe\U0001ffff\U0002fffe\U0002ffff\U0003fffe\U0003ffff"
                      "\U0004fffe\U0004ffff\U0005fffe\U0005ffff\U0006fffe\U0006ffff\U0007fffe\U0007ffff\U0008fffe\U0008ffff\U0009fffe\U0009ffff"
                      "\U000afffe\U000affff\U000bfffe\U000bffff\U000cfffe\U000cffff\U000dfffe\U000dffff\U000efffe\U000effff\U000ffffe\U000fffff"
                      "\U0010fffe\U0010ffff]")


@st.composite
def _texts(draw):
    profile, base = draw(soup.soup_text(max_items=16))
    extra = draw(st.lists(_NEWLINES, max_size=10))
    # interleave
    parts = [base[i:i + 7] for i in range(0, len(base), 7)]
    out = []
    for i, p in enumerate(parts):
        out.append(p)
        if i < len(extra):
            out.append(extra[i])
    out.extend(extra[len(parts):])
    text = "".join(out)
    if draw(st.integers(0, 11)) == 0:
        text = "\ufeff" + text      # a text source that begins with U+FEFF: the same character for every kind of text source
    if draw(st.integers(0, 3)) > 0:
        # most cases: no code point the input stream itself reports (known finding C05-invalid-codepoint-position
        # would otherwise mask the position comparison in almost half of the cases)
        text = _INVALID.sub("", text)
    return text


_cases = st.tuples(_texts(), st.sampled_from(KINDS), st.sampled_from(CHUNKS), st.lists(st.integers(1, 9), min_size=1, max_size=12),
                   st.sampled_from(ENCODINGS), st.sampled_from(["transport", "override"]), st.sampled_from(ENTRIES))


def shards(tier):
    quick = tier == "quick"
    return [{"kind": "hyp", "n": 3000 if quick else 50000} for _ in range(16)]


def run_shard(desc, seed, tier):
    acc = Acc()

    def fn(x):
        text, kind, chunk, schedule, enc, via, entry = x
        case = {"text": text, "kind": kind, "chunk": chunk, "schedule": schedule, "encoding": enc, "via": via, "entry": entry}
        acc.add(case, check_case(case))
    drive(_cases, fn, desc["n"], seed)
    return acc
