"""C04 - the parsed tree does not depend on the tree builder chosen."""
from hypothesis import strategies as st

from vf import h5, obs
from vf.core import Acc, Verdict, active, drive, guarded, short, sig64
from vf.gen import soup

ID = "C04"
TECHNIQUE = ("differential property-based testing: the same generated markup soup through the dom, etree and etree-fullTree builders with "
             "HTML namespacing on/off; abstract trees (direct traversal, no html5lib walker) must be pairwise equal")
RULE = ("Hypothesis markup soup biased to foster parenting, adoption agency, table/select/foreign content (10 profiles) x {document, fragment in 45 contexts} x "
        "scripting; each case is parsed by dom/etree/etree-fullTree x namespaceHTMLElements True/False (6 configurations) and the flat abstract trees are compared with "
        "the dom/namespaced one as pivot (namespace None == XHTML when namespacing is off; attribute keys in Clark notation; adjacent text merged; etree root-element "
        "form == html subtree of the full-tree form). Non-trivial = the reference tree constructor's trace shows foster parenting, an adoption-agency run with a furthest "
        "block, reconstruction, foreign content or a fragment parse; distinct = distinct pivot-tree shape hash.")
ASSUMPTIONS = ["ElementTree cannot represent (None, '{x}y') vs ('x','y') attribute keys differently: keys are compared in Clark notation",
               "adjacent DOM text nodes are compared merged (the standard appends to the previous Text node)"]
SHRINK = {"text": "str"}

CONFIGS = [("dom", True, False), ("dom", False, False), ("etree", True, True), ("etree", False, True), ("etree", True, False), ("etree", False, False)]


def _norm(fl, ns):
    fl = obs.clarkify(fl)
    if not ns:
        fl = obs.html_ns_none(fl)
    return fl


def _html_subtree(fl):
    """records of the html element subtree of a document flat tree, re-based to depth 1."""
    out = [(0, "root")]
    inside = False
    for r in fl[1:]:
        if r[0] == 1:
            inside = r[1] == "elem"
        if inside:
            out.append(r)
    return out


def trees(case):
    text, container, scripting = case["text"], case.get("container"), bool(case.get("scripting"))
    res = {}
    for (b, ns, ft) in CONFIGS:
        if container is not None and b == "etree" and not ft:
            continue   # fragments: fullTree makes no difference; one etree run per namespacing
        # the root-element form is requested both ways: fullTree=False spelled out (ns on) and the keyword left out (ns off)
        r, p = h5.parse(text, builder=b, namespace=ns, scripting=scripting, container=container,
                        full_tree=(None if (b == "etree" and not ft and not ns) else ft))
        res[(b, ns, ft)] = obs.flat(r)
        if b == "etree":
            # the elements of a tree are separate objects: no two of them hold the same attribute mapping (an edit of one element
            # through the ElementTree API must not show on another - clones made by the adoption agency algorithm and by
            # 'reconstruct the active formatting elements' are where that could happen)
            seen = {}
            for el in r.iter():
                a = getattr(el, "attrib", None)
                if a is None:
                    continue
                if id(a) in seen and seen[id(a)] is not el:
                    raise AliasedAttributes("two elements of the etree result (%r and %r) share one attribute mapping" % (seen[id(a)].tag, el.tag))
                seen[id(a)] = el
    return res


class AliasedAttributes(Exception):
    pass


def _trace(case):
    from vf.ref import treebuilder as T
    try:
        if case.get("container") is None:
            r = T.parse_document(case["text"], scripting=bool(case.get("scripting")))
        else:
            r = T.parse_fragment(case["text"], context=case["container"], scripting=bool(case.get("scripting")))
        return r.trace
    except Exception:
        return None


@guarded(30)
def check_case(case):
    try:
        res = trees(case)
    except Exception as e:
        # totality is C03's subject; here a crash of one backend only is still a backend dependence
        return Verdict("fail", "%s: %s while parsing %s" % (type(e).__name__, short(str(e), 100), short(case["text"], 150)),
                       "exception:" + type(e).__name__, nontrivial=True)
    raw = res
    res = {k: _norm(v, k[1]) for k, v in raw.items()}
    pivot = res[("dom", True, False)]
    tr = _trace(case)
    interesting = ("foster", "aaa:furthest-block", "reconstruct", "foreign", "fragment", "table-text-foster")
    nontrivial = tr is None or any(t in tr for t in interesting)
    classes = [t for t in interesting if tr and t in tr]
    doc = case.get("container") is None
    known = None
    for key, fl in res.items():
        b, ns, ft = key
        if key == ("dom", True, False):
            continue
        if b == "etree" and not ft and doc:
            want = _html_subtree(pivot)
        else:
            want = pivot
        if fl != want and b == "etree":
            # recorded minidom limitation: the dom backend drops colon-bearing attribute/doctype names that collide
            modelled = _norm(obs.minidom_colon_model(raw[key]), ns)
            if modelled == want:
                names = [r for r in raw[key] if r[1] == "doctype" and ":" in r[2]]
                fid = "C04-dom-doctype-colon" if names and modelled != fl and _only_doctype_differs(fl, modelled) else "C04-dom-colon-attrs"
                if active(fid):
                    known = known or fid
                    continue
        if fl != want and b == "etree" and obs.minidom_evicts_encoding(raw[key]) and active("C04-dom-colon-attrs"):
            # the same minidom limitation where it changes the PARSE: the evicted attribute is annotation-xml's encoding
            known = known or "C04-dom-colon-attrs"
            continue
        if fl != want:
            d = obs.first_diff(want, fl)
            kind = "%s/%s" % (d[1][1] if d[1] else "-", d[2][1] if d[2] else "-")
            fostered = bool(tr and ("foster" in tr or "table-text-foster" in tr))
            what = ("%s(ns=%s,fullTree=%s) differs from dom at record %d: dom %s, %s %s; input %s container=%r\n--- dom\n%s\n--- %s\n%s"
                    % (b, ns, ft, d[0], short(d[1], 120), b, short(d[2], 120), short(case["text"], 200), case.get("container"),
                       obs.dump(want, 40), b, obs.dump(fl, 40)))
            return Verdict("fail", what, "diff:%s:%s:%s%s" % (b if b == "dom" else ("etree-full" if ft else "etree"), "ns" if ns else "nons", kind,
                                                              ":foster" if fostered else ""),
                           nontrivial=nontrivial, classes=classes)
    sig = sig64(tuple((r[0], r[1], r[3] if r[1] == "elem" else None) for r in pivot))
    if known:
        return Verdict("known", finding=known, nontrivial=nontrivial, sig=sig, classes=classes)
    return Verdict("pass", nontrivial=nontrivial, sig=sig, classes=classes)


def _only_doctype_differs(a, b):
    return len(a) == len(b) and all(x == y or x[1] == "doctype" for x, y in zip(a, b))


def shards(tier):
    quick = tier == "quick"
    profs = ["table", "table", "formatting", "formatting", "foreign", "select", "general", "general", "raw", "head", "frameset", "ruby", "body", "table", "formatting", "general"]
    out = [{"kind": "hyp", "profile": p, "n": 2500 if quick else 40000} for p in profs]
    out += [{"kind": "grammar", "n": 3000 if quick else 60000} for _ in range(2)]
    return out


# long sequences over a tiny alphabet of formatting elements whose attributes are written in different orders, markers and
# closers: backend-specific attribute containers (minidom's ordered AttrList vs a dict) meet the Noah's-ark clause, the
# adoption agency and reconstruction only after 4+ equal elements in a row
GRAMMAR = ["<b a=1 c=2>", "<b c=2 a=1>", "<b a=1 c=2>", "<b c=2 a=1 >", "<b a=1>", "<b>", "</b>", "<p>", "</p>", "x", "<i c=2 a=1>", "<i a=1 c=2>", "</i>",
           "<div>", "</div>", "<table><tr><td>", "</table>", "<a href=u id=v>", "<a id=v href=u>", "</a>", "<object>", "</object>", " ", "<b A=1 C=2>", "<td>", "<caption>"]


def run_shard(desc, seed, tier):
    acc = Acc()
    if desc["kind"] == "grammar":
        strat = st.tuples(st.lists(st.sampled_from(GRAMMAR), min_size=4, max_size=14).map("".join),
                          st.sampled_from([None, None, None, "div", "td", "table"]), st.booleans())

        def fn(x):
            text, container, scripting = x
            case = {"text": text, "container": container, "scripting": scripting}
            acc.add(case, check_case(case))
        drive(strat, fn, desc["n"], seed)
        return acc
    strat = st.tuples(soup.soup_text(profile=desc["profile"], max_items=40),
                      st.one_of(st.none(), st.none(), st.sampled_from(soup.CONTEXTS)), st.booleans())

    def fn(x):
        (profile, text), container, scripting = x
        case = {"text": text, "container": container, "scripting": scripting}
        v = check_case(case)
        acc.add(case, v)
    drive(strat, fn, desc["n"], seed)
    return acc
