"""C12 - parser objects are reusable: no state leaks between parses."""
import hashlib
import io
import json
import os
import subprocess
import sys
import threading

import hypothesis
from hypothesis import HealthCheck, Phase, settings, strategies as st
from hypothesis.stateful import RuleBasedStateMachine, invariant, rule, run_state_machine_as_test

from vf import h5, obs
from vf.core import Acc, Verdict, active, guarded, short, sig64
from vf.gen import soup
from vf.gen.soup import Dec, sized_binary

ID = "C12"
TECHNIQUE = ("model-based stateful testing (Hypothesis RuleBasedStateMachine): generated histories of parse / parseFragment / strict-mode / faulting-source / serialize calls on shared "
             "HTMLParser, walker and serializer objects, and read-level thread schedules of independent parsers; after every step the result must equal that of brand-new objects "
             "(a sample is re-computed in a fresh interpreter)")
RULE = ("Histories (<= 10 steps, thorough 14) over shared objects {HTMLParser(etree fullTree), HTMLParser(etree root-element form), HTMLParser(dom), HTMLParser(strict=True), "
        "4 HTMLSerializer option records}: parse / parseFragment (free-form documents biased to the stateful spots: pending table text, pre/textarea/listing newline, RCDATA/script "
        "tokenizer states, many distinct tag names, quirks doctypes, encoding restarts; and error-free documents over those spots, or such documents cut open plus one offending token, so that "
        "a strict parser completes them or aborts at varied error sites), parse from a source that raises IOError after k reads, serialize(tree, options, encoding) twice as likely as the others, "
        "a 'threads' step in which 2-3 shared parsers parse in threads whose sources are gated so that the harness releases exactly one read at a time following a generated schedule, and the same "
        "with 2-3 concurrent calls of the module-level html5lib.parse() using equal configurations. Oracle after every step: (tree, errors, documentEncoding) or the raised ParseError message / "
        "serializer output + errors == the same call on brand-new objects; a sample of the parse results (every parser kind) is re-computed in one freshly forked interpreter state per call and "
        "a larger batch in one fresh interpreter, compared by digest. Non-trivial = the history has an aborted call followed by a completed one, or >= 3 calls touching a stateful spot, or a "
        "threads step; distinct = (operation kinds, abort positions, document hashes) signature.")
ASSUMPTIONS = ["thread interleavings are owned at read() granularity only (finer-grained preemption is not controlled)", "a source that raises makes parse() raise the same exception; only later calls are judged"]
SHRINK = {"ops": "list"}

SPOTS = ["<table>x", "<table> y<tr>", "<table><b>bold", "<pre>\n", "<textarea>\n", "<listing>\n", "<pre>", "<textarea>a", "<title>t", "<script>s", "<style>s", "<plaintext>p", "<select><option>",
         "<p><b><i>", "<svg><foreignObject>", "<frameset>", "<table><caption>", "<form>", "<a>", "<nobr>", "<b><b><b>", "</body>x", "</html>y", "<head><noscript>", "<xmp>", "<!--", "<!DOCTYPE html>",
         "<table><td><table>z", "<body a=1>", "<html b=2>", "<math><mi>", "<iframe>", "<noembed>", "&amp", "<a b=\"", "<![CDATA[",
         "<!DOCTYPE html PUBLIC \"-//W3C//DTD HTML 3.2//EN\">", "<p>q<table>t", "caf&eacute; au lait&nbsp;&lt;&quot;x&amp;y", "&notin;&not;&nbsp;&euro;&ge;&gt;", "&lt;&le;&lang;&larr;&quot;&quest;", "<style \xe9=1>s</style>", "<script \xe9>x</script>", "<!--\xe9-->", "<p>q<table><tr><td>c"]
CONF_BODY = ["<p>a</p>", "<table><tr><td>x</td></tr></table>", "<table> <tbody> <tr> <td>x</td> </tr> </tbody> </table>", "<pre>\n\nx</pre>", "<textarea>\nq</textarea>",
             "<form><input></form>", "<select><option>o</option></select>", "<ul><li>i</li></ul>", "<p><b>bold</b> <i>it</i></p>",
             "<table><caption>c</caption><tr><td><form><input></form></td></tr></table>", "<svg><g></g></svg>", "<div><a href=u>l</a></div>", "<table><colgroup><col></colgroup><tr><th>h</th></tr></table>",
             "<dl><dt>t</dt><dd>d</dd></dl>", "<p>x<br>y</p>", "<listing>\nz</listing>", "<table>\n<tr>\n<td>\n</td>\n</tr>\n</table>", "<button>b</button>", "<ruby>r<rt>t</rt></ruby>",
             "<math><mi>m</mi></math>", "<script>s</script>", "<form><table><tr><td><input></td></tr></table></form>"]
OPEN_PREFIX = ["<table>", "<table><tr>", "<table><tr><td>", "<table><tbody>", "<table><caption>", "<table><colgroup>", "<select>", "<form>", "<p><b>", "<pre>", "<textarea>", "<svg>", "<math><mi>",
               "<ul><li>", "<dl><dt>", "<form><table>", "<b><i><nobr>", "<a href=u>", "<button>", "<ruby>r<rt>", "<table><tr><td><select>", "<object>", "<table> ", "<table><tr> ", "<div>", "<h1>",
               "<table><tr><td><form>", "<select><optgroup>", "<pre>\n", "<script>", "<style>", "<iframe>", "<title>", "<table><tr><td><table>"]
BAD = ["<b>", "x", "</p>", "<td>", "</table>", "<form>", "<a href=v>", "\x00", "<table>", "</b>", "<li>", "<body>", "<html a=1>", "&#0;", "<input>", "<select>", "</tr>", "<!DOCTYPE html>", "</form>",
       "<svg>", "<i>", "<div>", "<p>", "<h2>", "<button>", "<nobr>", "</div>", "<caption>", "<col>", "<frameset>", "<head>", "<textarea>", "<plaintext>", "</body>x", "<image>", "&bogus;", "<a b=1 b=2>",
       "</br>", "<option>", "</select>", "<tr>", "</title x>", "</textarea a=b>", "</title a=1 a=2>", "</script s>", "</style/>"]
ENT_TEXTS = ["caf&eacute; au lait &nbsp;x &lt;y &quot;z&amp;w &euro;5", "&nbsp;&lt;&quot;&not;&notin;&euro;&nbsp;&lt;&quot;", "a&zwj;b&zeta;c&Zopf;&le;&ge;&lang;&larr;",
             "&aacute;&Aacute;&amp;&ang;&bull;&copy;&eacute;&ecirc;&egrave;", "x &quot;q&quot; &quest; &quot; &lt; &lambda; &le;", "&yen;&yacute;&xi;&weierp;&uuml;&times;&theta;&sigma;"]
REWALK_TEXTS = ["<img src=a.png onerror=run() alt=pic><b>x</b>", "<meta charset=latin1><p>y</p>", "<a href=javascript:x title=t></a><i>z</i>", "<input style='color: red; position: fixed' value=v>",
                "<p onclick=x class=c>text <b id=i>b</b></p><br clear=all>", "<meta http-equiv=content-type content='text/html; charset=koi8-r'>", "<svg><a xlink:href='javascript:y'/></svg><hr>",
                "<span>\u00e9</span><img src=x onload=y>"]
NAMES = ["e%d" % i for i in range(40)]
SER_OPTS = [{}, {"omit_optional_tags": False}, {"quote_attr_values": "always", "alphabetical_attributes": True}, {"sanitize": True, "strip_whitespace": True}]
CONTAINERS = [None, None, "div", "table", "textarea", "pre", "select", "title", "tr", "script"]


def decode_doc(data, legacy=False):
    dec = Dec(data)
    parts = []
    stateful = 0
    mode = dec.below(8)
    if legacy:
        mode = 5 + mode % 3      # the free-form documents only (no doctype / quirks doctypes, odd names, raw-text elements left open)
    if mode <= 3:
        # error-free documents over the stateful spots (a strict parser completes them, so the whole tree is observable), and
        # such a document cut open at a stateful position and continued with one offending token (a strict parser aborts
        # exactly there: the abort sites vary over the phases instead of always being the missing doctype)
        body = "".join(dec.pick(CONF_BODY) for _ in range(dec.below(3) + (1 if mode <= 1 else 0)))
        if mode <= 1:
            return "<!DOCTYPE html><title>t</title>" + body, 2
        return "<!DOCTYPE html><title>t</title>" + body + dec.pick(OPEN_PREFIX) + dec.pick(BAD) + dec.pick(["", "x", "<p>", "</table>", " y", "<td>z"]), 2
    if mode == 4:
        from vf.gen import conforming
        text = conforming.writer(conforming.decode_document(bytes(dec.byte() for _ in range(48)), size=14, always_doctype=True))
        if dec.below(2):
            return text, 1
        cut = dec.below(256) * len(text) // 256
        cut = text.rfind("<", 0, cut + 1) if "<" in text[:cut + 1] else cut
        return text[:max(cut, 15)] + dec.pick(SPOTS) + dec.pick(["", "x", "<p>", "</table>", " y"]), 2
    if mode == 5:
        parts.append("<!DOCTYPE html>")    # otherwise a strict parse always aborts at the same first error (missing doctype)
    for _ in range(1 + dec.below(4)):
        k = dec.below(8)
        if k <= 3:
            parts.append(dec.pick(SPOTS))
            stateful += 1
        elif k == 4:
            parts.append("".join("<%s>" % dec.pick(NAMES) for _ in range(3 + dec.below(25))))
        elif k == 5:
            parts.append(soup.decode_text(bytes(dec.byte() for _ in range(18)), max_items=8)[1])
        else:
            parts.append(dec.pick(["text", " ", "\n", "<p>", "</p>", "x<br>y", "</table>", "</textarea>", "</pre>", "</script>", "</select>", "<b>"]))
    return "".join(parts), stateful


def _digest(x):
    return hashlib.sha1(repr(x).encode("utf-8", "surrogatepass")).hexdigest()


PARSER_KINDS = ("etree", "dom", "strict", "etree-root", "etree-alt")


def _mk_parser(kind):
    if kind == "strict":
        return h5.parser("etree", True, strict=True, full_tree=True)
    if kind == "etree-root":
        return h5.parser("etree", True, full_tree=False)     # getTreeBuilder("etree", fullTree=False): same factory cache, other keyword value
    if kind == "etree-alt":
        # the builder for another ElementTree implementation, asked for without further keywords: getTreeBuilder("etree", implementation=X)
        import html5lib
        from html5lib import treebuilders
        return html5lib.HTMLParser(treebuilders.getTreeBuilder("etree", implementation=h5.alt_etree()))
    return h5.parser(kind, True, full_tree=True)


class _Faulty(object):
    def __init__(self, text, after, chunk):
        self.text, self.after, self.chunk, self.pos, self.n = text, after, max(1, chunk), 0, 0

    def read(self, n=-1):
        if n == 0:
            return ""
        self.n += 1
        if self.n > self.after:
            raise IOError("injected fault")
        out = self.text[self.pos:self.pos + self.chunk]
        self.pos += len(out)
        return out


def _run_parse(parser, op, source=None):
    """-> ('ok', flat, errors, encoding) | ('raise', type name, message)"""
    from html5lib.html5parser import ParseError
    src = source if source is not None else (op["text"].encode("utf-8", "surrogatepass") if op.get("bytes") else op["text"])
    kw = {"scripting": bool(op.get("scripting"))}
    if op.get("label") is not None and op.get("bytes"):
        kw[op.get("label_arg", "transport_encoding")] = op["label"]
    try:
        if op.get("container") is None:
            r = parser.parse(src, **kw)
        else:
            r = parser.parseFragment(src, container=op["container"], **kw)
    except ParseError as e:
        return ("raise", "ParseError", str(e))
    except IOError as e:
        return ("raise", "IOError", str(e))
    except Exception as e:
        return ("crash", type(e).__name__, str(e)[:150])
    errs = [(code, pos, dict(v) if isinstance(v, dict) else v) for (pos, code, v) in parser.errors]
    enc = parser.documentEncoding if op.get("bytes") else None
    # the class of the returned object is part of the result: it is what implementation= selects
    return ("ok", obs.flat(r), errs, enc, "%s.%s" % (type(r).__module__, type(r).__name__))


class _Sched(object):
    """Owns the interleaving of n worker threads at read() granularity: a worker blocks in every read() of its gated source until the
    harness grants it; the harness grants one read at a time along the schedule and waits until that worker asks for its next read
    (or finishes) before it grants the next one.  After the schedule is exhausted all workers run freely."""

    def __init__(self, n):
        self.n = n
        self.cv = threading.Condition()
        self.asking = [False] * n     # worker i is blocked in read(), waiting for a grant
        self.grant = [0] * n
        self.done = [False] * n
        self.free = False

    def source(self, i, text, step=6):
        sched = self

        class Gated(object):
            def __init__(self):
                self.pos = 0

            def read(self, k=-1):
                if k == 0:
                    return ""
                with sched.cv:
                    if not sched.free:
                        sched.asking[i] = True
                        sched.cv.notify_all()
                        sched.cv.wait_for(lambda: sched.free or sched.grant[i] > 0, timeout=10)
                        sched.asking[i] = False
                        if sched.grant[i] > 0:
                            sched.grant[i] -= 1
                out = text[self.pos:self.pos + step]
                self.pos += len(out)
                return out
        return Gated()

    def finished(self, i):
        with self.cv:
            self.done[i] = True
            self.cv.notify_all()

    def run(self, schedule):
        with self.cv:
            for k in schedule:
                k %= self.n
                # wait until worker k asks for a read (or is done), grant it, then wait until it has consumed the grant and asks again
                self.cv.wait_for(lambda: self.asking[k] or self.done[k], timeout=5)
                if self.done[k]:
                    continue
                self.grant[k] += 1
                self.cv.notify_all()
                self.cv.wait_for(lambda: self.done[k] or (self.grant[k] == 0 and self.asking[k]), timeout=5)
            self.free = True
            self.cv.notify_all()


class Session(object):
    """The shared objects of one history."""

    def __init__(self):
        self.parsers = {k: _mk_parser(k) for k in PARSER_KINDS}
        self.serializers = None
        self.log = []      # (op, digest of result) for the fresh-interpreter sample

    def _serializer(self, i, fresh=False):
        from html5lib.serializer import HTMLSerializer
        import warnings
        with warnings.catch_warnings():
            warnings.simplefilter("ignore")
            if fresh:
                return HTMLSerializer(**SER_OPTS[i])
            if self.serializers is None:
                self.serializers = [HTMLSerializer(**o) for o in SER_OPTS]
            return self.serializers[i]

    def apply(self, op):
        """-> None (fine) or (bucket, message)"""
        kind = op["op"]
        if kind == "parse":
            got = _run_parse(self.parsers[op["p"]], op)
            want = _run_parse(_mk_parser(op["p"]), op)
            if got[0] == "crash":
                return "crash:" + got[1], "reused %s parser raised %s: %s for %s (a brand-new one: %s)" % (op["p"], got[1], got[2], short(op["text"], 160), _brief(want))
            if got[0] == "ok" and op["p"] != "strict":
                self.log.append((op, _digest(got[1:])))
            if got != want:
                return "parse-differs:" + op["p"], "reused %s parser gives %s, a brand-new one %s for %s" % (op["p"], _brief(got), _brief(want), short(op["text"], 160))
            return None
        if kind == "faulty":
            got = _run_parse(self.parsers[op["p"]], op, _Faulty(op["text"], op["after"], op["chunk"]))
            want = _run_parse(_mk_parser(op["p"]), op, _Faulty(op["text"], op["after"], op["chunk"]))
            if got[0] == "crash":
                return "crash:" + got[1], "reused %s parser raised %s: %s with a faulting source" % (op["p"], got[1], got[2])
            if got[0] != want[0] or (got[0] == "raise" and got[1:] != want[1:]):
                return "faulty-differs", "faulting source: reused parser %s, brand-new %s" % (_brief(got), _brief(want))
            return None
        if kind == "serialize":
            import warnings
            try:
                tree, _ = h5.parse(op["text"], builder=op["walker"], full_tree=True)
            except Exception as e:
                return "crash:" + type(e).__name__, "parse raised %s for %s" % (type(e).__name__, short(op["text"], 120))
            with warnings.catch_warnings():
                warnings.simplefilter("ignore")
                s1 = self._serializer(op["opts"])
                s2 = self._serializer(op["opts"], fresh=True)
                try:
                    o1 = (s1.render(h5.walk(tree, op["walker"]), op.get("encoding")), list(s1.errors))
                except Exception as e:
                    o1 = ("raise", type(e).__name__)
                try:
                    o2 = (s2.render(h5.walk(tree, op["walker"]), op.get("encoding")), list(s2.errors))
                except Exception as e:
                    o2 = ("raise", type(e).__name__)
            if o1 != o2:
                return "serialize-differs", "reused serializer gives %s, a brand-new one %s for %s" % (short(o1, 200), short(o2, 200), short(op["text"], 120))
            return None
        if kind == "rewalk":
            # ONE tree walker object - over a document, or over a single (often childless) element - rendered several times with
            # different serializer configurations, some of which edit tokens in place (sanitizer, meta-charset injection): every
            # rendering equals the rendering of a brand-new walker over the same node by a brand-new serializer
            import warnings
            import html5lib
            try:
                tree, _ = h5.parse(op["text"], builder=op["walker"], full_tree=True, container="div")
                if op["walker"] == "etree":
                    kids = [c for c in tree if isinstance(c.tag, str)]
                else:
                    kids = [c for c in tree.childNodes if c.nodeType == 1]
                node = kids[op["child"] % len(kids)] if (kids and op["child"] >= 0) else tree
            except Exception as e:
                return "crash:" + type(e).__name__, "parse raised %s for %s" % (type(e).__name__, short(op["text"], 120))
            W = html5lib.getTreeWalker(op["walker"])
            shared = W(node)
            with warnings.catch_warnings():
                warnings.simplefilter("ignore")
                for k, (oi, enc) in enumerate(op["renders"]):
                    outs = []
                    for walker_obj in (shared, W(node)):
                        ser = self._serializer(oi, fresh=True)
                        try:
                            outs.append((ser.render(walker_obj, enc), list(ser.errors)))
                        except Exception as e:
                            outs.append(("raise", type(e).__name__))
                    if outs[0] != outs[1]:
                        return "rewalk-differs", "rendering %d of one %s walker object (over %s of %s) gives %s, a brand-new walker %s" % (
                            k + 1, op["walker"], "child %d" % op["child"] if op["child"] >= 0 else "the fragment", short(op["text"], 120), short(outs[0], 160), short(outs[1], 160))
            return None
        if kind == "threads":
            return self._threads(op)
        raise ValueError(kind)

    def _threads(self, op):
        if op.get("api") == "function":
            return self._threads_function(op)
        kinds = ["etree", "dom", "strict"][:len(op["texts"])]
        sched = _Sched(len(kinds))
        results = [None] * len(kinds)

        def work(i):
            o = {"text": op["texts"][i], "scripting": False, "container": None}
            try:
                results[i] = _run_parse(self.parsers[kinds[i]], o, sched.source(i, op["texts"][i]))
            except BaseException as e:     # noqa
                results[i] = ("crash", type(e).__name__, str(e)[:100])
            finally:
                sched.finished(i)
        ts = [threading.Thread(target=work, args=(i,)) for i in range(len(kinds))]
        for t in ts:
            t.start()
        sched.run(op["schedule"])
        for t in ts:
            t.join(20)
        if any(t.is_alive() for t in ts):
            return "inconclusive", "a thread did not finish"
        for i, kind in enumerate(kinds):
            o = {"text": op["texts"][i], "scripting": False, "container": None}
            # the same delivery (6 characters per read), but alone and on a brand-new parser
            alone = _Sched(1)
            alone.free = True
            want = _run_parse(_mk_parser(kind), o, alone.source(0, op["texts"][i]))
            if results[i] != want:
                return "threads-differ:" + kind, "parser %s running concurrently gives %s, alone %s for %s" % (kind, _brief(results[i]), _brief(want), short(op["texts"][i], 120))
        return None


def _fn_parse(text_source, builder):
    import html5lib
    try:
        return ("ok", obs.flat(html5lib.parse(text_source, treebuilder=builder)))
    except Exception as e:
        return ("raise", type(e).__name__, str(e)[:100])


def _threads_function(self, op):
    """the module-level html5lib.parse() called from several threads at once with the SAME configuration (independent calls by
    contract; whatever the function shares internally must not show)"""
    n = len(op["texts"])
    builders = ["etree", "etree", "dom"][:n]
    sched = _Sched(n)
    results = [None] * n

    def work(i):
        try:
            results[i] = _fn_parse(sched.source(i, op["texts"][i]), builders[i])
        finally:
            sched.finished(i)
    ts = [threading.Thread(target=work, args=(i,)) for i in range(n)]
    for t in ts:
        t.start()
    sched.run(op["schedule"])
    for t in ts:
        t.join(20)
    if any(t.is_alive() for t in ts):
        return "inconclusive", "a thread did not finish"
    for i in range(n):
        alone = _Sched(1)
        alone.free = True
        want = _fn_parse(alone.source(0, op["texts"][i]), builders[i])
        if results[i] != want:
            return "threads-differ:function", "html5lib.parse(treebuilder=%r) running concurrently gives %s, alone %s for %s" % (builders[i], short(results[i], 200), short(want, 200), short(op["texts"][i], 120))
    return None


Session._threads_function = _threads_function


def _brief(r):
    if r is None:
        return "None"
    if r[0] == "ok":
        return "%s tree %s errors %s enc %s" % (r[4] if len(r) > 4 else "", obs.dump(r[1], 12).replace("\n", " "), short([e[0] for e in r[2]][:4], 80), r[3])
    return short(r, 200)


def _nontrivial(ops):
    aborted = False
    after_abort = False
    stateful = 0
    for op in ops:
        if op["op"] in ("faulty",) or (op["op"] == "parse" and op["p"] == "strict"):
            aborted = True
        elif aborted:
            after_abort = True
        stateful += op.get("stateful", 0)
    return after_abort or stateful >= 3 or any(op["op"] == "threads" for op in ops)


@guarded(120)
def check_case(case):
    ops = case["ops"]
    s = Session()
    if case.get("fresh"):
        # a call on a session's parser against the same call in an interpreter that has done nothing else
        got = [_run_parse(s.parsers[op["p"]], op) for op in ops]
        here = [_digest(r[1:]) if r[0] == "ok" else "raise" for r in got]
        there = _fresh(ops, [])["isolated"]
        if here != there:
            return Verdict("fail", "%s parser of a session differs from a fresh interpreter for %s" % (ops[-1]["p"], short(ops[-1]["text"], 160)),
                           "fresh-interpreter-differs:" + ops[-1]["p"], nontrivial=True)
        return Verdict("pass", nontrivial=True)
    nontrivial = _nontrivial(ops)
    sig = sig64(tuple((op["op"], op.get("p"), _digest(op.get("text") or op.get("texts"))) for op in ops))
    classes = ["op:" + op["op"] for op in ops]
    for i, op in enumerate(ops):
        res = s.apply(op)
        if res is not None:
            if res[0] == "inconclusive":
                return Verdict("inconclusive", res[1])
            return Verdict("fail", "step %d (%s): %s; history: %s" % (i, op["op"], res[1], short([(o["op"], o.get("p"), o.get("text", o.get("texts"))) for o in ops[:i + 1]], 500)),
                           res[0], nontrivial=nontrivial, sig=sig, classes=classes)
    v = Verdict("pass", nontrivial=nontrivial, sig=sig, classes=classes)
    v.extra = s.log
    return v


# ---------------------------------------------------------------------------
_doc = sized_binary(4, 90).map(decode_doc)
_doc_free = sized_binary(4, 90).map(lambda b: decode_doc(b, legacy=True))


class ReuseMachine(RuleBasedStateMachine):
    acc = None         # set per shard
    fresh_log = None

    def __init__(self):
        super().__init__()
        self.ops = []
        self.session = Session()
        self.failed = None

    def _do(self, op):
        if self.failed is not None:
            return
        self.ops.append(op)
        res = self.session.apply(op)
        if res is not None:
            self.failed = res

    @rule(d=_doc_free, p=st.sampled_from(["etree", "dom", "strict", "strict", "etree-root", "etree-alt"]), scripting=st.booleans(), container=st.sampled_from(CONTAINERS), as_bytes=st.booleans())
    def parse(self, d, p, scripting, container, as_bytes):
        text, stateful = d
        if as_bytes and container is None:
            text = text + "<meta charset=koi8-r>\xe9"
        self._do({"op": "parse", "p": p, "text": text, "scripting": scripting, "container": container, "bytes": as_bytes and container is None, "stateful": stateful})

    # encoding labels (valid ones and look-alikes that only sloppy normalisation would accept) given to one parser after the other:
    # whatever a label lookup remembers must not make a later, different label resolve differently
    @rule(d=_doc_free, p=st.sampled_from(["etree", "dom"]), arg=st.sampled_from(["transport_encoding", "override_encoding", "likely_encoding", "default_encoding"]),
          label=st.sampled_from(["koi8-r", "\u212aOI8-R", "\xa0koi8-r", "koi8-r\x0b", "KOI8-R", " koi8-r ", "shift_jis", "\x1fshift_jis", "Shift_JIS", "bogus", "utf-8", "\u017fhift_jis"]))
    def parse_labelled(self, d, p, arg, label):
        self._do({"op": "parse", "p": p, "text": d[0] + "\xe9\u0436", "scripting": False, "container": None, "bytes": True, "label": label, "label_arg": arg, "stateful": d[1]})

    # rules are chosen uniformly: two more spellings of the plain document parse give it the weight that histories of
    # (aborted parse, completed parse) pairs on one object need
    @rule(d=_doc, p=st.sampled_from(["etree", "dom", "strict", "strict", "strict", "etree-alt"]), scripting=st.booleans())
    def parse_doc(self, d, p, scripting):
        self._do({"op": "parse", "p": p, "text": d[0], "scripting": scripting, "container": None, "bytes": False, "stateful": d[1]})

    @rule(d=_doc_free, p=st.sampled_from(["strict", "etree", "dom", "etree-root"]), container=st.sampled_from(["div", "table", "p", "td", "select", "textarea", "pre", "tr"]), scripting=st.booleans())
    def parse_frag(self, d, p, container, scripting):
        self._do({"op": "parse", "p": p, "text": d[0], "scripting": scripting, "container": container, "bytes": False, "stateful": d[1]})

    @rule(d=_doc, p=st.sampled_from(["etree", "dom", "strict"]), after=st.integers(0, 6), chunk=st.integers(1, 9))
    def faulty(self, d, p, after, chunk):
        self._do({"op": "faulty", "p": p, "text": d[0], "after": after, "chunk": chunk, "stateful": d[1]})

    @rule(d=_doc_free, opts=st.integers(0, len(SER_OPTS) - 1), walker=st.sampled_from(["etree", "dom"]), enc=st.sampled_from([None, None, "utf-8", "ascii"]))
    def serialize(self, d, opts, walker, enc):
        self._do({"op": "serialize", "text": d[0], "opts": opts, "walker": walker, "encoding": enc, "stateful": 0})

    @rule(text=st.sampled_from(REWALK_TEXTS), walker=st.sampled_from(["etree", "etree", "dom"]), child=st.integers(-1, 3),
          renders=st.lists(st.tuples(st.integers(0, len(SER_OPTS) - 1), st.sampled_from([None, None, "utf-8", "ascii"])), min_size=2, max_size=4))
    def rewalk(self, text, walker, child, renders):
        self._do({"op": "rewalk", "text": text, "walker": walker, "child": child, "renders": [list(r) for r in renders], "stateful": 1})

    @rule(d=_doc, opts=st.integers(0, len(SER_OPTS) - 1), walker=st.sampled_from(["etree", "dom"]), enc=st.sampled_from([None, "ascii", "utf-8", "koi8-r"]))
    def serialize2(self, d, opts, walker, enc):
        self._do({"op": "serialize", "text": d[0], "opts": opts, "walker": walker, "encoding": enc, "stateful": 0})

    @rule(ds=st.lists(_doc, min_size=2, max_size=3), schedule=st.lists(st.integers(0, 2), max_size=30))
    def threads(self, ds, schedule):
        self._do({"op": "threads", "texts": [d[0] for d in ds], "schedule": schedule, "stateful": 0})

    # both threads in the middle of character references at every switch (process-wide entity lookup structures)
    @rule(ts=st.lists(st.sampled_from(ENT_TEXTS), min_size=2, max_size=3), schedule=st.lists(st.integers(0, 2), min_size=4, max_size=40), api=st.sampled_from([None, "function"]))
    def threads_entities(self, ts, schedule, api):
        op = {"op": "threads", "texts": ["<!DOCTYPE html><title>t</title><p>" + t for t in ts], "schedule": schedule, "stateful": 0}
        if api:
            op["api"] = api
        self._do(op)

    @rule(ds=st.lists(_doc, min_size=2, max_size=3), schedule=st.lists(st.integers(0, 2), max_size=30))
    def threads_function(self, ds, schedule):
        self._do({"op": "threads", "api": "function", "texts": [d[0] for d in ds], "schedule": schedule, "stateful": 0})

    def teardown(self):
        acc = type(self).acc
        if acc is None or not self.ops:
            return
        case = {"ops": self.ops}
        nontrivial = _nontrivial(self.ops)
        sig = sig64(tuple((op["op"], op.get("p"), _digest(op.get("text") or op.get("texts"))) for op in self.ops))
        classes = ["op:" + op["op"] for op in self.ops]
        if self.failed is None:
            v = Verdict("pass", nontrivial=nontrivial, sig=sig, classes=classes)
        elif self.failed[0] == "inconclusive":
            v = Verdict("inconclusive", self.failed[1])
        else:
            v = Verdict("fail", "step %d: %s" % (len(self.ops) - 1, self.failed[1]), self.failed[0], nontrivial=nontrivial, sig=sig, classes=classes)
        acc.add(case, v, sample=[(op["op"], op.get("p"), short(op.get("text", op.get("texts")), 80)) for op in self.ops])
        log = type(self).fresh_log
        if log is not None:
            for op, dg in self.session.log:
                if len(log) < 400 and (len(log) + len(self.ops)) % 3 == 0:
                    log.append((op, dg))


_SUB = r'''
import os, sys, json, hashlib
sys.path.insert(0, %r); sys.path.insert(0, %r)
from vf.core import from_json
from vf.props import c12
d = from_json(json.load(sys.stdin))
assert "html5lib" not in sys.modules
def one(op):
    r = c12._run_parse(c12._mk_parser(op["p"]), op)
    return c12._digest(r[1:]) if r[0] == "ok" else "raise"
iso = []
for op in d["isolated"]:        # one forked child per call: html5lib is imported anew, so no process-wide cache has seen anything
    r, w = os.pipe()
    pid = os.fork()
    if pid == 0:
        try:
            os.write(w, one(op).encode())
        finally:
            os._exit(0)
    os.close(w)
    iso.append(os.read(r, 200).decode()); os.close(r); os.waitpid(pid, 0)
print(json.dumps({"isolated": iso, "batch": [one(op) for op in d["batch"]]}))
'''


def _fresh(isolated, batch, seed=0):
    from vf.core import REPO, VERIF_DIR, to_json
    env = dict(os.environ, PYTHONHASHSEED=str(777 + seed % 1000), PYTHONDONTWRITEBYTECODE="1")
    p = subprocess.run([sys.executable, "-c", _SUB % (REPO, VERIF_DIR)], input=json.dumps(to_json({"isolated": isolated, "batch": batch})), capture_output=True, text=True, env=env, timeout=1800)
    if p.returncode != 0:
        raise RuntimeError("fresh-interpreter subprocess failed: " + p.stderr[-400:])
    return json.loads(p.stdout)


def shards(tier):
    quick = tier == "quick"
    return [{"kind": "machine", "n": 500 if quick else 6000, "steps": 10 if quick else 14} for _ in range(16)]


def run_shard(desc, seed, tier):
    from vf.core import REPO, VERIF_DIR, to_json
    acc = Acc()
    log = []

    class M(ReuseMachine):
        pass
    M.acc = acc
    M.fresh_log = log
    run_state_machine_as_test(hypothesis.seed(seed)(M), settings=settings(max_examples=desc["n"], stateful_step_count=desc["steps"], database=None, deadline=None,
                                                                            phases=[Phase.generate], suppress_health_check=list(HealthCheck)))
    # fresh-interpreter sample: every parser kind among the isolated ones (one interpreter state per call), the rest in one batch
    if log:
        n_iso = 50 if tier == "quick" else 250
        iso, seen = [], {}
        for k, (op, dg) in enumerate(log):
            if seen.get(op["p"], 0) < n_iso // len(PARSER_KINDS):
                seen[op["p"]] = seen.get(op["p"], 0) + 1
                iso.append(k)
        iso = iso[:n_iso]
        rest = [k for k in range(len(log)) if k not in set(iso)]
        there = _fresh([log[k][0] for k in iso], [log[k][0] for k in rest], seed)
        for ks, dgs, how in ((iso, there["isolated"], True), (rest, there["batch"], False)):
            for k, dg2 in zip(ks, dgs):
                op, dg = log[k]
                if dg != dg2:
                    acc.add({"ops": [op], "fresh": True}, Verdict("fail", "%s parser of a session differs from a fresh interpreter for %s" % (op["p"], short(op["text"], 160)),
                                                                   "fresh-interpreter-differs:" + op["p"], nontrivial=True))
        acc.extra["fresh_interpreter_comparisons"] = len(log)
        acc.extra["fresh_interpreter_isolated"] = len(iso)
    return acc
