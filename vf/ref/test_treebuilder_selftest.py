"""Self-test of vf.ref.treebuilder: expectations derived from the WHATWG standard (June 2020)
and from the well-known html5lib-tests tree-construction corpus, plus robustness loops.

Run:  /venv/bin/python /verif/vf/ref/test_treebuilder_selftest.py
"""
import os
import random
import sys
import time

sys.path.insert(0, os.path.dirname(os.path.dirname(os.path.dirname(os.path.abspath(__file__)))))

from vf.ref import treebuilder as T  # noqa: E402

_PREFIX = {T.SVG_NS: "svg ", T.MATHML_NS: "math "}
_ATTR_PREFIX = {T.XLINK_NS: "xlink ", T.XML_NS: "xml ", T.XMLNS_NS: "xmlns "}


def dump(node):
    """html5lib-tests tree format; iterative."""
    out = []
    # stack items: (node, depth) or ("content", depth)
    if node.kind in ("document", "fragment"):
        st = [(c, 0) for c in reversed(node.children)]
    else:
        st = [(node, 0)]
    while st:
        n, d = st.pop()
        ind = "| " + "  " * d
        if n == "content":
            out.append(ind + "content")
            continue
        k = n.kind
        if k == "doctype":
            if n.public or n.system:
                out.append('%s<!DOCTYPE %s "%s" "%s">' % (ind, n.name, n.public, n.system))
            else:
                out.append("%s<!DOCTYPE %s>" % (ind, n.name))
        elif k == "comment":
            out.append("%s<!-- %s -->" % (ind, n.data))
        elif k == "text":
            out.append('%s"%s"' % (ind, n.data))
        elif k == "element":
            if n.ns == T.HTML_NS:
                out.append("%s<%s>" % (ind, n.name))
            else:
                out.append("%s<%s%s>" % (ind, _PREFIX.get(n.ns, "?? "), n.name))
            attrs = []
            for (ans, an, av) in n.attrs:
                attrs.append(((_ATTR_PREFIX[ans] if ans else "") + an, av))
            attrs.sort()
            for (an, av) in attrs:
                out.append('%s  %s="%s"' % (ind, an, av))
            if n.template_contents is not None:
                for c in reversed(n.template_contents.children):
                    st.append((c, d + 2))
                st.append(("content", d + 1))
                assert not n.children, "template element with direct children"
            for c in reversed(n.children):
                st.append((c, d + 1))
    return "\n".join(out)


def check_tree_invariants(root):
    """parent/children consistency, iterative"""
    st = [root]
    while st:
        n = st.pop()
        for c in n.children:
            assert c.parent is n, (c, c.parent, n)
            st.append(c)
        if n.kind == "element" and n.template_contents is not None:
            st.append(n.template_contents)
        if n.kind == "text":
            assert n.data != ""


def _lines(s, base):
    res = []
    for ln in s.strip("\n").split("\n"):
        if not ln.strip():
            continue
        res.append("| " + "  " * base + ln)
    return res


CASES = []   # (input, expected_dump, context or None, scripting)


def Tt(inp, exp, scripting=False):
    """full document expectation"""
    CASES.append((inp, "\n".join(_lines(exp, 0)), None, scripting))


def B(inp, exp, scripting=False):
    """document expectation: <html><head><body> + lines relative to body"""
    lines = ["| <html>", "|   <head>", "|   <body>"] + (_lines(exp, 2) if exp.strip() else [])
    CASES.append((inp, "\n".join(lines), None, scripting))


def F(inp, ctx, exp, scripting=False):
    CASES.append((inp, "\n".join(_lines(exp, 0)) if exp.strip() else "", ctx, scripting))


# ------------------------------------------------------------------ the standard's own examples
B("<b>1<p>2</b>3</p>", '''
<b>
  "1"
<p>
  <b>
    "2"
  "3"
''')
B("<table><b><tr><td>aaa</td></tr>bbb</table>ccc", '''
<b>
<b>
  "bbb"
<table>
  <tbody>
    <tr>
      <td>
        "aaa"
<b>
  "ccc"
''')
B("<a>1<table><a>", '''
<a>
  "1"
  <a>
  <table>
''')
B("<p><b><i><u><s><em>x</p>y", '''
<p>
  <b>
    <i>
      <u>
        <s>
          <em>
            "x"
<b>
  <i>
    <u>
      <s>
        <em>
          "y"
''')
B("<b><i><u><s><em><p>x</b>y", '''
<b>
  <i>
    <u>
      <s>
        <em>
<u>
  <s>
    <em>
      <p>
        <b>
          "x"
        "y"
''')
B("x</p>y", '''
"x"
<p>
"y"
''')
B("</br>", '''
<br>
''')
B("a</br>b", '''
"a"
<br>
"b"
''')
B("<select><table>x", '''
<select>
  "x"
''')
B("<table><select><tr>", '''
<select>
<table>
  <tbody>
    <tr>
''')
B("<svg><foreignObject><p>x", '''
<svg svg>
  <svg foreignObject>
    <p>
      "x"
''')
B("<math><mi><b>x", '''
<math math>
  <math mi>
    <b>
      "x"
''')
B("<svg><p>x", '''
<svg svg>
<p>
  "x"
''')
B('<math><annotation-xml encoding="text/html"><div>x', '''
<math math>
  <math annotation-xml>
    encoding="text/html"
    <div>
      "x"
''')
B('<math><annotation-xml encoding="APPLICATION/XHTML+XML"><div>x', '''
<math math>
  <math annotation-xml>
    encoding="APPLICATION/XHTML+XML"
    <div>
      "x"
''')
B('<math><annotation-xml encoding="text/html "><div>x', '''
<math math>
  <math annotation-xml>
    encoding="text/html "
<div>
  "x"
''')
B("<math><annotation-xml><div>x", '''
<math math>
  <math annotation-xml>
<div>
  "x"
''')
Tt("<frameset></frameset>", '''
<html>
  <head>
  <frameset>
''')
Tt("<!doctype html><html><head></head><body></body></html> <!--x-->", '''
<!DOCTYPE html>
<html>
  <head>
  <body>
    " "
<!-- x -->
''')
Tt("<template><tr><td>x</template>", '''
<html>
  <head>
    <template>
      content
        <tr>
          <td>
            "x"
  <body>
''')
B("<table><template><td>", '''
<table>
  <template>
    content
      <td>
''')
B("<ruby>a<rb>b<rtc>c<rt>d", '''
<ruby>
  "a"
  <rb>
    "b"
  <rtc>
    "c"
    <rt>
      "d"
''')
B("<ruby>a<rt>b<rp>c<rb>d", '''
<ruby>
  "a"
  <rt>
    "b"
  <rp>
    "c"
  <rb>
    "d"
''')

# ------------------------------------------------------------------ basics (tests1.dat style)
B("Test", '"Test"')
B("<p>One<p>Two", '''
<p>
  "One"
<p>
  "Two"
''')
B("Line1<br>Line2<br>Line3<br>Line4", '''
"Line1"
<br>
"Line2"
<br>
"Line3"
<br>
"Line4"
''')
B("<html>", "")
B("<head>", "")
B("<body>", "")
B("<html><head>", "")
B("<html><head></head><body></body></html>", "")
B("</head>", "")
B("</body>", "")
B("</html>", "")
B("", "")
Tt("<!DOCTYPE html>Hello", '''
<!DOCTYPE html>
<html>
  <head>
  <body>
    "Hello"
''')
Tt("<!--x-->", '''
<!-- x -->
<html>
  <head>
  <body>
''')
Tt("<!--a--><!DOCTYPE html><!--b--><html><!--c--><head><!--d--></head><!--e--><body><!--f-->"
   "</body><!--g--></html><!--h-->", '''
<!-- a -->
<!DOCTYPE html>
<!-- b -->
<html>
  <!-- c -->
  <head>
    <!-- d -->
  <!-- e -->
  <body>
    <!-- f -->
  <!-- g -->
<!-- h -->
''')
Tt("<html> <head> </head> <body> </body> </html>", '''
<html>
  <head>
    " "
  " "
  <body>
    "  "
''')
Tt("<html a=1><body b=2><html a=3 c=4><body b=5 d=6>", '''
<html>
  a="1"
  c="4"
  <head>
  <body>
    b="2"
    d="6"
''')
Tt('<!DOCTYPE html PUBLIC "-//W3C//DTD HTML 4.01//EN" "http://www.w3.org/TR/html4/strict.dtd">', '''
<!DOCTYPE html "-//W3C//DTD HTML 4.01//EN" "http://www.w3.org/TR/html4/strict.dtd">
<html>
  <head>
  <body>
''')
Tt("<!DOCTYPE>", '''
<!DOCTYPE >
<html>
  <head>
  <body>
''')
Tt("<!DOCTYPE html><!DOCTYPE foo>x", '''
<!DOCTYPE html>
<html>
  <head>
  <body>
    "x"
''')
Tt(" \n<!DOCTYPE html> x", '''
<!DOCTYPE html>
<html>
  <head>
  <body>
    "x"
''')

# ------------------------------------------------------------------ head
Tt("<title>a</title><meta><p>", '''
<html>
  <head>
    <title>
      "a"
    <meta>
  <body>
    <p>
''')
Tt("<head></head><title>x</title>y", '''
<html>
  <head>
    <title>
      "x"
  <body>
    "y"
''')
Tt("<head></head><script>x</script><style>y</style><link><base><meta>", '''
<html>
  <head>
    <script>
      "x"
    <style>
      "y"
    <link>
    <base>
    <meta>
  <body>
''')
Tt("<head><noscript><meta><!--c--></noscript>", '''
<html>
  <head>
    <noscript>
      <meta>
      <!-- c -->
  <body>
''')
Tt("<head><noscript><p>x", '''
<html>
  <head>
    <noscript>
  <body>
    <p>
      "x"
''')
Tt("<head><noscript><p>x</noscript>y", '''
<html>
  <head>
    <noscript>
      "<p>x"
  <body>
    "y"
''', scripting=True)
Tt("<body><noscript><p>x</noscript>y", '''
<html>
  <head>
  <body>
    <noscript>
      <p>
        "xy"
''')
Tt("<body><noscript><span>x</noscript>y", '''
<html>
  <head>
  <body>
    <noscript>
      <span>
        "x"
    "y"
''')
Tt("<body><noscript><p>x</noscript>y", '''
<html>
  <head>
  <body>
    <noscript>
      "<p>x"
    "y"
''', scripting=True)
Tt("<title>a<b>&amp;</title>", '''
<html>
  <head>
    <title>
      "a<b>&"
  <body>
''')
Tt("<head> a", '''
<html>
  <head>
    " "
  <body>
    "a"
''')
Tt("<command>x", '''
<html>
  <head>
  <body>
    <command>
      "x"
''')
Tt("<head><head><title>x</title></head><head>", '''
<html>
  <head>
    <title>
      "x"
  <body>
''')

# ------------------------------------------------------------------ body block / lists / headings
B("<a><p></a></p>", '''
<a>
<p>
  <a>
''')
B("<a>1<p>2</a>3</p>", '''
<a>
  "1"
<p>
  <a>
    "2"
  "3"
''')
B("<a>1<button>2</a>3</button>", '''
<a>
  "1"
<button>
  <a>
    "2"
  "3"
''')
B("<a>1<div>2<div>3</a>4</div>5</div>", '''
<a>
  "1"
<div>
  <a>
    "2"
  <div>
    <a>
      "3"
    "4"
  "5"
''')
B("<b><table><td><i></table>", '''
<b>
  <table>
    <tbody>
      <tr>
        <td>
          <i>
''')
B("<b><table><td></b><i></table>X", '''
<b>
  <table>
    <tbody>
      <tr>
        <td>
          <i>
  "X"
''')
B("<h1>Hello<h2>World", '''
<h1>
  "Hello"
<h2>
  "World"
''')
B("<h1><div><h2>x", '''
<h1>
  <div>
    <h2>
      "x"
''')
B("<h1>a</h3>b", '''
<h1>
  "a"
"b"
''')
B("<ul><li>a<li>b</ul>c", '''
<ul>
  <li>
    "a"
  <li>
    "b"
"c"
''')
B("<dl><dt>a<dd>b<dt>c", '''
<dl>
  <dt>
    "a"
  <dd>
    "b"
  <dt>
    "c"
''')
B("<div><li>a<div><li>b", '''
<div>
  <li>
    "a"
    <div>
  <li>
    "b"
''')
B("<li>a<ul><li>b</ul><li>c", '''
<li>
  "a"
  <ul>
    <li>
      "b"
<li>
  "c"
''')
Tt("<!DOCTYPE html><p><table>", '''
<!DOCTYPE html>
<html>
  <head>
  <body>
    <p>
    <table>
''')
B("<p><table>", '''
<p>
  <table>
''')
B("<p>a<hr>b", '''
<p>
  "a"
<hr>
"b"
''')
B("<textarea>\nfoo</textarea>", '''
<textarea>
  "foo"
''')
RAW = [
    ("<pre>\n\nx", '| <html>\n|   <head>\n|   <body>\n|     <pre>\n|       "\nx"'),
    ("<pre>x\ny", '| <html>\n|   <head>\n|   <body>\n|     <pre>\n|       "x\ny"'),
    ("<textarea>\n\n\nx", '| <html>\n|   <head>\n|   <body>\n|     <textarea>\n|       "\n\nx"'),
    ("<pre>\n", '| <html>\n|   <head>\n|   <body>\n|     <pre>'),
    ("<pre><b>\nx", '| <html>\n|   <head>\n|   <body>\n|     <pre>\n|       <b>\n|         "\nx"'),
    ("<pre>&#10;x", '| <html>\n|   <head>\n|   <body>\n|     <pre>\n|       "x"'),
]
B("<listing>\nx", '''
<listing>
  "x"
''')
B("<pre>\r\nx", '''
<pre>
  "x"
''')
B("<b>x</p>y", '''
<b>
  "x"
  <p>
  "y"
''')
B("<div></span>x", '''
<div>
  "x"
''')
B("<p><div></p>x", '''
<p>
<div>
  <p>
  "x"
''')
B("<p><span></p>x", '''
<p>
  <span>
"x"
''')
B("<p>a<dialog>b", '''
<p>
  "a"
<dialog>
  "b"
''')
B("<p>a<main>b", '''
<p>
  "a"
<main>
  "b"
''')
B("<p><button><p></button>x", '''
<p>
  <button>
    <p>
  "x"
''')
B("<button>a<button>b", '''
<button>
  "a"
<button>
  "b"
''')
B("<nobr>a<nobr>b", '''
<nobr>
  "a"
<nobr>
  "b"
''')
B("<a href=a>x<a href=b>y", '''
<a>
  href="a"
  "x"
<a>
  href="b"
  "y"
''')
B("<p><b><b><b><b>x</p>y", '''
<p>
  <b>
    <b>
      <b>
        <b>
          "x"
<b>
  <b>
    <b>
      "y"
''')
B("<p><b class=a><b class=a><b class=b><b class=a><b class=a>x</p>y", '''
<p>
  <b>
    class="a"
    <b>
      class="a"
      <b>
        class="b"
        <b>
          class="a"
          <b>
            class="a"
            "x"
<b>
  class="a"
  <b>
    class="b"
    <b>
      class="a"
      <b>
        class="a"
        "y"
''')
B("<b><marquee>x</b>y</marquee>z", '''
<b>
  <marquee>
    "xy"
  "z"
''')
B("<object><b>x</object>y", '''
<object>
  <b>
    "x"
"y"
''')
B("<applet><p>x</applet>y", '''
<applet>
  <p>
    "x"
"y"
''')
B("<form><form>x", '''
<form>
  "x"
''')
B("<form><div></form>x", '''
<form>
  <div>
    "x"
''')
B("<form>a</form><form>b", '''
<form>
  "a"
<form>
  "b"
''')
B("<image src=x>", '''
<img>
  src="x"
''')
B("<keygen>x<wbr>y<area><embed><img><param><source><track>", '''
<keygen>
"x"
<wbr>
"y"
<area>
<embed>
<img>
<param>
<source>
<track>
''')
B("<isindex>x", '''
<isindex>
  "x"
''')
B("<menuitem>a<menuitem>b", '''
<menuitem>
  "a"
  <menuitem>
    "b"
''')
B("<plaintext>a</plaintext><b>", '''
<plaintext>
  "a</plaintext><b>"
''')
B("<xmp><b>x</xmp>y", '''
<xmp>
  "<b>x"
"y"
''')
B("<iframe><b></iframe>y", '''
<iframe>
  "<b>"
"y"
''')
B("<noembed><b></noembed>y", '''
<noembed>
  "<b>"
"y"
''')
B("<textarea><p></textarea>x", '''
<textarea>
  "<p>"
"x"
''')
B("<b><textarea>x</textarea>y", '''
<b>
  <textarea>
    "x"
  "y"
''')
B("<option>a<option>b", '''
<option>
  "a"
<option>
  "b"
''')
B("a\x00b", '"ab"')
B("<td>x<tr><th><caption><col><colgroup><tbody><tfoot><thead><frame><head>y", '"xy"')
Tt("<span><body a=1>x", '''
<html>
  <head>
  <body>
    a="1"
    <span>
      "x"
''')
B("<i><b>x</i>y</b>z", '''
<i>
  <b>
    "x"
<b>
  "y"
"z"
''')
B("<p><i>x</p>y", '''
<p>
  <i>
    "x"
<i>
  "y"
''')
B("<b>a<div>b</b>c</div>d", '''
<b>
  "a"
<div>
  <b>
    "b"
  "c"
"d"
''')
B("<b></b><p>x", '''
<b>
<p>
  "x"
''')

# ------------------------------------------------------------------ select
B("<select><option>a<optgroup><option>b</select>c", '''
<select>
  <option>
    "a"
  <optgroup>
    <option>
      "b"
"c"
''')
B("<select><optgroup><option>a</optgroup>b", '''
<select>
  <optgroup>
    <option>
      "a"
  "b"
''')
B("<select><input>x", '''
<select>
<input>
"x"
''')
B("<select><keygen>x", '''
<select>
<keygen>
"x"
''')
B("<select><textarea>x</textarea>y", '''
<select>
<textarea>
  "x"
"y"
''')
B("<select>a<select>b", '''
<select>
  "a"
"b"
''')
B("<select><b><p>a\x00</b>b</select>c", '''
<select>
  "ab"
"c"
''')
B("<table><tr><td><select><option>a<td>b", '''
<table>
  <tbody>
    <tr>
      <td>
        <select>
          <option>
            "a"
      <td>
        "b"
''')
B("<table><tr><td><select></table>x", '''
<table>
  <tbody>
    <tr>
      <td>
        <select>
"x"
''')
B("<table><tr><td><select></caption>x</select>y", '''
<table>
  <tbody>
    <tr>
      <td>
        <select>
          "x"
        "y"
''')

# ------------------------------------------------------------------ tables
B("<table><tr><td>a<tr><td>b", '''
<table>
  <tbody>
    <tr>
      <td>
        "a"
    <tr>
      <td>
        "b"
''')
B("<table>a", '''
"a"
<table>
''')
B("<table> a b ", '''
" a b "
<table>
''')
B("<table> </table>", '''
<table>
  " "
''')
B("<table> <!--c--> <tr> <td> </td> </tr> </table>", '''
<table>
  " "
  <!-- c -->
  " "
  <tbody>
    <tr>
      " "
      <td>
        " "
      " "
    " "
''')
B("<table><tr><td>x</table>y", '''
<table>
  <tbody>
    <tr>
      <td>
        "x"
"y"
''')
B("<table><caption>a<td>b", '''
<table>
  <caption>
    "a"
  <tbody>
    <tr>
      <td>
        "b"
''')
B("<table><colgroup><col><tr>", '''
<table>
  <colgroup>
    <col>
  <tbody>
    <tr>
''')
B("<table><col><col>x", '''
"x"
<table>
  <colgroup>
    <col>
    <col>
''')
B("<table><input type=hidden><input><input type=HIDDEN a>", '''
<input>
<table>
  <input>
    type="hidden"
  <input>
    a=""
    type="HIDDEN"
''')
B("<table><form><tr><td><input></form></table><form>x", '''
<table>
  <form>
  <tbody>
    <tr>
      <td>
        <input>
<form>
  "x"
''')
B("<table><b>x</b>y", '''
<b>
  "x"
"y"
<table>
''')
B("<table><thead><tr><th>a<tbody><tr><td>b<tfoot><tr><td>c", '''
<table>
  <thead>
    <tr>
      <th>
        "a"
  <tbody>
    <tr>
      <td>
        "b"
  <tfoot>
    <tr>
      <td>
        "c"
''')
B("<table><tr><td><table><tr><td>a</table>b</table>c", '''
<table>
  <tbody>
    <tr>
      <td>
        <table>
          <tbody>
            <tr>
              <td>
                "a"
        "b"
"c"
''')
B("<table><table>", '''
<table>
<table>
''')
B("<table><tr><td><svg><desc><td>", '''
<table>
  <tbody>
    <tr>
      <td>
        <svg svg>
          <svg desc>
      <td>
''')
B("<table><td></caption></body></html></colgroup></col>x", '''
<table>
  <tbody>
    <tr>
      <td>
        "x"
''')
B("<table><td></tbody>x", '''
"x"
<table>
  <tbody>
    <tr>
      <td>
''')
B("<table><style>a</style><script>b</script>c", '''
"c"
<table>
  <style>
    "a"
  <script>
    "b"
''')
B("<table><caption><b>a</caption>b</table>c", '''
"b"
<table>
  <caption>
    <b>
      "a"
"c"
''')
B("<table><td><b>a</td>b", '''
"b"
<table>
  <tbody>
    <tr>
      <td>
        <b>
          "a"
''')
B("<table><p>a<p>b", '''
<p>
  "a"
<p>
  "b"
<table>
''')
B("<table><tr><p>a", '''
<p>
  "a"
<table>
  <tbody>
    <tr>
''')
B("<table><title>x</title>y", '''
<title>
  "x"
"y"
<table>
''')

# ------------------------------------------------------------------ frameset
Tt("<!doctype html><p><frameset><frame>", '''
<!DOCTYPE html>
<html>
  <head>
  <frameset>
    <frame>
''')
Tt("<!doctype html>x<frameset>", '''
<!DOCTYPE html>
<html>
  <head>
  <body>
    "x"
''')
Tt("<!doctype html> <frameset>", '''
<!DOCTYPE html>
<html>
  <head>
  <frameset>
''')
Tt('<!doctype html><input type="hidden"><frameset>', '''
<!DOCTYPE html>
<html>
  <head>
  <frameset>
''')
Tt('<!doctype html><input type="button"><frameset>', '''
<!DOCTYPE html>
<html>
  <head>
  <body>
    <input>
      type="button"
''')
Tt("<body><frameset>", '''
<html>
  <head>
  <body>
''')
Tt("<frameset><frame></frameset><noframes>x</noframes></html> <!--c-->", '''
<html>
  <head>
  <frameset>
    <frame>
  <noframes>
    "x"
  " "
<!-- c -->
''')
Tt("<frameset> a b <frameset>c</frameset> </frameset> d <p> ", '''
<html>
  <head>
  <frameset>
    "   "
    <frameset>
    " "
  "   "
''')
Tt("<frameset></frameset></html>a b<!--c-->", '''
<html>
  <head>
  <frameset>
  " "
<!-- c -->
''')

# ------------------------------------------------------------------ after body
Tt("<body></body>x", '''
<html>
  <head>
  <body>
    "x"
''')
Tt("<body>a</html>b<!--c--></html><p>", '''
<html>
  <head>
  <body>
    "ab"
    <!-- c -->
    <p>
''')
Tt("<p><b>x</p></body> y", '''
<html>
  <head>
  <body>
    <p>
      <b>
        "x"
    <b>
      " y"
''')

# ------------------------------------------------------------------ foreign content
B("<svg><circle cx=1 /><g></g></svg>x", '''
<svg svg>
  <svg circle>
    cx="1"
  <svg g>
"x"
''')
B("<svg viewbox=1 xlink:href=a xml:lang=b xmlns:xlink=c xlink:foo=e>", '''
<svg svg>
  viewBox="1"
  xlink href="a"
  xlink:foo="e"
  xml lang="b"
  xmlns xlink="c"
''')
B("<math definitionurl=a viewbox=b><mi definitionurl=c>", '''
<math math>
  definitionURL="a"
  viewbox="b"
  <math mi>
    definitionURL="c"
''')
B("<svg definitionurl=a><FOREIGNOBJECT><altglyph>", '''
<svg svg>
  definitionurl="a"
  <svg foreignObject>
    <altglyph>
''')
B("<svg><altglyph><clippath><lineargradient><textpath>", '''
<svg svg>
  <svg altGlyph>
    <svg clipPath>
      <svg linearGradient>
        <svg textPath>
''')
B("<math><foreignobject><clippath>", '''
<math math>
  <math foreignobject>
    <math clippath>
''')
B("<svg><font color=red>x", '''
<svg svg>
<font>
  color="red"
  "x"
''')
B("<svg><font>x", '''
<svg svg>
  <svg font>
    "x"
''')
B("<svg><title><p>x", '''
<svg svg>
  <svg title>
    <p>
      "x"
''')
B("<svg><desc><b>x</desc>y", '''
<svg svg>
  <svg desc>
    <b>
      "xy"
''')
B("<math><mi><mglyph>x", '''
<math math>
  <math mi>
    <math mglyph>
      "x"
''')
B("<math><annotation-xml><svg>x", '''
<math math>
  <math annotation-xml>
    <svg svg>
      "x"
''')
B("<math><mi><svg><g>", '''
<math math>
  <math mi>
    <svg svg>
      <svg g>
''')
B("<svg><![CDATA[x<y]]>z", '''
<svg svg>
  "x<yz"
''')
B("<div><![CDATA[x]]>", '''
<div>
  <!-- [CDATA[x]] -->
''')
B("<svg>a\x00b", '''
<svg svg>
  "a�b"
''')
B("<svg><script>x</script>y", '''
<svg svg>
  <svg script>
    "x"
  "y"
''')
B("<svg><script/>x", '''
<svg svg>
  <svg script>
  "x"
''')
B("<svg><g></svg>x", '''
<svg svg>
  <svg g>
"x"
''')
B("<svg><foreignObject><div></foreignObject>x", '''
<svg svg>
  <svg foreignObject>
    <div>
      "x"
''')
B("<svg><foreignObject></foreignObject>x", '''
<svg svg>
  <svg foreignObject>
  "x"
''')
B("<div><svg><path></div>x", '''
<div>
  <svg svg>
    <svg path>
"x"
''')
B("<math><mtext><p>x</p>y</mtext>z", '''
<math math>
  <math mtext>
    <p>
      "x"
    "y"
  "z"
''')
B("<svg/>x<math/>y", '''
<svg svg>
"x"
<math math>
"y"
''')
B("<svg><!--c--><!DOCTYPE x>t", '''
<svg svg>
  <!-- c -->
  "t"
''')
B("<svg><a><b>x", '''
<svg svg>
  <svg a>
<b>
  "x"
''')
B("<b><svg><g>x</b>y", '''
<b>
  <svg svg>
    <svg g>
      "x"
"y"
''')
B("<select><svg>x", '''
<select>
  "x"
''')

# ------------------------------------------------------------------ template
Tt("<body><template>a<b>c</template>d", '''
<html>
  <head>
  <body>
    <template>
      content
        "a"
        <b>
          "c"
    "d"
''')
Tt("<template><table>x", '''
<html>
  <head>
    <template>
      content
        "x"
        <table>
  <body>
''')
Tt("<template><col><div>", '''
<html>
  <head>
    <template>
      content
        <col>
  <body>
''')
Tt("<template><frame></template>x", '''
<html>
  <head>
    <template>
      content
  <body>
    "x"
''')
Tt("<template><template>x</template>y</template>z", '''
<html>
  <head>
    <template>
      content
        <template>
          content
            "x"
        "y"
  <body>
    "z"
''')
Tt("<template><td>a<td>b<tr><td>c", '''
<html>
  <head>
    <template>
      content
        <td>
          "a"
        <td>
          "b"
        <td>
          "c"
  <body>
''')
Tt("<body></template>x<template></body></html><form><form>y", '''
<html>
  <head>
  <body>
    "x"
    <template>
      content
        <form>
          <form>
            "y"
''')
Tt("<html><head></head><template></template><head>", '''
<html>
  <head>
    <template>
      content
  <body>
''')
Tt("<table><template></template><tr>", '''
<html>
  <head>
  <body>
    <table>
      <template>
        content
      <tbody>
        <tr>
''')
Tt("<template><div><frameset>", '''
<html>
  <head>
    <template>
      content
        <div>
  <body>
''')

# ------------------------------------------------------------------ more template (template.dat)
Tt("<template>Hello</template>", '''
<html>
  <head>
    <template>
      content
        "Hello"
  <body>
''')
Tt("<template></template><div></div>", '''
<html>
  <head>
    <template>
      content
  <body>
    <div>
''')
B("<div><template><div><span></template><b>", '''
<div>
  <template>
    content
      <div>
        <span>
  <b>
''')
B("<div><template></div>Hello", '''
<div>
  <template>
    content
      "Hello"
''')
B("<div></template></div>x", '''
<div>
"x"
''')
B("<table><div><template></template></div>", '''
<div>
  <template>
    content
<table>
''')
B("<table><template></template><div></div>", '''
<div>
<table>
  <template>
    content
''')
B("<table>   <template></template></table>", '''
<table>
  "   "
  <template>
    content
''')
B("<table><tr><td><template></template></td></tr></table>", '''
<table>
  <tbody>
    <tr>
      <td>
        <template>
          content
''')
B("<table><colgroup><template></template></colgroup></table>", '''
<table>
  <colgroup>
    <template>
      content
''')
B("<table><thead><template><td></template></table>", '''
<table>
  <thead>
    <template>
      content
        <td>
''')
Tt("<template><a><table><a>", '''
<html>
  <head>
    <template>
      content
        <a>
          <a>
          <table>
  <body>
''')
Tt("<template><template><col>", '''
<html>
  <head>
    <template>
      content
        <template>
          content
            <col>
  <body>
''')
Tt("<template></figcaption><sub><table></table>", '''
<html>
  <head>
    <template>
      content
        <sub>
          <table>
  <body>
''')
Tt("<frameset></frameset><template>", '''
<html>
  <head>
  <frameset>
''')
Tt("<template><div><frameset><span></span></div><span></span></template>", '''
<html>
  <head>
    <template>
      content
        <div>
          <span>
        <span>
  <body>
''')
Tt("<body></body><template>", '''
<html>
  <head>
  <body>
    <template>
      content
''')
Tt("<template><thead></template>", '''
<html>
  <head>
    <template>
      content
        <thead>
  <body>
''')
B("<select><template><option></template>x", '''
<select>
  <template>
    content
      <option>
  "x"
''')
Tt("<html a=b><template><div><html b=c><span>", '''
<html>
  a="b"
  <head>
    <template>
      content
        <div>
          <span>
  <body>
''')
Tt("<template><div>", '''
<html>
  <head>
    <template>
      content
        <div>
  <body>
''')
Tt("<template><tr></tr><div>x</template>", '''
<html>
  <head>
    <template>
      content
        <tr>
        <div>
          "x"
  <body>
''')
Tt("<template>a<b>b</template>c<i>d", '''
<html>
  <head>
    <template>
      content
        "a"
        <b>
          "b"
  <body>
    "c"
    <i>
      "d"
''')

# ------------------------------------------------------------------ ruby (ruby.dat)
B("<ruby>a<rb>b<rb></ruby>", '''
<ruby>
  "a"
  <rb>
    "b"
  <rb>
''')
B("<ruby>a<rb>b<rt></ruby>", '''
<ruby>
  "a"
  <rb>
    "b"
  <rt>
''')
B("<ruby>a<rb>b<rtc></ruby>", '''
<ruby>
  "a"
  <rb>
    "b"
  <rtc>
''')
B("<ruby>a<rb>b<span></ruby>c", '''
<ruby>
  "a"
  <rb>
    "b"
    <span>
"c"
''')
B("<ruby>a<rtc>b<rb></ruby>", '''
<ruby>
  "a"
  <rtc>
    "b"
  <rb>
''')
B("<ruby>a<rtc>b<rt>c<rt>d</ruby>", '''
<ruby>
  "a"
  <rtc>
    "b"
    <rt>
      "c"
    <rt>
      "d"
''')
B("<ruby>a<rtc>b<rp></ruby>", '''
<ruby>
  "a"
  <rtc>
    "b"
    <rp>
''')
B("<ruby><rtc><ruby>a<rb>b<rt></ruby></ruby>", '''
<ruby>
  <rtc>
    <ruby>
      "a"
      <rb>
        "b"
      <rt>
''')
B("<div><rb>a<rt>b<rtc>c", '''
<div>
  <rb>
    "a"
    <rt>
      "b"
      <rtc>
        "c"
''')
Tt("<!DOCTYPE html>xxx<svg><x><g><a><main><b>", '''
<!DOCTYPE html>
<html>
  <head>
  <body>
    "xxx"
    <svg svg>
      <svg x>
        <svg g>
          <svg a>
            <svg main>
    <b>
''')
Tt("<!doctype html><p>foo<main>bar<p>baz", '''
<!DOCTYPE html>
<html>
  <head>
  <body>
    <p>
      "foo"
    <main>
      "bar"
      <p>
        "baz"
''')

# ------------------------------------------------------------------ fragments
F("<td>x</td><td>y", "td", '"xy"')
F("<td>x<td>y", "tr", '''
<td>
  "x"
<td>
  "y"
''')
F("<option>a<option>b", "select", '''
<option>
  "a"
<option>
  "b"
''')
F("<b>x</b><input>", "select", '"x"')
F("<b>x</title>y", "title", '"<b>x</title>y"')
F("<x>&amp;</textarea>", "textarea", '"<x>&</textarea>"')
F("<td>x", "table", '''
<tbody>
  <tr>
    <td>
      "x"
''')
F("<col><p><col>", "colgroup", '''
<col>
<col>
''')
F("<p>x", "html", '''
<head>
<body>
  <p>
    "x"
''')
F("<frame><p>x<frameset></frameset></frameset><frame>", "frameset", '''
<frame>
<frameset>
<frame>
''')
F("<p>x</svg>", "svg", '''
<p>
  "x"
''')
F("<td>x", "template", '''
<td>
  "x"
''')
F("<form>x</form>y", "form", '"xy"')
F("<p>x", "noscript", '''
<p>
  "x"
''')
F("<p>x", "noscript", '"<p>x"', scripting=True)
F("<p>x</plaintext>", "plaintext", '"<p>x</plaintext>"')
F("<!--<script>x</script>-->y", "script", '"<!--<script>x</script>-->y"')
F("a</body>b<!--c--></html>d", "body", '''
"ab"
<!-- c -->
"d"
''')
F("x<body a=1><html b=2>y", "div", '"xy"')
F("<tr><td>x", "tbody", '''
<tr>
  <td>
    "x"
''')
F("x<caption>y</caption><tr>", "caption", '"xy"')
F("a<optgroup>b</select>c", "option", '''
"a"
<optgroup>
  "bc"
''')
F("<style>a</style><b>", "style", '"<style>a</style><b>"')
F("</p><table>a", "p", '''
<p>
"a"
<table>
''')
F("<table><b>x", "div", '''
<b>
  "x"
<table>
''')
F("<b>x", "table", '''
<b>
  "x"
''')
F("<title>x</title><body><p>", "head", '''
<title>
  "x"
<p>
''')


# quirks-mode expectations
QUIRKS = [
    ("<!DOCTYPE html>", "no-quirks"),
    ("", "quirks"),
    ("x", "quirks"),
    ("<!DOCTYPE foo>", "quirks"),
    ("<!DOCTYPE>", "quirks"),
    ("<!DOCTYPE html foo>", "quirks"),
    ('<!DOCTYPE html PUBLIC "-//W3C//DTD HTML 4.01 Transitional//EN">', "quirks"),
    ('<!DOCTYPE html PUBLIC "-//W3C//DTD HTML 4.01 Transitional//EN" '
     '"http://www.w3.org/TR/html4/loose.dtd">', "limited-quirks"),
    ('<!DOCTYPE html PUBLIC "-//W3C//DTD HTML 4.01 Frameset//EN" "">', "limited-quirks"),
    ('<!DOCTYPE html PUBLIC "-//W3C//DTD HTML 4.01 Frameset//EN">', "quirks"),
    ('<!DOCTYPE html PUBLIC "-//W3C//DTD XHTML 1.0 Transitional//EN" '
     '"http://www.w3.org/TR/xhtml1/DTD/xhtml1-transitional.dtd">', "limited-quirks"),
    ('<!DOCTYPE html PUBLIC "-//W3C//DTD XHTML 1.0 Frameset//EN">', "limited-quirks"),
    ('<!DOCTYPE html PUBLIC "-//W3C//DTD XHTML 1.0 Strict//EN" '
     '"http://www.w3.org/TR/xhtml1/DTD/xhtml1-strict.dtd">', "no-quirks"),
    ('<!DOCTYPE html PUBLIC "-//W3C//DTD HTML 4.01//EN" "http://www.w3.org/TR/html4/strict.dtd">',
     "no-quirks"),
    ('<!DOCTYPE html PUBLIC "-//W3C//DTD HTML 3.2 Final//EN">', "quirks"),
    ('<!DOCTYPE html PUBLIC "-//w3c//dtd html 3.2 final//en">', "quirks"),
    ('<!DOCTYPE html PUBLIC "-//IETF//DTD HTML//EN">', "quirks"),
    ('<!DOCTYPE html PUBLIC "html">', "quirks"),
    ('<!DOCTYPE html PUBLIC "HTML4">', "no-quirks"),
    ('<!DOCTYPE html PUBLIC "-//W3O//DTD W3 HTML Strict 3.0//EN//">', "quirks"),
    ('<!DOCTYPE html PUBLIC "-/W3C/DTD HTML 4.0 Transitional/EN">', "quirks"),
    ('<!DOCTYPE html SYSTEM "http://www.ibm.com/data/dtd/v11/ibmxhtml1-transitional.dtd">',
     "quirks"),
    ('<!DOCTYPE html SYSTEM "HTTP://WWW.IBM.COM/data/dtd/v11/ibmxhtml1-transitional.dtd">',
     "quirks"),
    ('<!DOCTYPE html SYSTEM "about:legacy-compat">', "no-quirks"),
    ('<!DOCTYPE HTML PUBLIC "-//W3C//DTD HTML 4.0 Transitional//EN" "x">', "quirks"),
    ('<!DOCTYPE html PUBLIC "-//W3C//DTD HTML 4.0//EN">', "no-quirks"),
    ('<!DOCTYPE html PUBLIC "-//WebTechs//DTD Mozilla HTML//">', "quirks"),
    ('<!DOCTYPE html PUBLIC "+//silmaril//DTD HTML PRO V0R11 19970101//EN">', "quirks"),
    ("<!-- c --><!DOCTYPE html>", "no-quirks"),
    ("<html><!DOCTYPE html>", "quirks"),
]

# trace expectations: (input, context, scripting, tags that must be present, tags absent)
TRACES = [
    ("<b>1<p>2</b>3</p>", None, False, ["aaa:furthest-block", "tree-error"], ["foster"]),
    ("<b><i><u><s><em><p>x</b>y", None, False, ["aaa:inner>3", "dev:aaa-inner-loop"], []),
    ("<b><i><p>x</b>y", None, False, ["aaa:furthest-block"], ["aaa:inner>3"]),
    ("<table>a", None, False, ["foster", "table-text-foster"], []),
    ("<p><b>x</p>y", None, False, ["reconstruct"], ["foster"]),
    ("<p><b><b><b><b>x", None, False, ["noahs-ark"], []),
    ("<svg><g>", None, False, ["foreign"], ["foreign-breakout", "integration-point"]),
    ("<svg><p>", None, False, ["foreign-breakout"], []),
    ("<svg><p>", "div", False, ["ambiguous:foreign-breakout-fragment"], ["foreign-breakout"]),
    ("<svg></p>", None, False, ["ambiguous:foreign-end-p-br"], []),
    ("<svg><desc><p>", None, False, ["integration-point"], []),
    ("<template>", None, False, ["template"], []),
    ("<p><table>", None, False, ["quirks-table-close-p-skip"], []),
    ("<!DOCTYPE html><p><table></table>", None, False, [], ["quirks-table-close-p-skip", "tree-error"]),
    ("<!DOCTYPE html><p><table>", None, False, ["tree-error"], ["quirks-table-close-p-skip"]),
    ("<frameset>", None, False, ["frameset"], []),
    ("<frameset>a b", None, False, ["frameset-text-mixed", "dev:frameset-text"], []),
    ("<frameset> a", None, False, ["frameset-text-mixed"], ["dev:frameset-text"]),
    ("<p><b>x</p></body> ", None, False, ["after-body-ws", "dev:after-body-ws"], []),
    ("<body></body> ", None, False, ["after-body-ws"], ["dev:after-body-ws"]),
    ("<textarea>x", None, False, ["dev:textarea", "textarea-in-body-text"], []),
    ("<p><dialog>", None, False, ["dev:dialog-close-p"], []),
    ("<dialog>", None, False, [], ["dev:dialog-close-p"]),
    ("<isindex>", None, False, ["dev:isindex"], []),
    ("<command>", None, False, ["dev:command"], []),
    ("<ruby><rb>", None, False, ["dev:rb-rtc"], []),
    ("<ruby><rtc><rt>", None, False, ["dev:rb-rtc"], []),
    ("<svg><title></p>x</title>", None, False, [], []),
    ("<div><svg><div></svg></div>", None, False, [], []),
    ("<svg><b></svg>", None, False, [], []),
    ("<!DOCTYPE html><b></b>", None, False, [], ["dev:aaa-step1", "tree-error"]),
    ("<a><b></a></b>", None, False, ["aaa:no-furthest-block"], []),
    ("<b><i></b></i>", None, False, ["aaa:not-in-stack"], ["aaa:step-current-node"]),
    ("<b><b><b><b></b></b></b></b>x", None, False, ["aaa:step-current-node", "dev:aaa-step1"], []),
    ("<b><table><td></b>", None, False, ["aaa:no-formatting-element"], []),
    ("<b><marquee></b>", None, False, ["aaa:no-formatting-element"], ["aaa:not-in-scope"]),
    ("<a><table><a>", None, False, ["aaa:not-in-scope", "dev:aaa-not-in-scope"], []),
    ("<menuitem>", None, False, ["ambiguous:menuitem"], []),
    ("<svg>\x00", None, False, ["dev:cdata-nul", "nul-replaced"], []),
    ("<svg><desc>\x00", None, False, ["dev:cdata-nul", "nul-in-integration-point"], []),
    ("x", "noscript", False, ["dev:noscript-fragment"], []),
    ("x", "form", False, ["dev:form-context"], []),
    ("<main><p></main>", None, False, [], []),
    ("<svg xml:base=x>", None, False, ["ambiguous:xml-base"], []),
    ("<p>x", None, False, ["tree-error"], []),       # no doctype
    ("<!DOCTYPE html><p>x</p>", None, False, [], ["tree-error"]),
    ("<!DOCTYPE html><title>x</title><p>x</p>", None, False, [], ["tree-error"]),
    ("<svg><title><svg></title>x", None, False, [], ["dev:any-other-end-tag-ns"]),
    ("<svg><title><span></title>x", None, False, ["dev:any-other-end-tag-ns"], []),
]


def run_case(inp, ctx, scripting):
    if ctx is None:
        r = T.parse_document(inp, scripting=scripting)
    else:
        r = T.parse_fragment(inp, context=ctx, scripting=scripting)
    check_tree_invariants(r.root)
    return r


def main():
    failures = 0
    for (inp, exp, ctx, scripting) in CASES:
        r = run_case(inp, ctx, scripting)
        got = dump(r.root)
        if got != exp:
            failures += 1
            print("FAIL input=%r context=%r scripting=%r" % (inp, ctx, scripting))
            print("  expected:\n" + exp)
            print("  got:\n" + got)
    for (inp, exp) in RAW:
        got = dump(run_case(inp, None, False).root)
        if got != exp:
            failures += 1
            print("FAIL raw input=%r\n  expected:\n%s\n  got:\n%s" % (inp, exp, got))
    for (inp, q) in QUIRKS:
        r = T.parse_document(inp)
        if r.quirks_mode != q:
            failures += 1
            print("FAIL quirks input=%r expected=%s got=%s" % (inp, q, r.quirks_mode))
    for (inp, ctx, scripting, present, absent) in TRACES:
        r = run_case(inp, ctx, scripting)
        for t in present:
            assert t in T.TRACE_TAGS, "undocumented tag " + t
            if t not in r.trace:
                failures += 1
                print("FAIL trace input=%r ctx=%r: missing %s (have %s)" % (inp, ctx, t,
                                                                           sorted(r.trace)))
        for t in absent:
            if t in r.trace:
                failures += 1
                print("FAIL trace input=%r ctx=%r: unexpected %s" % (inp, ctx, t))
    print("expectations: %d trees, %d quirks, %d traces; failures: %d"
          % (len(CASES) + len(RAW), len(QUIRKS), len(TRACES), failures))

    failures += robustness()
    print("TOTAL FAILURES: %d" % failures)
    return 1 if failures else 0


NAMES = """a b i u em strong font nobr big code s small strike tt p div span ul ol li dl dt dd h1 h2
table caption colgroup col tbody thead tfoot tr td th select option optgroup input textarea button
form html head body title script style noscript template frameset frame noframes svg math mi mo
mtext annotation-xml foreignObject desc g path mglyph malignmark pre listing br hr img image
marquee object applet ruby rb rt rtc rp plaintext xmp iframe address center dialog main menu
menuitem keygen isindex command section details summary""".split()
CONTEXTS = ["div", "p", "span", "table", "tbody", "thead", "tr", "td", "th", "caption", "colgroup",
            "select", "optgroup", "option", "title", "textarea", "style", "script", "xmp", "iframe",
            "noembed", "noframes", "noscript", "plaintext", "html", "head", "body", "frameset",
            "button", "form", "a", "b", "pre", "template", "svg", "math", "unknown"]
TEXTS = ["x", " ", "\n", "a b", "\x00", "&amp;", "]]>", "<![CDATA[", "y ", "\r\n", "\x0c"]
ATTRS = ["", "", "", " a=1", " type=hidden", " color=red", ' encoding="text/html"', " class=x",
         " xlink:href=y", " definitionurl=z", "/"]


def soup(rnd):
    parts = []
    for _ in range(rnd.randint(1, 25)):
        k = rnd.random()
        if k < 0.5:
            parts.append("<%s%s>" % (rnd.choice(NAMES), rnd.choice(ATTRS)))
        elif k < 0.8:
            parts.append("</%s>" % rnd.choice(NAMES))
        elif k < 0.95:
            parts.append(rnd.choice(TEXTS))
        elif k < 0.98:
            parts.append("<!--c-->")
        else:
            parts.append(rnd.choice(["<!DOCTYPE html>", "<!doctype foo>", "<?x>"]))
    return "".join(parts)


SMALL_POOLS = [
    "b i a p div table td".split(),
    "frameset frame noframes html body".split(),
    "b b b p".split(),
    "select option optgroup table tr td input".split(),
    "svg math mi desc p b table annotation-xml".split(),
    "template table tr td col b".split(),
    "html head body p".split(),
]


def robustness(n=20000):
    rnd = random.Random(20200601)
    failures = 0
    t0 = time.time()
    all_tags = set()
    all_modes = set()
    switches = sorted(T.COMPAT_SWITCHES)
    full = list(NAMES)
    for i in range(n):
        if i % 4 == 3:
            NAMES[:] = rnd.choice(SMALL_POOLS)
        else:
            NAMES[:] = full
        s = soup(rnd)
        scripting = rnd.random() < 0.3
        # every third input also runs with a random subset of / all compat switches
        if i % 3 == 0:
            compat = frozenset(switches) if rnd.random() < 0.5 else frozenset(
                x for x in switches if rnd.random() < 0.5)
            try:
                r = T.parse_document(s, scripting=scripting, compat=compat)
                check_tree_invariants(r.root)
                r = T.parse_fragment(s, context=rnd.choice(CONTEXTS), scripting=scripting,
                                     compat=compat)
                check_tree_invariants(r.root)
            except Exception:   # noqa
                failures += 1
                if failures < 10:
                    import traceback
                    traceback.print_exc()
                    print("ROBUSTNESS (compat %r) FAIL input=%r" % (sorted(compat), s))
        try:
            r = T.parse_document(s, scripting=scripting)
            check_tree_invariants(r.root)
            dump(r.root)
            all_tags |= r.trace
            all_modes |= r.modes
            ctx = rnd.choice(CONTEXTS)
            r = T.parse_fragment(s, context=ctx, scripting=scripting)
            check_tree_invariants(r.root)
            dump(r.root)
            all_tags |= r.trace
            all_modes |= r.modes
        except Exception as e:   # noqa
            failures += 1
            if failures < 10:
                import traceback
                traceback.print_exc()
                print("ROBUSTNESS FAIL input=%r" % s)
    NAMES[:] = full
    undocumented = all_tags - set(T.TRACE_TAGS)
    if undocumented:
        failures += 1
        print("undocumented trace tags:", sorted(undocumented))
    print("soup: %d inputs in %.1fs; modes reached %d/%d; tags seen %d/%d"
          % (n, time.time() - t0, len(all_modes), len(T.INSERTION_MODES), len(all_tags),
             len(T.TRACE_TAGS)))
    missing_modes = set(T.INSERTION_MODES) - all_modes
    if missing_modes:
        print("  modes not reached:", sorted(missing_modes))
    print("  tags not seen:", sorted(set(T.TRACE_TAGS) - all_tags))
    deep = [("<div>" * 30000, None), ("<b><p>" * 3000, None), ("<table><td>" * 2000, None),
            ("<rt>" * 5000, None), ("<div>" + "<rt>" * 3000 + "</div>", None),
            ("<svg>" * 20000, None), ("<template>" * 5000, None), ("<b>" * 20000 + "x", None),
            ("<a><p>" * 2000, None), ("<li>" * 10000, None), ("<select>" * 5000, None),
            ("<div>" * 30000, "div"), ("<table><td>" * 2000, "td"),
            ("<i>" * 3000 + "</p>" * 100, None)]
    for (s, ctx) in deep:
        t1 = time.time()
        try:
            if ctx is None:
                r = T.parse_document(s)
            else:
                r = T.parse_fragment(s, context=ctx)
            check_tree_invariants(r.root)
            if len(s) < 30000:
                dump(r.root)
        except Exception as e:   # noqa
            failures += 1
            print("DEEP FAIL %r...: %r" % (s[:30], e))
        print("  deep %r... x%d: %.2fs" % (s[:12], len(s), time.time() - t1))
    return failures


if __name__ == "__main__":
    sys.exit(main())
