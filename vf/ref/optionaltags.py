"""The HTML standard's optional-tag rules (syntax section "Optional tags", June 2020) as a predicate.

may_omit(token, prev, next, prev_removed) -> bool

token/prev/next are walker-format token dicts (or None at the ends of the stream); the rules are
evaluated on the *immediate* neighbours, which is how the standard words them ("immediately
followed by", "first thing inside", "no more content in the parent element" == the next token is
an end tag or the stream ends).  Being more conservative than these rules is always fine.
"""
HTML_NS = "http://www.w3.org/1999/xhtml"

P_FOLLOW = frozenset("""address article aside blockquote details div dl fieldset figcaption figure footer form
h1 h2 h3 h4 h5 h6 header hgroup hr main menu nav ol p pre section table ul""".split())
P_PARENT_EXCLUDED = frozenset("a audio del ins map noscript video".split())
BODY_START_EXCEPT = frozenset("meta link script style template".split())


def is_html(tok):
    return tok.get("namespace") in (None, HTML_NS)


def _ty(tok):
    return tok["type"] if tok is not None else None


def _is_start(tok, names):
    return tok is not None and tok["type"] in ("StartTag", "EmptyTag") and is_html(tok) and tok["name"] in names


def _parent_ends(nxt):
    return nxt is None or nxt["type"] == "EndTag"


def may_omit(token, prev, nxt, prev_removed=False):
    ty = token["type"]
    if ty not in ("StartTag", "EndTag") or not is_html(token):
        return False
    name = token["name"]
    nty = _ty(nxt)
    if ty == "StartTag":
        if token["data"]:
            return False
        if name == "html":
            return nty != "Comment"
        if name == "head":
            return nty in ("StartTag", "EmptyTag") or (nty == "EndTag" and nxt["name"] == "head" and is_html(nxt))
        if name == "body":
            if nty == "EndTag" and nxt["name"] == "body":
                return True           # empty element
            if nty in ("SpaceCharacters", "Comment"):
                return False
            if nty == "Characters" and nxt["data"][:1] in " \t\n\f\r":
                return False
            if _is_start(nxt, BODY_START_EXCEPT):
                return False
            return True
        if name == "colgroup":
            if not _is_start(nxt, ("col",)):
                return False
            if prev is not None and prev["type"] == "EndTag" and prev["name"] == "colgroup" and is_html(prev) and prev_removed:
                return False
            return True
        if name == "tbody":
            if not _is_start(nxt, ("tr",)):
                return False
            if prev is not None and prev["type"] == "EndTag" and prev["name"] in ("tbody", "thead", "tfoot") and is_html(prev) and prev_removed:
                return False
            return True
        return False
    # end tags
    if name in ("html", "body"):
        return nty != "Comment"
    if name == "head":
        if nty in ("SpaceCharacters", "Comment"):
            return False
        if nty == "Characters" and nxt["data"][:1] in " \t\n\f\r":
            return False
        return True
    if name == "li":
        return _is_start(nxt, ("li",)) or _parent_ends(nxt)
    if name == "dt":
        return _is_start(nxt, ("dt", "dd"))
    if name == "dd":
        return _is_start(nxt, ("dt", "dd")) or _parent_ends(nxt)
    if name == "p":
        if _is_start(nxt, P_FOLLOW):
            return True
        if nxt is None:
            return True
        if nxt["type"] == "EndTag":
            # "...and the parent element is an HTML element that is not an a, audio, del, ins, map,
            # noscript, or video element, or an autonomous custom element"
            return is_html(nxt) and nxt["name"] not in P_PARENT_EXCLUDED and "-" not in nxt["name"]
        return False
    if name in ("rt", "rp"):
        return _is_start(nxt, ("rt", "rp")) or _parent_ends(nxt)
    if name == "optgroup":
        return _is_start(nxt, ("optgroup",)) or _parent_ends(nxt)
    if name == "option":
        return _is_start(nxt, ("option", "optgroup")) or _parent_ends(nxt)
    if name == "colgroup":
        if nty in ("SpaceCharacters", "Comment"):
            return False
        if nty == "Characters" and nxt["data"][:1] in " \t\n\f\r":
            return False
        return True
    if name == "caption":
        if nty in ("SpaceCharacters", "Comment"):
            return False
        return True
    if name == "thead":
        return _is_start(nxt, ("tbody", "tfoot"))
    if name == "tbody":
        return _is_start(nxt, ("tbody", "tfoot")) or _parent_ends(nxt)
    if name == "tfoot":
        return _parent_ends(nxt)
    if name == "tr":
        return _is_start(nxt, ("tr",)) or _parent_ends(nxt)
    if name in ("td", "th"):
        return _is_start(nxt, ("td", "th")) or _parent_ends(nxt)
    return False
