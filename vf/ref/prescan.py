"""Reference model of the encoding sniffing the property C06 describes.

* precedence chain (BOM, override, transport, meta prescan of the first 1024 bytes, same-origin parent unless UTF-16,
  likely, default, windows-1252), with labels resolved by webencodings (third party, not under test);
* the WHATWG "prescan a byte stream to determine its encoding" algorithm and "extracting a character encoding from a
  meta element", written from the standard;
* what a meta element met during tree construction declares (same extraction on attribute strings).
Nothing here imports html5lib.
"""
import webencodings

WS = b"\t\n\x0c\r "


def lookup(label):
    """label (str/bytes/None) -> canonical encoding name or None"""
    if label is None:
        return None
    if isinstance(label, bytes):
        try:
            label = label.decode("ascii")
        except UnicodeDecodeError:
            return None
    try:
        e = webencodings.lookup(label)
    except Exception:
        return None
    return e.name if e is not None else None


def bom(data):
    if data[:3] == b"\xef\xbb\xbf":
        return "utf-8", 3
    if data[:2] == b"\xff\xfe":
        return "utf-16le", 2
    if data[:2] == b"\xfe\xff":
        return "utf-16be", 2
    return None, 0


class _Abort(Exception):
    pass


def _get_attribute(d, p, n):
    """'get an attribute' -> (name, value, new position) or (None, None, position). Raises _Abort at the end of the window."""
    def at(i):
        if i >= n:
            raise _Abort()
        return d[i:i + 1]
    while at(p) in WS or at(p) == b"/":
        p += 1
    if at(p) == b">":
        return None, None, p
    name = bytearray()
    value = bytearray()
    while True:
        c = at(p)
        if c == b"=" and name:
            p += 1
            break
        if c in WS:
            while at(p) in WS:
                p += 1
            if at(p) != b"=":
                return bytes(name), b"", p
            p += 1
            break
        if c == b"/" or c == b">":
            return bytes(name), b"", p
        name += c.lower() if b"A" <= c <= b"Z" else c
        p += 1
    while at(p) in WS:
        p += 1
    c = at(p)
    if c in (b'"', b"'"):
        q = c
        while True:
            p += 1
            c = at(p)
            if c == q:
                return bytes(name), bytes(value), p + 1
            value += c.lower() if b"A" <= c <= b"Z" else c
    if c == b">":
        return bytes(name), b"", p
    value += c.lower() if b"A" <= c <= b"Z" else c
    p += 1
    while True:
        c = at(p)
        if c in WS or c == b">":
            return bytes(name), bytes(value), p
        value += c.lower() if b"A" <= c <= b"Z" else c
        p += 1


def extract_from_content(s):
    """'algorithm for extracting a character encoding from a meta element' on a str or bytes value -> label (same type) or None"""
    is_bytes = isinstance(s, bytes)
    ws = WS if is_bytes else " \t\n\x0c\r"
    low = s.lower() if is_bytes else "".join(ch.lower() if "A" <= ch <= "Z" else ch for ch in s)
    needle = b"charset" if is_bytes else "charset"
    eq, dq, sq, semi = (b"=", b'"', b"'", b";") if is_bytes else ("=", '"', "'", ";")
    p = 0
    n = len(s)
    while True:
        i = low.find(needle, p)
        if i < 0:
            return None
        p = i + 7
        while p < n and s[p:p + 1] in ws:
            p += 1
        if p >= n or s[p:p + 1] != eq:
            continue
        p += 1
        while p < n and s[p:p + 1] in ws:
            p += 1
        if p >= n:
            return None
        c = s[p:p + 1]
        if c in (dq, sq):
            j = s.find(c, p + 1)
            if j < 0:
                return None
            return s[p + 1:j]
        j = p
        while j < n and s[j:j + 1] not in ws and s[j:j + 1] != semi:
            j += 1
        return s[p:j]


def prescan(data, limit=1024):
    """WHATWG prescan over the first `limit` bytes -> canonical encoding name or None."""
    d = data[:limit]
    n = len(d)
    p = 0
    try:
        while p < n:
            if d.startswith(b"<!--", p):
                # the two dashes of the terminator may be those of the opener ("<!-->")
                j = d.find(b"-->", p + 2)
                if j < 0:
                    raise _Abort()
                p = j + 3
                continue
            low6 = d[p:p + 6].lower()
            if low6[:5] == b"<meta" and len(low6) == 6 and (low6[5:6] in WS or low6[5:6] == b"/"):
                p += 5
                seen = set()
                got_pragma = False
                need_pragma = None
                charset = None        # None = null, False = failure
                while True:
                    name, value, p = _get_attribute(d, p, n)
                    if name is None:
                        break
                    if name in seen:
                        continue
                    seen.add(name)
                    if name == b"http-equiv":
                        if value == b"content-type":
                            got_pragma = True
                    elif name == b"content":
                        lab = extract_from_content(value)
                        enc = lookup(lab) if lab is not None else None
                        if charset is None and enc is not None:
                            charset = enc
                            need_pragma = True
                    elif name == b"charset":
                        enc = lookup(value)
                        charset = enc if enc is not None else False
                        need_pragma = False
                if need_pragma is None or (need_pragma and not got_pragma) or charset is False or charset is None:
                    p += 1
                    continue
                if charset in ("utf-16le", "utf-16be"):
                    charset = "utf-8"
                if charset == "x-user-defined":
                    charset = "windows-1252"
                return charset
            c1 = d[p:p + 1]
            if c1 == b"<":
                q = p + 1
                if d[q:q + 1] == b"/":
                    q += 1
                c2 = d[q:q + 1]
                if c2 and (b"a" <= c2.lower() <= b"z"):
                    # a tag: skip its name, then its attributes
                    while True:
                        if q >= n:
                            raise _Abort()
                        if d[q:q + 1] in WS or d[q:q + 1] == b">":
                            break
                        q += 1
                    p = q
                    while True:
                        name, value, p = _get_attribute(d, p, n)
                        if name is None:
                            break
                    p += 1
                    continue
                if d[p + 1:p + 2] in (b"!", b"/", b"?"):
                    j = d.find(b">", p)
                    if j < 0:
                        raise _Abort()
                    p = j + 1
                    continue
            p += 1
    except _Abort:
        return None
    return None


def meta_declares(attrs):
    """What encoding does a meta element with these (name -> value, str) attributes declare during tree construction?
    -> canonical name or None.  (charset attribute first; else http-equiv=content-type + content.)"""
    if "charset" in attrs:
        enc = lookup(attrs["charset"])
        if enc is not None:
            return enc
    if "http-equiv" in attrs and "content" in attrs and attrs["http-equiv"].lower() == "content-type":
        lab = extract_from_content(attrs["content"])
        if lab is not None:
            return lookup(lab)
    return None


def pre_parse_encoding(data, args, prescan_fn=None):
    """(canonical name, confidence, source) before tree construction, per the property's precedence."""
    prescan_fn = prescan_fn or prescan
    b, _ = bom(data)
    if b:
        return b, "certain", "bom"
    for key in ("override_encoding", "transport_encoding"):
        e = lookup(args.get(key))
        if e:
            return e, "certain", key
    e = prescan_fn(data)
    if e:
        return e, "tentative", "meta-prescan"
    e = lookup(args.get("same_origin_parent_encoding"))
    if e and not e.startswith("utf-16"):
        return e, "tentative", "same_origin_parent_encoding"
    e = lookup(args.get("likely_encoding"))
    if e:
        return e, "tentative", "likely_encoding"
    e = lookup(args.get("default_encoding", "windows-1252"))
    if e:
        return e, "tentative", "default_encoding"
    return "windows-1252", "tentative", "fallback"


# ---------------------------------------------------------------------------
# Model of html5lib's prescan *variant* (used only to classify the recorded finding C06-prescan-variant:
# a result is attributed to it iff this model predicts html5lib's answer where the standard's prescan does not).
# Differences from the standard, all in one place:
#   * "<" also terminates tag names and unquoted attribute values,
#   * a declaration is accepted as soon as it is seen (before the end of the tag; a tag cut off by the end of the
#     1024-byte window or by EOF still counts),
#   * duplicate attributes are not ignored; an invalid charset attribute does not block a later content/charset,
#   * "<!--" needs a complete "-->" after it ("<!-->" does not end the comment),
#   * content extraction looks at the first "charset" only and ends an unquoted value at whitespace only (also for
#     meta elements met during tree construction, where it is case-sensitive and an invalid charset attribute hides content),
#   * the scanning loop steps over one byte after every construct ("<<meta charset=x>" is missed).

def _h5l_extract(value):
    i = value.find(b"charset")
    if i < 0:
        return None
    p = i + 7
    n = len(value)
    while p < n and value[p:p + 1] in WS:
        p += 1
    if p >= n or value[p:p + 1] != b"=":
        return None
    p += 1
    while p < n and value[p:p + 1] in WS:
        p += 1
    if p >= n:
        return None            # html5lib: currentByte raises at the end -> no encoding
    c = value[p:p + 1]
    if c in (b'"', b"'"):
        j = value.find(c, p + 1)
        if j < 0:
            return None
        return value[p + 1:j]
    j = p
    while j < n and value[j:j + 1] not in WS:
        j += 1
    return value[p:j]


def _h5l_get_attribute(d, p, n):
    """html5lib's getAttribute; returns (name, value, p) / (None, None, p); raises _Abort at the end of the data."""
    TERM = WS + b"<>"

    def at(i):
        if i >= n:
            raise _Abort()
        return d[i:i + 1]
    while p < n and (d[p:p + 1] in WS or d[p:p + 1] == b"/"):
        p += 1
    if p >= n or d[p:p + 1] == b">":
        return None, None, p
    name = bytearray()
    value = bytearray()
    c = d[p:p + 1]
    while True:
        if c == b"=" and name:
            break
        elif c in WS:
            while p < n and d[p:p + 1] in WS:
                p += 1
            if p >= n:
                c = None
            else:
                c = d[p:p + 1]
            break
        elif c in (b"/", b">"):
            return bytes(name), b"", p
        else:
            name += c
        p += 1
        c = at(p)
    if c != b"=":
        return bytes(name), b"", p
    p += 1
    at(p)
    while p < n and d[p:p + 1] in WS:
        p += 1
    if p >= n:
        return None, None, p
    c = d[p:p + 1]
    if c in (b"'", b'"'):
        q = c
        while True:
            p += 1
            c = at(p)
            if c == q:
                p += 1
                return bytes(name), bytes(value), p
            value += c
    elif c == b">":
        return bytes(name), b"", p
    else:
        value += c
    while True:
        p += 1
        c = at(p)
        if c in TERM:
            return bytes(name), bytes(value), p
        value += c


def prescan_h5l(data, limit=1024):
    d = data[:limit].lower()
    n = len(d)
    if b"<meta" not in d:
        return None
    p = 0
    result = None
    try:
        while True:
            i = d.find(b"<", p)
            if i < 0:
                break
            p = i
            if d.startswith(b"<!--", p):
                j = d.find(b"-->", p + 4)
                if j < 0:
                    break
                p = j + 3
                continue
            if d.startswith(b"<meta", p):
                p += 5
                if p >= n:
                    break
                if not (d[p:p + 1] in WS or d[p:p + 1] == b"/"):
                    p += 1          # html5lib's scanning loop steps over one byte after every construct
                    continue
                has_pragma = False
                pending = None
                found = None
                while True:
                    name, value, p = _h5l_get_attribute(d, p, n)
                    if name is None:
                        break
                    if name == b"http-equiv":
                        has_pragma = value == b"content-type"
                        if has_pragma and pending is not None:
                            found = pending
                            break
                    elif name == b"charset":
                        e = lookup(value)
                        if e is not None:
                            found = e
                            break
                    elif name == b"content":
                        lab = _h5l_extract(value)
                        if lab is not None:
                            e = lookup(lab)
                            if e is not None:
                                if has_pragma:
                                    found = e
                                    break
                                pending = e
                if found is not None:
                    result = found
                    break
                continue
            if d.startswith(b"</", p):
                q = p + 3                         # html5lib looks at the byte *after* the first byte of the name
                if q >= n:
                    break
                if b"a" <= d[q:q + 1] <= b"z":
                    p = _h5l_skip_tag(d, q, n)
                else:
                    j = d.find(b">", p + 2)      # handleOther after stepping back
                    if j < 0:
                        break
                    p = j + 1
                continue
            if d.startswith(b"<!", p) or d.startswith(b"<?", p):
                j = d.find(b">", p + 2)
                if j < 0:
                    break
                p = j + 1
                continue
            q = p + 1
            if q >= n:
                break
            if b"a" <= d[q:q + 1] <= b"z":
                p = _h5l_skip_tag(d, q, n)
            else:
                p = q + 1           # ... so the byte after a lone "<" is never looked at (a second "<" is missed)
    except _Abort:
        pass
    if result in ("utf-16le", "utf-16be"):
        result = "utf-8"
    if result == "x-user-defined":
        result = "windows-1252"
    return result


def _h5l_skip_tag(d, q, n):
    while q < n and d[q:q + 1] not in WS + b"<>":
        q += 1
    if q >= n:
        raise _Abort()
    if d[q:q + 1] == b"<":
        return q
    while True:
        name, value, q = _h5l_get_attribute(d, q, n)
        if name is None:
            return q


def meta_declares_h5l(attrs):
    """html5lib's variant of what a meta element met during tree construction declares (part of C06-prescan-variant)."""
    if "charset" in attrs:
        return lookup(attrs["charset"])
    if "content" in attrs and "http-equiv" in attrs and attrs["http-equiv"].lower() == "content-type":
        try:
            lab = _h5l_extract(attrs["content"].encode("utf-8").lower())     # EncodingBytes lower-cases its data
        except UnicodeEncodeError:
            return None
        if lab is not None:
            return lookup(lab)
    return None
