"""Reference implementation of the WHATWG HTML tree-construction stage (June 2020).

Written from the standard (section 13.2.6 "Tree construction" and 13.4 "Parsing HTML
fragments"), independent of html5lib.  Pure stdlib, fully iterative.

Public interface:
    parse_document(text, scripting=False, compat=frozenset()) -> Result
    parse_fragment(text, context="div", scripting=False, compat=frozenset()) -> Result
"""

HTML_NS = "http://www.w3.org/1999/xhtml"
MATHML_NS = "http://www.w3.org/1998/Math/MathML"
SVG_NS = "http://www.w3.org/2000/svg"
XLINK_NS = "http://www.w3.org/1999/xlink"
XML_NS = "http://www.w3.org/XML/1998/namespace"
XMLNS_NS = "http://www.w3.org/2000/xmlns/"

# --------------------------------------------------------------------------------------
# Trace tags
# --------------------------------------------------------------------------------------
TRACE_TAGS = [
    # generic
    "tree-error",                 # any tree-construction parse error
    "foster",                     # a node was actually foster parented
    "aaa:furthest-block",         # adoption agency ran with a furthest block
    "aaa:no-furthest-block",      # adoption agency: no furthest block (pop through fe)
    "aaa:inner>3",                # adoption agency inner loop counter exceeded 3
    "aaa:step-current-node",      # AAA early exit: current node is subject and not in AFE
    "aaa:not-in-scope",           # AAA: formatting element on the stack but not in scope
    "aaa:not-in-stack",           # AAA: formatting element not on the stack (removed from AFE)
    "aaa:no-formatting-element",  # AAA: fell back to "any other end tag"
    "aaa:outer>1",                # AAA outer loop ran more than one full iteration
    "aaa:outer-limit",            # AAA outer loop hit the limit of 8
    "reconstruct",                # reconstruct the AFE created >= 1 element
    "noahs-ark",                  # Noah's Ark clause removed an AFE entry
    "foreign",                    # a token was processed by the foreign-content rules
    "foreign-breakout",           # a break-out start tag popped out of foreign content
    "foreign-end-to-html",        # foreign "any other end tag" fell through to the insertion mode
    "foreign-self-closing",       # self-closing flag popped a foreign element
    "integration-point",          # dispatcher used the insertion mode because of an integration point
    "nul-in-integration-point",   # NUL char token handled by an insertion mode while ACN is foreign
    "template",                   # any template specific step
    "quirks-table-close-p-skip",  # <table> in quirks mode did not close an open p
    "frameset",                   # a frameset element was inserted
    "frameset-replaces-body",     # <frameset> in body removed the body element
    "after-body-ws",              # whitespace processed in "after body"
    "frameset-text-mixed",        # char run in frameset modes with both ws and non-ws
    "textarea-in-body-text",      # characters inserted in a textarea opened by "in body"
    "body-attrs-merged",          # <body> start tag merged attributes
    "html-attrs-merged",          # <html> start tag merged attributes
    "form-pointer-ignore",        # <form> ignored because the form pointer was set
    "form-end-remove-middle",     # </form> removed a form that was not the current node
    "implied-p",                  # </p> without p in button scope created a p
    "br-end-tag",                 # </br> treated as <br>
    "image-to-img",               # <image> turned into <img>
    "skip-lf",                    # a LF after pre/listing/textarea was dropped
    "table-text-foster",          # pending table characters contained non-whitespace
    "table-text-ws",              # pending table characters were whitespace only
    "select-in-table-breakout",   # "in select in table" popped the select
    "heading-nesting",            # heading start tag popped an open heading
    "nul-dropped",                # a NUL character token was ignored
    "nul-replaced",               # a NUL character token became U+FFFD (foreign content)
    "doctype",                    # a doctype token was appended in the initial mode
    "doctype-ignored",            # a doctype token was ignored
    "scope-barrier",              # an end tag was ignored because the element was not in scope
    "fragment",                   # parse_fragment was used
    # revision-ambiguous steps
    "ambiguous:menuitem",
    "ambiguous:foreign-breakout-fragment",
    "ambiguous:foreign-end-p-br",
    "ambiguous:xml-base",
    "ambiguous:fedropshadow",
    "ambiguous:svg-attr-obsolete",
    # steps where html5lib is known (SPEC_NOTES) to deviate
    "dev:special-extra",
    "dev:rb-rtc",
    "dev:aaa-step1",
    "dev:aaa-not-in-scope",
    "dev:aaa-inner-loop",
    "dev:noscript-fragment",
    "dev:form-context",
    "dev:command",
    "dev:dialog-close-p",
    "dev:dialog-end",
    "dev:textarea",
    "dev:isindex",
    "dev:any-other-end-tag-ns",
    "dev:after-body-ws",
    "dev:frameset-text",
    "dev:cdata-nul",
    "dev:implied-end-recursive",  # implied end tags popped > 900 elements (html5lib recursion)
]

COMPAT_SWITCHES = set()       # filled in below (phase 2)
UNIMPLEMENTED_COMPAT = set()  # filled in below

# --------------------------------------------------------------------------------------
# Sets and tables
# --------------------------------------------------------------------------------------
WS = "\t\n\x0c "   # CR never reaches the tree builder

_H = HTML_NS
HEADINGS = frozenset(["h1", "h2", "h3", "h4", "h5", "h6"])

SPECIAL_HTML = frozenset("""address applet area article aside base basefont bgsound blockquote
body br button caption center col colgroup dd details dir div dl dt embed fieldset figcaption
figure footer form frame frameset h1 h2 h3 h4 h5 h6 head header hgroup hr html iframe img input
keygen li link listing main marquee menu meta nav noembed noframes noscript object ol p param
plaintext pre script section select source style summary table tbody td template textarea tfoot
th thead title tr track ul wbr xmp""".split())
SPECIAL_MATHML = frozenset(["mi", "mo", "mn", "ms", "mtext", "annotation-xml"])
SPECIAL_SVG = frozenset(["foreignObject", "desc", "title"])
# names for which html5lib's special list differs (SPEC_NOTES 3.1)
_H5L_SPECIAL_LACKS_HTML = frozenset(["figcaption", "hgroup", "keygen", "main", "source",
                                     "summary", "template", "track"])
_H5L_SPECIAL_EXTRA_HTML = frozenset(["command", "image", "isindex"])

FORMATTING = frozenset("a b big code em font i nobr s small strike strong tt u".split())

# scope barriers as (ns, name)
SCOPE_DEFAULT = frozenset(
    [(_H, n) for n in ("applet", "caption", "html", "table", "td", "th", "marquee", "object",
                       "template")]
    + [(MATHML_NS, n) for n in ("mi", "mo", "mn", "ms", "mtext", "annotation-xml")]
    + [(SVG_NS, n) for n in ("foreignObject", "desc", "title")])
SCOPE_LIST_ITEM = SCOPE_DEFAULT | frozenset([(_H, "ol"), (_H, "ul")])
SCOPE_BUTTON = SCOPE_DEFAULT | frozenset([(_H, "button")])
SCOPE_TABLE = frozenset([(_H, "html"), (_H, "table"), (_H, "template")])

IMPLIED_END = frozenset("dd dt li optgroup option p rb rp rt rtc".split())
IMPLIED_END_THOROUGH = IMPLIED_END | frozenset(
    "caption colgroup tbody td tfoot th thead tr".split())

MATHML_TEXT_IP = frozenset(["mi", "mo", "mn", "ms", "mtext"])

FOREIGN_BREAKOUT = frozenset("""b big blockquote body br center code dd div dl dt em embed h1 h2
h3 h4 h5 h6 head hr i img li listing menu meta nobr ol p pre ruby s small span strong strike sub
sup table tt u ul var""".split())

SVG_TAG_NAMES = {n.lower(): n for n in """altGlyph altGlyphDef altGlyphItem animateColor
animateMotion animateTransform clipPath feBlend feColorMatrix feComponentTransfer feComposite
feConvolveMatrix feDiffuseLighting feDisplacementMap feDistantLight feDropShadow feFlood feFuncA
feFuncB feFuncG feFuncR feGaussianBlur feImage feMerge feMergeNode feMorphology feOffset
fePointLight feSpecularLighting feSpotLight feTile feTurbulence foreignObject glyphRef
linearGradient radialGradient textPath""".split()}

SVG_ATTRS = {n.lower(): n for n in """attributeName attributeType baseFrequency baseProfile
calcMode clipPathUnits diffuseConstant edgeMode filterUnits glyphRef gradientTransform
gradientUnits kernelMatrix kernelUnitLength keyPoints keySplines keyTimes lengthAdjust
limitingConeAngle markerHeight markerUnits markerWidth maskContentUnits maskUnits numOctaves
pathLength patternContentUnits patternTransform patternUnits pointsAtX pointsAtY pointsAtZ
preserveAlpha preserveAspectRatio primitiveUnits refX refY repeatCount repeatDur
requiredExtensions requiredFeatures specularConstant specularExponent spreadMethod startOffset
stdDeviation stitchTiles surfaceScale systemLanguage tableValues targetX targetY textLength
viewBox viewTarget xChannelSelector yChannelSelector zoomAndPan""".split()}
# attributes that older revisions of the table (and html5lib) adjusted, dropped before 2020
SVG_ATTRS_OBSOLETE = {n.lower(): n for n in
                      "contentScriptType contentStyleType externalResourcesRequired filterRes".split()}

FOREIGN_ATTRS = {
    "xlink:actuate": (XLINK_NS, "actuate"),
    "xlink:arcrole": (XLINK_NS, "arcrole"),
    "xlink:href": (XLINK_NS, "href"),
    "xlink:role": (XLINK_NS, "role"),
    "xlink:show": (XLINK_NS, "show"),
    "xlink:title": (XLINK_NS, "title"),
    "xlink:type": (XLINK_NS, "type"),
    "xml:lang": (XML_NS, "lang"),
    "xml:space": (XML_NS, "space"),
    "xmlns": (XMLNS_NS, "xmlns"),
    "xmlns:xlink": (XMLNS_NS, "xlink"),
}

QUIRKS_PUBLIC_PREFIXES = tuple(s.lower() for s in [
    "+//Silmaril//dtd html Pro v0r11 19970101//",
    "-//AS//DTD HTML 3.0 asWedit + extensions//",
    "-//AdvaSoft Ltd//DTD HTML 3.0 asWedit + extensions//",
    "-//IETF//DTD HTML 2.0 Level 1//",
    "-//IETF//DTD HTML 2.0 Level 2//",
    "-//IETF//DTD HTML 2.0 Strict Level 1//",
    "-//IETF//DTD HTML 2.0 Strict Level 2//",
    "-//IETF//DTD HTML 2.0 Strict//",
    "-//IETF//DTD HTML 2.0//",
    "-//IETF//DTD HTML 2.1E//",
    "-//IETF//DTD HTML 3.0//",
    "-//IETF//DTD HTML 3.2 Final//",
    "-//IETF//DTD HTML 3.2//",
    "-//IETF//DTD HTML 3//",
    "-//IETF//DTD HTML Level 0//",
    "-//IETF//DTD HTML Level 1//",
    "-//IETF//DTD HTML Level 2//",
    "-//IETF//DTD HTML Level 3//",
    "-//IETF//DTD HTML Strict Level 0//",
    "-//IETF//DTD HTML Strict Level 1//",
    "-//IETF//DTD HTML Strict Level 2//",
    "-//IETF//DTD HTML Strict Level 3//",
    "-//IETF//DTD HTML Strict//",
    "-//IETF//DTD HTML//",
    "-//Metrius//DTD Metrius Presentational//",
    "-//Microsoft//DTD Internet Explorer 2.0 HTML Strict//",
    "-//Microsoft//DTD Internet Explorer 2.0 HTML//",
    "-//Microsoft//DTD Internet Explorer 2.0 Tables//",
    "-//Microsoft//DTD Internet Explorer 3.0 HTML Strict//",
    "-//Microsoft//DTD Internet Explorer 3.0 HTML//",
    "-//Microsoft//DTD Internet Explorer 3.0 Tables//",
    "-//Netscape Comm. Corp.//DTD HTML//",
    "-//Netscape Comm. Corp.//DTD Strict HTML//",
    "-//O'Reilly and Associates//DTD HTML 2.0//",
    "-//O'Reilly and Associates//DTD HTML Extended 1.0//",
    "-//O'Reilly and Associates//DTD HTML Extended Relaxed 1.0//",
    "-//SQ//DTD HTML 2.0 HoTMetaL + extensions//",
    "-//SoftQuad Software//DTD HoTMetaL PRO 6.0::19990601::extensions to HTML 4.0//",
    "-//SoftQuad//DTD HoTMetaL PRO 4.0::19971010::extensions to HTML 4.0//",
    "-//Spyglass//DTD HTML 2.0 Extended//",
    "-//Sun Microsystems Corp.//DTD HotJava HTML//",
    "-//Sun Microsystems Corp.//DTD HotJava Strict HTML//",
    "-//W3C//DTD HTML 3 1995-03-24//",
    "-//W3C//DTD HTML 3.2 Draft//",
    "-//W3C//DTD HTML 3.2 Final//",
    "-//W3C//DTD HTML 3.2//",
    "-//W3C//DTD HTML 3.2S Draft//",
    "-//W3C//DTD HTML 4.0 Frameset//",
    "-//W3C//DTD HTML 4.0 Transitional//",
    "-//W3C//DTD HTML Experimental 19960712//",
    "-//W3C//DTD HTML Experimental 970421//",
    "-//W3C//DTD W3 HTML//",
    "-//W3O//DTD W3 HTML 3.0//",
    "-//WebTechs//DTD Mozilla HTML 2.0//",
    "-//WebTechs//DTD Mozilla HTML//",
])
assert len(QUIRKS_PUBLIC_PREFIXES) == 55
QUIRKS_PUBLIC_EXACT = frozenset(s.lower() for s in [
    "-//W3O//DTD W3 HTML Strict 3.0//EN//",
    "-/W3C/DTD HTML 4.0 Transitional/EN",
    "HTML",
])
QUIRKS_SYSTEM_EXACT = "http://www.ibm.com/data/dtd/v11/ibmxhtml1-transitional.dtd"
HTML401_PREFIXES = ("-//w3c//dtd html 4.01 frameset//", "-//w3c//dtd html 4.01 transitional//")
LIMITED_QUIRKS_PREFIXES = ("-//w3c//dtd xhtml 1.0 frameset//",
                           "-//w3c//dtd xhtml 1.0 transitional//")


def _ascii_lower(s):
    # ASCII-only lower-casing (str.lower would also fold e.g. U+212A KELVIN SIGN)
    if s.isascii():
        return s.lower()
    return "".join(chr(ord(c) + 32) if "A" <= c <= "Z" else c for c in s)


# --------------------------------------------------------------------------------------
# Tree
# --------------------------------------------------------------------------------------
class Node(object):
    __slots__ = ("kind", "parent", "children", "ns", "name", "attrs", "data", "public",
                 "system", "template_contents")

    def __init__(self, kind, name=None, ns=None, attrs=None, data=None, public=None,
                 system=None):
        self.kind = kind
        self.parent = None
        self.children = []
        self.ns = ns
        self.name = name
        self.attrs = attrs if attrs is not None else []
        self.data = data
        self.public = public
        self.system = system
        self.template_contents = None

    def __repr__(self):
        if self.kind == "element":
            return "<Node element %s %s>" % (self.ns, self.name)
        if self.kind in ("text", "comment"):
            return "<Node %s %r>" % (self.kind, self.data)
        return "<Node %s>" % self.kind

    # -- mutation helpers (no recursion) --
    def append(self, child):
        if child.parent is not None:
            child.parent.remove(child)
        child.parent = self
        self.children.append(child)

    def insert_before(self, child, ref):
        if ref is None:
            self.append(child)
            return
        if child.parent is not None:
            child.parent.remove(child)
        idx = _index_identity(self.children, ref)
        child.parent = self
        self.children.insert(idx, child)

    def remove(self, child):
        idx = _index_identity(self.children, child)
        del self.children[idx]
        child.parent = None


def _index_identity(lst, item):
    # search from the end first: the common case is the last child
    n = len(lst)
    if n and lst[n - 1] is item:
        return n - 1
    for i in range(n):
        if lst[i] is item:
            return i
    raise ValueError("node not found")


class Result(object):
    __slots__ = ("root", "quirks_mode", "trace", "modes")

    def __init__(self, root, quirks_mode, trace, modes):
        self.root = root
        self.quirks_mode = quirks_mode
        self.trace = trace
        self.modes = modes


MARKER = None  # the marker entry in the list of active formatting elements
REPROCESS = "reprocess"
