"""Reference implementation of the WHATWG HTML tree-construction stage (June 2020).

Written from the standard (section 13.2.6 "Tree construction" and 13.4 "Parsing HTML
fragments"), independent of html5lib.  Pure stdlib, fully iterative.

Public interface:
    parse_document(text, scripting=False, compat=frozenset()) -> Result
    parse_fragment(text, context="div", scripting=False, compat=frozenset()) -> Result

Result.trace holds the TRACE_TAGS of the named steps that executed.  With compat=frozenset()
the algorithm is the standard's; every name in COMPAT_SWITCHES switches one step to what
html5lib does instead (the step is the one that sets the trace tag "dev:<name>").
"""

HTML_NS = "http://www.w3.org/1999/xhtml"
MATHML_NS = "http://www.w3.org/1998/Math/MathML"
SVG_NS = "http://www.w3.org/2000/svg"
XLINK_NS = "http://www.w3.org/1999/xlink"
XML_NS = "http://www.w3.org/XML/1998/namespace"
XMLNS_NS = "http://www.w3.org/2000/xmlns/"

# --------------------------------------------------------------------------------------
# Trace tags
# --------------------------------------------------------------------------------------
TRACE_TAGS = [
    # generic
    "tree-error",                 # any tree-construction parse error
    "foster",                     # a node was actually foster parented
    "aaa:furthest-block",         # adoption agency ran with a furthest block
    "aaa:no-furthest-block",      # adoption agency: no furthest block (pop through fe)
    "aaa:inner>3",                # adoption agency inner loop counter exceeded 3
    "aaa:step-current-node",      # AAA early exit: current node is subject and not in AFE
    "aaa:not-in-scope",           # AAA: formatting element on the stack but not in scope
    "aaa:not-in-stack",           # AAA: formatting element not on the stack (removed from AFE)
    "aaa:no-formatting-element",  # AAA: fell back to "any other end tag"
    "aaa:outer>1",                # AAA outer loop ran more than one full iteration
    "aaa:outer-limit",            # AAA outer loop hit the limit of 8
    "reconstruct",                # reconstruct the AFE created >= 1 element
    "noahs-ark",                  # Noah's Ark clause removed an AFE entry
    "foreign",                    # a token was processed by the foreign-content rules
    "foreign-breakout",           # a break-out start tag popped out of foreign content
    "foreign-end-to-html",        # foreign "any other end tag" fell through to the insertion mode
    "foreign-self-closing",       # self-closing flag popped a foreign element
    "integration-point",          # dispatcher used the insertion mode because of an integration point
    "nul-in-integration-point",   # NUL char token handled by an insertion mode while ACN is foreign
    "template",                   # any template specific step
    "quirks-table-close-p-skip",  # <table> in quirks mode did not close an open p
    "frameset",                   # a frameset element was inserted
    "frameset-replaces-body",     # <frameset> in body removed the body element
    "after-body-ws",              # whitespace processed in "after body"
    "frameset-text-mixed",        # char run in frameset modes with both ws and non-ws
    "textarea-in-body-text",      # characters inserted in a textarea opened by "in body"
    "body-attrs-merged",          # <body> start tag merged attributes
    "html-attrs-merged",          # <html> start tag merged attributes
    "form-pointer-ignore",        # <form> ignored because the form pointer was set
    "form-end-remove-middle",     # </form> removed a form that was not the current node
    "implied-p",                  # </p> without p in button scope created a p
    "br-end-tag",                 # </br> treated as <br>
    "image-to-img",               # <image> turned into <img>
    "skip-lf",                    # a LF after pre/listing/textarea was dropped
    "table-text-foster",          # pending table characters contained non-whitespace
    "table-text-ws",              # pending table characters were whitespace only
    "select-in-table-breakout",   # "in select in table" popped the select
    "heading-nesting",            # heading start tag popped an open heading
    "nul-dropped",                # a NUL character token was ignored
    "nul-replaced",               # a NUL character token became U+FFFD (foreign content)
    "doctype",                    # a doctype token was appended in the initial mode
    "doctype-ignored",            # a doctype token was ignored
    "scope-barrier",              # an end tag was ignored because the element was not in scope
    "fragment",                   # parse_fragment was used
    # revision-ambiguous steps
    "ambiguous:menuitem",
    "ambiguous:foreign-breakout-fragment",
    "ambiguous:foreign-end-p-br",
    "ambiguous:xml-base",
    "ambiguous:fedropshadow",
    "ambiguous:svg-attr-obsolete",
    # steps where html5lib is known (SPEC_NOTES) to deviate
    "dev:special-extra",
    "dev:rb-rtc",
    "dev:aaa-step1",
    "dev:aaa-not-in-scope",
    "dev:aaa-inner-loop",
    "dev:noscript-fragment",
    "dev:form-context",
    "dev:command",
    "dev:dialog-close-p",
    "dev:textarea",
    "dev:isindex",
    "dev:any-other-end-tag-ns",
    "dev:after-body-ws",
    "dev:frameset-text",
    "dev:cdata-nul",
    "dev:implied-end-recursive",  # implied end tags popped > 900 elements (html5lib recursion)
    # deviations of html5lib found while validating the compat switches (not in SPEC_NOTES)
    "dev:colgroup-text",          # fragment "in column group": ws after non-ws in one char run
    "dev:pre-lf",                 # token after <pre>/<listing>/<textarea> was not a character
                                  # token (html5lib's drop-LF flag lingers), or the LF was
                                  # dropped while the (original) insertion mode was not "in body"
                                  # (html5lib only drops it in its in-body phase)
    "dev:table-in-table-fragment",  # <table> start tag handled by the "in table" rules in a
                                  # fragment parse (html5lib: closes through the current phase,
                                  # never reprocesses)
    "dev:reset-mode",             # reset the insertion mode: html5lib's table gives another mode
    "dev:cell-caption-ws",        # ws in "in cell"/"in caption" while the AFE needs reconstruction
    "dev:foster-flag-reset",      # li/dd/dt/option start tag under foster parenting that first
                                  # closes an element (html5lib then loses its foster flag)
    "dev:table-text-doctype",     # DOCTYPE token ends "in table text" (html5lib: stays, no flush)
    "dev:aaa-bookmark",           # AAA: the clone of the formatting element is inserted in the
                                  # AFE before an existing entry (html5lib: one entry later)
    "dev:button-in-table",        # <button> with a button in scope, handled through the
                                  # "in table" anything-else branch (html5lib drops the token)
    "dev:br-end-frameset-ok",     # </br> while frameset-ok is still "ok" (html5lib keeps it)
    "dev:table-text-current-node",  # ws in "in table" while the current node is not table-ish
                                  # and the AFE needs reconstruction
]

# compat switches (names of "dev:<name>" tags without the prefix) that reproduce html5lib's
# deviating behaviour at that step
COMPAT_SWITCHES = frozenset([
    "special-extra", "rb-rtc", "aaa-step1", "aaa-not-in-scope", "aaa-inner-loop",
    "noscript-fragment", "form-context", "command", "dialog-close-p", "textarea", "isindex",
    "any-other-end-tag-ns", "after-body-ws", "frameset-text",
    "colgroup-text", "pre-lf", "table-in-table-fragment", "reset-mode", "cell-caption-ws",
    "foster-flag-reset", "table-text-current-node", "br-end-frameset-ok",
    "button-in-table", "table-text-doctype", "cdata-nul", "aaa-bookmark",
])
# cdata-nul: html5lib's tokenizer turns NUL inside a CDATA section into U+FFFD; implemented by
#   a tokenizer subclass chosen in _Parser.__init__.
# implied-end-recursive: a RecursionError in html5lib, nothing to reproduce.
# template: html5lib has no template support at all (no switch by design).
UNIMPLEMENTED_COMPAT = frozenset(["implied-end-recursive"])

# --------------------------------------------------------------------------------------
# Sets and tables
# --------------------------------------------------------------------------------------
WS = "\t\n\x0c\r "   # the standard lists CR among the white space of every insertion mode; it reaches the tree builder through &#13;

_H = HTML_NS
HEADINGS = frozenset(["h1", "h2", "h3", "h4", "h5", "h6"])

SPECIAL_HTML = frozenset("""address applet area article aside base basefont bgsound blockquote
body br button caption center col colgroup dd details dir div dl dt embed fieldset figcaption
figure footer form frame frameset h1 h2 h3 h4 h5 h6 head header hgroup hr html iframe img input
keygen li link listing main marquee menu meta nav noembed noframes noscript object ol p param
plaintext pre script section select source style summary table tbody td template textarea tfoot
th thead title tr track ul wbr xmp""".split())
SPECIAL_MATHML = frozenset(["mi", "mo", "mn", "ms", "mtext", "annotation-xml"])
SPECIAL_SVG = frozenset(["foreignObject", "desc", "title"])
# names for which html5lib's special list differs (SPEC_NOTES 3.1)
_H5L_SPECIAL_LACKS_HTML = frozenset(["figcaption", "hgroup", "keygen", "main", "source",
                                     "summary", "template", "track"])
_H5L_SPECIAL_EXTRA_HTML = frozenset(["command", "image", "isindex"])

FORMATTING = frozenset("a b big code em font i nobr s small strike strong tt u".split())

# scope barriers as (ns, name)
SCOPE_DEFAULT = frozenset(
    [(_H, n) for n in ("applet", "caption", "html", "table", "td", "th", "marquee", "object",
                       "template")]
    + [(MATHML_NS, n) for n in ("mi", "mo", "mn", "ms", "mtext", "annotation-xml")]
    + [(SVG_NS, n) for n in ("foreignObject", "desc", "title")])
SCOPE_LIST_ITEM = SCOPE_DEFAULT | frozenset([(_H, "ol"), (_H, "ul")])
SCOPE_BUTTON = SCOPE_DEFAULT | frozenset([(_H, "button")])
SCOPE_TABLE = frozenset([(_H, "html"), (_H, "table"), (_H, "template")])

IMPLIED_END = frozenset("dd dt li optgroup option p rb rp rt rtc".split())
IMPLIED_END_THOROUGH = IMPLIED_END | frozenset(
    "caption colgroup tbody td tfoot th thead tr".split())

MATHML_TEXT_IP = frozenset(["mi", "mo", "mn", "ms", "mtext"])

FOREIGN_BREAKOUT = frozenset("""b big blockquote body br center code dd div dl dt em embed h1 h2
h3 h4 h5 h6 head hr i img li listing menu meta nobr ol p pre ruby s small span strong strike sub
sup table tt u ul var""".split())

SVG_TAG_NAMES = {n.lower(): n for n in """altGlyph altGlyphDef altGlyphItem animateColor
animateMotion animateTransform clipPath feBlend feColorMatrix feComponentTransfer feComposite
feConvolveMatrix feDiffuseLighting feDisplacementMap feDistantLight feDropShadow feFlood feFuncA
feFuncB feFuncG feFuncR feGaussianBlur feImage feMerge feMergeNode feMorphology feOffset
fePointLight feSpecularLighting feSpotLight feTile feTurbulence foreignObject glyphRef
linearGradient radialGradient textPath""".split()}

SVG_ATTRS = {n.lower(): n for n in """attributeName attributeType baseFrequency baseProfile
calcMode clipPathUnits diffuseConstant edgeMode filterUnits glyphRef gradientTransform
gradientUnits kernelMatrix kernelUnitLength keyPoints keySplines keyTimes lengthAdjust
limitingConeAngle markerHeight markerUnits markerWidth maskContentUnits maskUnits numOctaves
pathLength patternContentUnits patternTransform patternUnits pointsAtX pointsAtY pointsAtZ
preserveAlpha preserveAspectRatio primitiveUnits refX refY repeatCount repeatDur
requiredExtensions requiredFeatures specularConstant specularExponent spreadMethod startOffset
stdDeviation stitchTiles surfaceScale systemLanguage tableValues targetX targetY textLength
viewBox viewTarget xChannelSelector yChannelSelector zoomAndPan""".split()}
# attributes that older revisions of the table (and html5lib) adjusted, dropped before 2020
SVG_ATTRS_OBSOLETE = {n.lower(): n for n in
                      "contentScriptType contentStyleType externalResourcesRequired filterRes".split()}

FOREIGN_ATTRS = {
    "xlink:actuate": (XLINK_NS, "actuate"),
    "xlink:arcrole": (XLINK_NS, "arcrole"),
    "xlink:href": (XLINK_NS, "href"),
    "xlink:role": (XLINK_NS, "role"),
    "xlink:show": (XLINK_NS, "show"),
    "xlink:title": (XLINK_NS, "title"),
    "xlink:type": (XLINK_NS, "type"),
    "xml:lang": (XML_NS, "lang"),
    "xml:space": (XML_NS, "space"),
    "xmlns": (XMLNS_NS, "xmlns"),
    "xmlns:xlink": (XMLNS_NS, "xlink"),
}

QUIRKS_PUBLIC_PREFIXES = tuple(s.lower() for s in [
    "+//Silmaril//dtd html Pro v0r11 19970101//",
    "-//AS//DTD HTML 3.0 asWedit + extensions//",
    "-//AdvaSoft Ltd//DTD HTML 3.0 asWedit + extensions//",
    "-//IETF//DTD HTML 2.0 Level 1//",
    "-//IETF//DTD HTML 2.0 Level 2//",
    "-//IETF//DTD HTML 2.0 Strict Level 1//",
    "-//IETF//DTD HTML 2.0 Strict Level 2//",
    "-//IETF//DTD HTML 2.0 Strict//",
    "-//IETF//DTD HTML 2.0//",
    "-//IETF//DTD HTML 2.1E//",
    "-//IETF//DTD HTML 3.0//",
    "-//IETF//DTD HTML 3.2 Final//",
    "-//IETF//DTD HTML 3.2//",
    "-//IETF//DTD HTML 3//",
    "-//IETF//DTD HTML Level 0//",
    "-//IETF//DTD HTML Level 1//",
    "-//IETF//DTD HTML Level 2//",
    "-//IETF//DTD HTML Level 3//",
    "-//IETF//DTD HTML Strict Level 0//",
    "-//IETF//DTD HTML Strict Level 1//",
    "-//IETF//DTD HTML Strict Level 2//",
    "-//IETF//DTD HTML Strict Level 3//",
    "-//IETF//DTD HTML Strict//",
    "-//IETF//DTD HTML//",
    "-//Metrius//DTD Metrius Presentational//",
    "-//Microsoft//DTD Internet Explorer 2.0 HTML Strict//",
    "-//Microsoft//DTD Internet Explorer 2.0 HTML//",
    "-//Microsoft//DTD Internet Explorer 2.0 Tables//",
    "-//Microsoft//DTD Internet Explorer 3.0 HTML Strict//",
    "-//Microsoft//DTD Internet Explorer 3.0 HTML//",
    "-//Microsoft//DTD Internet Explorer 3.0 Tables//",
    "-//Netscape Comm. Corp.//DTD HTML//",
    "-//Netscape Comm. Corp.//DTD Strict HTML//",
    "-//O'Reilly and Associates//DTD HTML 2.0//",
    "-//O'Reilly and Associates//DTD HTML Extended 1.0//",
    "-//O'Reilly and Associates//DTD HTML Extended Relaxed 1.0//",
    "-//SQ//DTD HTML 2.0 HoTMetaL + extensions//",
    "-//SoftQuad Software//DTD HoTMetaL PRO 6.0::19990601::extensions to HTML 4.0//",
    "-//SoftQuad//DTD HoTMetaL PRO 4.0::19971010::extensions to HTML 4.0//",
    "-//Spyglass//DTD HTML 2.0 Extended//",
    "-//Sun Microsystems Corp.//DTD HotJava HTML//",
    "-//Sun Microsystems Corp.//DTD HotJava Strict HTML//",
    "-//W3C//DTD HTML 3 1995-03-24//",
    "-//W3C//DTD HTML 3.2 Draft//",
    "-//W3C//DTD HTML 3.2 Final//",
    "-//W3C//DTD HTML 3.2//",
    "-//W3C//DTD HTML 3.2S Draft//",
    "-//W3C//DTD HTML 4.0 Frameset//",
    "-//W3C//DTD HTML 4.0 Transitional//",
    "-//W3C//DTD HTML Experimental 19960712//",
    "-//W3C//DTD HTML Experimental 970421//",
    "-//W3C//DTD W3 HTML//",
    "-//W3O//DTD W3 HTML 3.0//",
    "-//WebTechs//DTD Mozilla HTML 2.0//",
    "-//WebTechs//DTD Mozilla HTML//",
])
assert len(QUIRKS_PUBLIC_PREFIXES) == 55
QUIRKS_PUBLIC_EXACT = frozenset(s.lower() for s in [
    "-//W3O//DTD W3 HTML Strict 3.0//EN//",
    "-/W3C/DTD HTML 4.0 Transitional/EN",
    "HTML",
])
QUIRKS_SYSTEM_EXACT = "http://www.ibm.com/data/dtd/v11/ibmxhtml1-transitional.dtd"
HTML401_PREFIXES = ("-//w3c//dtd html 4.01 frameset//", "-//w3c//dtd html 4.01 transitional//")
LIMITED_QUIRKS_PREFIXES = ("-//w3c//dtd xhtml 1.0 frameset//",
                           "-//w3c//dtd xhtml 1.0 transitional//")


def _ascii_lower(s):
    # ASCII-only lower-casing (str.lower would also fold e.g. U+212A KELVIN SIGN)
    if s.isascii():
        return s.lower()
    return "".join(chr(ord(c) + 32) if "A" <= c <= "Z" else c for c in s)


# --------------------------------------------------------------------------------------
# Tree
# --------------------------------------------------------------------------------------
class Node(object):
    __slots__ = ("kind", "parent", "children", "ns", "name", "attrs", "data", "public",
                 "system", "template_contents")

    def __init__(self, kind, name=None, ns=None, attrs=None, data=None, public=None,
                 system=None):
        self.kind = kind
        self.parent = None
        self.children = []
        self.ns = ns
        self.name = name
        self.attrs = attrs if attrs is not None else []
        self.data = data
        self.public = public
        self.system = system
        self.template_contents = None

    def __repr__(self):
        if self.kind == "element":
            return "<Node element %s %s>" % (self.ns, self.name)
        if self.kind in ("text", "comment"):
            return "<Node %s %r>" % (self.kind, self.data)
        return "<Node %s>" % self.kind

    # -- mutation helpers (no recursion) --
    def append(self, child):
        if child.parent is not None:
            child.parent.remove(child)
        child.parent = self
        self.children.append(child)

    def insert_before(self, child, ref):
        if ref is None:
            self.append(child)
            return
        if child.parent is not None:
            child.parent.remove(child)
        idx = _index_identity(self.children, ref)
        child.parent = self
        self.children.insert(idx, child)

    def remove(self, child):
        idx = _index_identity(self.children, child)
        del self.children[idx]
        child.parent = None


def _index_identity(lst, item):
    # search from the end first: the common case is the last child
    n = len(lst)
    if n and lst[n - 1] is item:
        return n - 1
    for i in range(n):
        if lst[i] is item:
            return i
    raise ValueError("node not found")


class Result(object):
    __slots__ = ("root", "quirks_mode", "trace", "modes", "meta_log")

    def __init__(self, root, quirks_mode, trace, modes, meta_log=None):
        self.meta_log = meta_log or []
        self.root = root
        self.quirks_mode = quirks_mode
        self.trace = trace
        self.modes = modes


MARKER = None  # the marker entry in the list of active formatting elements
REPROCESS = "reprocess"


def _load_tokenizer():
    try:
        from . import tokenizer as t  # package-relative
    except ImportError:               # pragma: no cover - script usage
        import importlib
        t = importlib.import_module("vf.ref.tokenizer")
    return t


TABLE_FOSTER_TARGETS = frozenset(["table", "tbody", "tfoot", "thead", "tr"])
FRAGMENT_RCDATA = frozenset(["title", "textarea"])
FRAGMENT_RAWTEXT = frozenset(["style", "xmp", "iframe", "noembed", "noframes"])
TABLE_MODES_FOR_SELECT = frozenset(["in table", "in caption", "in table body", "in row",
                                    "in cell"])
FRAMESET_MODES = frozenset(["in frameset", "after frameset", "after after frameset"])


class _Stack(list):
    """stack of open elements; additionally counts the open HTML elements by name so that the
    scope tests can answer 'not on the stack at all' without walking (keeps deep inputs linear)"""
    __slots__ = ("counts",)

    def __init__(self):
        list.__init__(self)
        self.counts = {}

    def _inc(self, n):
        if n.ns == HTML_NS:
            self.counts[n.name] = self.counts.get(n.name, 0) + 1

    def _dec(self, n):
        if n.ns == HTML_NS:
            self.counts[n.name] -= 1

    def append(self, n):
        self._inc(n)
        list.append(self, n)

    def pop(self):
        n = list.pop(self)
        self._dec(n)
        return n

    def insert(self, i, n):
        self._inc(n)
        list.insert(self, i, n)

    def __delitem__(self, key):
        if isinstance(key, slice):
            for n in self[key]:
                self._dec(n)
        else:
            self._dec(self[key])
        list.__delitem__(self, key)

    def __setitem__(self, i, n):
        self._dec(self[i])
        self._inc(n)
        list.__setitem__(self, i, n)

    def has(self, names):
        c = self.counts
        if isinstance(names, str):
            return c.get(names, 0) > 0
        for x in names:
            if c.get(x, 0) > 0:
                return True
        return False


class _Parser(object):
    def __init__(self, text, scripting=False, compat=frozenset(), context=None):
        t = _load_tokenizer()
        self.compat = frozenset(compat)
        self.scripting = bool(scripting)
        self.trace = set()
        self.meta_log = []
        self.modes = set()
        self.document = Node("document")
        self.quirks = "no-quirks"
        self.stack = _Stack()        # stack of open elements (index 0 = topmost = html)
        self.afe = []                # list of active formatting elements; MARKER = None
        self.head = None             # head element pointer
        self.form = None             # form element pointer
        self.frameset_ok = True
        self.foster = False          # foster parenting flag
        self.template_modes = []
        self.original_mode = None
        self.pending_table_chars = []
        self.skip_lf = False
        self.h5l_drop_lf = False     # compat "pre-lf": html5lib's lingering drop-newline flag
        self.lf_element_pending = False
        self.stopped = False
        self.context = None          # fragment context element
        self.textarea_from_body = None
        self.run_has_ws = False      # bookkeeping for frameset-text tags
        self.run_has_nonws = False
        self.mode = None
        text = t.normalize_newlines(text)

        initial_state = "data"
        if context is not None:
            self.trace.add("fragment")
            ctx = Node("element", name=context, ns=HTML_NS)
            self.context = ctx
            # 13.4 step 4: tokenizer state from the context element
            if context in FRAGMENT_RCDATA:
                initial_state = "rcdata"
            elif context in FRAGMENT_RAWTEXT:
                initial_state = "rawtext"
            elif context == "script":
                initial_state = "script_data"
            elif context == "noscript":
                if self.scripting:
                    initial_state = "rawtext"
                else:
                    self.trace.add("dev:noscript-fragment")
                    if "noscript-fragment" in self.compat:
                        initial_state = "rawtext"
            elif context == "plaintext":
                initial_state = "plaintext"
        tok_cls = t.RefTokenizer
        if "cdata-nul" in self.compat:
            # html5lib replaces NUL by U+FFFD inside CDATA sections already in the tokenizer
            class tok_cls(t.RefTokenizer):
                def s_cdata_section(self):
                    if self._peek() == "\x00":
                        self._consume()
                        self._emit_char("\ufffd")
                        return
                    t.RefTokenizer.s_cdata_section(self)
        self.tok = tok_cls(text, initial_state=initial_state, last_start_tag=None,
                           cdata_allowed=self._cdata_allowed)
        # html5lib's character-token granularity (needed by the frameset-text / colgroup-text switches)
        self.tok.charref_boundaries = True
        if context is not None:
            # steps 5-: root html element
            root = Node("element", name="html", ns=HTML_NS)
            self.document.append(root)
            self.stack.append(root)
            if context == "template":
                self.template_modes.append("in template")
                self.trace.add("template")
            self.reset_insertion_mode()
            if context == "form":
                self.trace.add("dev:form-context")
                if "form-context" not in self.compat:
                    self.form = ctx
        else:
            self.set_mode("initial")

    # ------------------------------------------------------------------ small helpers
    def tag(self, t):
        self.trace.add(t)

    def err(self):
        self.trace.add("tree-error")

    def set_mode(self, mode):
        self.mode = mode
        self.modes.add(mode)
        if mode == "in template":
            self.trace.add("template")

    def _cdata_allowed(self):
        acn = self.adjusted_current_node()
        return acn is not None and acn.ns != HTML_NS

    def current_node(self):
        return self.stack[-1]

    def adjusted_current_node(self):
        if not self.stack:
            return None
        if self.context is not None and len(self.stack) == 1:
            return self.context
        return self.stack[-1]

    def is_html(self, node, name):
        return node.ns == HTML_NS and node.name == name

    def is_special(self, node):
        ns = node.ns
        name = node.name
        if ns == HTML_NS:
            r = name in SPECIAL_HTML
            if r:
                if name in _H5L_SPECIAL_LACKS_HTML:
                    self.trace.add("dev:special-extra")
                    if "special-extra" in self.compat:
                        return False
            elif name in _H5L_SPECIAL_EXTRA_HTML:
                self.trace.add("dev:special-extra")
                if "special-extra" in self.compat:
                    return True
            return r
        if ns == MATHML_NS:
            r = name in SPECIAL_MATHML
        elif ns == SVG_NS:
            r = name in SPECIAL_SVG
        else:
            r = False
        if r and (ns, name) in self._compat_special_foreign_lacks:
            self.trace.add("dev:special-extra")
            if "special-extra" in self.compat:
                return False
        return r

    # (ns, name) pairs of foreign special elements html5lib lacks; see phase 2 below
    _compat_special_foreign_lacks = frozenset(
        [(MATHML_NS, n) for n in SPECIAL_MATHML] + [(SVG_NS, "desc"), (SVG_NS, "title")])

    def template_on_stack(self):
        return self.stack.has("template")

    # ------------------------------------------------------------------ scope
    def in_scope(self, names, barriers=SCOPE_DEFAULT):
        """has an HTML element whose name is in `names` (a str or a set) in the given scope"""
        single = isinstance(names, str)
        stack = self.stack
        if not stack.has(names):
            return False
        i = len(stack) - 1
        while i >= 0:
            node = stack[i]
            if node.ns == HTML_NS and (node.name == names if single else node.name in names):
                return True
            if (node.ns, node.name) in barriers:
                return False
            i -= 1
        return False  # not reached: html is always on the stack

    def node_in_scope(self, target, barriers=SCOPE_DEFAULT):
        stack = self.stack
        i = len(stack) - 1
        while i >= 0:
            node = stack[i]
            if node is target:
                return True
            if (node.ns, node.name) in barriers:
                return False
            i -= 1
        return False

    def in_button_scope(self, names):
        return self.in_scope(names, SCOPE_BUTTON)

    def in_list_item_scope(self, names):
        return self.in_scope(names, SCOPE_LIST_ITEM)

    def in_table_scope(self, names):
        return self.in_scope(names, SCOPE_TABLE)

    def in_select_scope(self, name):
        stack = self.stack
        i = len(stack) - 1
        while i >= 0:
            node = stack[i]
            if node.ns == HTML_NS:
                if node.name == name:
                    return True
                if node.name not in ("optgroup", "option"):
                    return False
            else:
                return False
            i -= 1
        return False

    # ------------------------------------------------------------------ stack
    def pop(self):
        return self.stack.pop()

    def pop_until(self, names):
        """pop until an HTML element with one of the names has been popped"""
        single = isinstance(names, str)
        stack = self.stack
        while stack:
            node = stack.pop()
            if node.ns == HTML_NS and (node.name == names if single else node.name in names):
                return node
        return None

    def pop_until_node(self, target):
        stack = self.stack
        while stack:
            node = stack.pop()
            if node is target:
                return

    def remove_from_stack(self, node):
        stack = self.stack
        i = len(stack) - 1
        while i >= 0:
            if stack[i] is node:
                del stack[i]
                return True
            i -= 1
        return False

    def index_in_stack(self, node):
        stack = self.stack
        i = len(stack) - 1
        while i >= 0:
            if stack[i] is node:
                return i
            i -= 1
        return -1

    def generate_implied_end_tags(self, except_for=None, thorough=False):
        names = IMPLIED_END_THOROUGH if thorough else IMPLIED_END
        stack = self.stack
        count = 0
        while stack:
            node = stack[-1]
            if node.ns != HTML_NS or node.name not in names or node.name == except_for:
                break
            if node.name in ("rb", "rtc"):
                self.trace.add("dev:rb-rtc")
                if "rb-rtc" in self.compat and not thorough:
                    break
            stack.pop()
            count += 1
        if count > 900:
            self.trace.add("dev:implied-end-recursive")

    def close_p(self):
        self.generate_implied_end_tags(except_for="p")
        if not self.is_html(self.stack[-1], "p"):
            self.err()
        self.pop_until("p")

    def clear_stack_to(self, names):
        stack = self.stack
        while True:
            node = stack[-1]
            if node.ns == HTML_NS and node.name in names:
                if node.name == "template":
                    self.trace.add("template")
                return
            stack.pop()

    # ------------------------------------------------------------------ insertion
    def appropriate_place(self, override=None):
        """returns (parent, before) -- before None means 'after the last child'"""
        target = override if override is not None else self.stack[-1]
        if self.foster and target.ns == HTML_NS and target.name in TABLE_FOSTER_TARGETS:
            self.trace.add("foster")
            stack = self.stack
            last_template = -1
            last_table = -1
            i = len(stack) - 1
            while i >= 0:
                n = stack[i]
                if n.ns == HTML_NS:
                    if n.name == "template" and last_template < 0:
                        last_template = i
                    elif n.name == "table" and last_table < 0:
                        last_table = i
                    if last_template >= 0 and last_table >= 0:
                        break
                i -= 1
            if last_template >= 0 and (last_table < 0 or last_template > last_table):
                self.trace.add("template")
                return (stack[last_template].template_contents, None)
            if last_table < 0:
                parent, before = stack[0], None       # fragment case
            else:
                table = stack[last_table]
                if table.parent is not None:
                    parent, before = table.parent, table
                else:
                    parent, before = stack[last_table - 1], None
        else:
            parent, before = target, None
        if parent.kind == "element" and parent.ns == HTML_NS and parent.name == "template":
            # inside a template element -> inside its template contents, after its last child
            self.trace.add("template")
            return (parent.template_contents, None)
        return (parent, before)

    def create_element(self, name, attrs, ns=HTML_NS):
        """create an element for a token; attrs already in (ns, local, value) form"""
        el = Node("element", name=name, ns=ns, attrs=list(attrs))
        if ns == HTML_NS and name == "template":
            el.template_contents = Node("fragment")
        return el

    def clone_element(self, node):
        # "create an element for the token for which the element was created"
        return self.create_element(node.name, node.attrs, node.ns)

    def insert_html_element(self, name, token_attrs=()):
        attrs = [(None, n, v) for (n, v) in token_attrs]
        return self.insert_element(name, attrs, HTML_NS)

    def insert_element(self, name, attrs, ns):
        parent, before = self.appropriate_place()
        el = self.create_element(name, attrs, ns)
        parent.insert_before(el, before)
        self.stack.append(el)
        return el

    def insert_comment(self, data, parent=None):
        node = Node("comment", data=data)
        if parent is not None:
            parent.append(node)
            return
        p, before = self.appropriate_place()
        p.insert_before(node, before)

    def insert_text(self, data):
        parent, before = self.appropriate_place()
        if parent.kind == "document":
            return
        children = parent.children
        prev = None
        if before is None:
            if children:
                prev = children[-1]
        else:
            idx = _index_identity(children, before)
            if idx > 0:
                prev = children[idx - 1]
        if prev is not None and prev.kind == "text":
            prev.data += data
        else:
            node = Node("text", data=data)
            parent.insert_before(node, before)
        if self.textarea_from_body is not None and self.stack[-1] is self.textarea_from_body:
            self.trace.add("textarea-in-body-text")

    def add_missing_attrs(self, element, token_attrs):
        have = set((a[0], a[1]) for a in element.attrs)
        changed = False
        for (n, v) in token_attrs:
            if (None, n) not in have:
                element.attrs.append((None, n, v))
                have.add((None, n))
                changed = True
        return changed

    # ------------------------------------------------------------------ AFE
    def push_afe(self, element):
        # Noah's Ark clause
        afe = self.afe
        key = frozenset(element.attrs)
        same = []
        i = len(afe) - 1
        while i >= 0:
            e = afe[i]
            if e is MARKER:
                break
            if (e.name == element.name and e.ns == element.ns
                    and len(e.attrs) == len(element.attrs) and frozenset(e.attrs) == key):
                same.append(i)
            i -= 1
        if len(same) >= 3:
            self.trace.add("noahs-ark")
            del afe[same[-1]]   # the earliest such element
        afe.append(element)

    def push_marker(self):
        self.afe.append(MARKER)

    def clear_afe_to_marker(self):
        afe = self.afe
        while afe:
            e = afe.pop()
            if e is MARKER:
                break

    def index_in_afe(self, node):
        afe = self.afe
        i = len(afe) - 1
        while i >= 0:
            if afe[i] is node:
                return i
            i -= 1
        return -1

    def afe_needs_reconstruct(self):
        afe = self.afe
        if not afe:
            return False
        e = afe[-1]
        if e is MARKER or self.index_in_stack(e) >= 0:
            return False
        return True

    def reconstruct_afe(self):
        afe = self.afe
        # 1-2
        if not afe:
            return
        entry = afe[-1]
        if entry is MARKER or self.index_in_stack(entry) >= 0:
            return
        # 3-6 rewind
        i = len(afe) - 1
        on_stack = set(id(n) for n in self.stack)
        while True:
            if i == 0:
                break          # no earlier entries: jump to "create"
            i -= 1
            entry = afe[i]
            if entry is MARKER or id(entry) in on_stack:
                i += 1         # advance
                break
        # 7-10 advance / create
        self.trace.add("reconstruct")
        while True:
            entry = afe[i]
            new = self.clone_element(entry)
            parent, before = self.appropriate_place()
            parent.insert_before(new, before)
            self.stack.append(new)
            afe[i] = new
            if i == len(afe) - 1:
                break
            i += 1

    # ------------------------------------------------------------------ reset mode
    def reset_insertion_mode(self):
        self.reset_insertion_mode_strict()
        strict = self.mode
        h5l = self.h5l_reset_mode()
        if h5l != strict:
            self.trace.add("dev:reset-mode")
            if "reset-mode" in self.compat:
                self.set_mode(h5l)

    H5L_RESET = {"select": "in select", "td": "in cell", "th": "in cell", "tr": "in row",
                 "tbody": "in table body", "thead": "in table body", "tfoot": "in table body",
                 "caption": "in caption", "colgroup": "in column group", "table": "in table",
                 "head": "in body", "body": "in body", "frameset": "in frameset",
                 "html": "before head"}

    def h5l_reset_mode(self):
        """html5lib's HTMLParser.resetInsertionMode (names only; foreign nodes skipped)"""
        stack = self.stack
        i = len(stack) - 1
        while i >= 0:
            node = stack[i]
            name = node.name
            last = False
            if i == 0:
                last = True
                if self.context is not None:
                    name = self.context.name
            if not last and node.ns != HTML_NS:
                i -= 1
                continue
            if name in self.H5L_RESET:
                return self.H5L_RESET[name]
            if last:
                return "in body"
            i -= 1
        return "in body"

    def reset_insertion_mode_strict(self):
        stack = self.stack
        i = len(stack) - 1
        last = False
        while True:
            node = stack[i]
            if i == 0:
                last = True
                if self.context is not None:
                    node = self.context
            if node.ns == HTML_NS:
                name = node.name
                if name == "select":
                    mode = "in select"
                    if not last:
                        j = i
                        while j > 0:
                            j -= 1
                            anc = stack[j]
                            if anc.ns == HTML_NS:
                                if anc.name == "template":
                                    break
                                if anc.name == "table":
                                    mode = "in select in table"
                                    break
                    self.set_mode(mode)
                    return
                if name in ("td", "th") and not last:
                    self.set_mode("in cell")
                    return
                if name == "tr":
                    self.set_mode("in row")
                    return
                if name in ("tbody", "thead", "tfoot"):
                    self.set_mode("in table body")
                    return
                if name == "caption":
                    self.set_mode("in caption")
                    return
                if name == "colgroup":
                    self.set_mode("in column group")
                    return
                if name == "table":
                    self.set_mode("in table")
                    return
                if name == "template":
                    self.trace.add("template")
                    self.set_mode(self.template_modes[-1])
                    return
                if name == "head" and not last:
                    self.set_mode("in head")
                    return
                if name == "body":
                    self.set_mode("in body")
                    return
                if name == "frameset":
                    self.set_mode("in frameset")
                    return
                if name == "html":
                    if self.head is None:
                        self.set_mode("before head")
                    else:
                        self.set_mode("after head")
                    return
            if last:
                self.set_mode("in body")
                return
            i -= 1

    # ------------------------------------------------------------------ misc algorithms
    def generic_text(self, token, state):
        self.insert_html_element(token[1], token[2])
        self.tok.state = state
        self.original_mode = self.mode
        self.set_mode("text")

    def stop_parsing(self):
        del self.stack[:]
        self.stopped = True

    # ------------------------------------------------------------------ main loop
    def run(self):
        tok = self.tok
        while not self.stopped:
            token = tok.next_token()
            kind = token[0]
            if kind == "chars":
                data = token[1]
                self.run_has_ws = False       # a new character token (see charref_boundaries)
                self.run_has_nonws = False
                self.lf_element_pending = False
                if self.skip_lf:
                    self.skip_lf = False
                    if data[:1] == "\n":
                        self.trace.add("skip-lf")
                        data = data[1:]
                        eff = self.original_mode if self.mode == "text" else self.mode
                        if eff != "in body":
                            # html5lib only drops the LF in its "in body" phase
                            self.trace.add("dev:pre-lf")
                    elif data[:1] not in WS:
                        # html5lib's flag is only consumed by a whitespace token: after a NUL or
                        # other text it lingers and may drop a later LF
                        self.trace.add("dev:pre-lf")
                if not data:
                    continue
                # split into runs of identically treated characters: ws / NUL / other
                n = len(data)
                i = 0
                while i < n and not self.stopped:
                    c = data[i]
                    j = i + 1
                    if c == "\x00":
                        cls = "nul"
                        while j < n and data[j] == "\x00":
                            j += 1
                    elif c in WS:
                        cls = "ws"
                        while j < n and data[j] in WS:
                            j += 1
                    else:
                        cls = "text"
                        while j < n and data[j] != "\x00" and data[j] not in WS:
                            j += 1
                    self.process(("chars", data[i:j], cls))
                    # bookkeeping of html5lib's token granularity: its tokenizer emits leading
                    # whitespace as a separate token, then everything up to "<", "&" or NUL
                    if cls == "text":
                        self.run_has_nonws = True
                    elif cls == "nul":
                        self.run_has_nonws = False
                        self.run_has_ws = False
                    else:
                        self.run_has_ws = True
                    i = j
            else:
                if self.skip_lf or (self.h5l_drop_lf and self.lf_element_pending):
                    self.trace.add("dev:pre-lf")
                self.lf_element_pending = False
                self.skip_lf = False
                self.run_has_ws = False
                self.run_has_nonws = False
                self.process(token)
                if kind == "eof":
                    break
        # EOF processed: "stop parsing" pops everything
        del self.stack[:]

    def use_insertion_mode(self, token):
        """the tree construction dispatcher"""
        if not self.stack:
            return True
        acn = self.adjusted_current_node()
        if acn.ns == HTML_NS:
            return True
        kind = token[0]
        if acn.ns == MATHML_NS and acn.name in MATHML_TEXT_IP:
            if kind == "start" and token[1] not in ("mglyph", "malignmark"):
                self.trace.add("integration-point")
                return True
            if kind == "chars":
                self.trace.add("integration-point")
                return True
        if (acn.ns == MATHML_NS and acn.name == "annotation-xml" and kind == "start"
                and token[1] == "svg"):
            self.trace.add("integration-point")
            return True
        if (kind == "start" or kind == "chars") and self.is_html_integration_point(acn):
            self.trace.add("integration-point")
            return True
        if kind == "eof":
            return True
        return False

    def is_html_integration_point(self, node):
        if node.ns == SVG_NS:
            return node.name in ("foreignObject", "desc", "title")
        if node.ns == MATHML_NS and node.name == "annotation-xml":
            for (ans, an, av) in node.attrs:
                if ans is None and an == "encoding":
                    v = _ascii_lower(av)
                    return v == "text/html" or v == "application/xhtml+xml"
        return False

    VOID_ACK = frozenset("""area br embed img keygen wbr input param source track hr base basefont
        bgsound link meta col frame image svg math""".split())

    def process(self, token):
        if token[0] == "start" and token[3] and token[1] not in self.VOID_ACK:
            # self-closing flag that no insertion-mode rule acknowledges (foreign content does)
            if self.use_insertion_mode(token):
                self.err()
        while True:
            if self.use_insertion_mode(token):
                if token[0] == "chars" and token[2] == "nul" and self.stack:
                    acn = self.adjusted_current_node()
                    if acn.ns != HTML_NS:
                        self.trace.add("nul-in-integration-point")
                        self.trace.add("dev:cdata-nul")
                r = self.MODES[self.mode](self, token)
            else:
                r = self.foreign_content(token)
            if r is not REPROCESS or self.stopped:
                return

    # ------------------------------------------------------------------ adoption agency
    def adoption_agency(self, subject):
        stack = self.stack
        afe = self.afe
        # step 2 (numbering of the 2020 text: 1 subject, 2 early exit)
        cur = stack[-1]
        if cur.ns == HTML_NS and cur.name == subject and self.index_in_afe(cur) < 0:
            self.trace.add("aaa:step-current-node")
            self.trace.add("dev:aaa-step1")
            if "aaa-step1" not in self.compat:
                stack.pop()
                return
        outer = 0
        while True:
            if outer >= 8:
                self.trace.add("aaa:outer-limit")
                return
            outer += 1
            if outer == 2:
                self.trace.add("aaa:outer>1")
            # formatting element
            fe = None
            i = len(afe) - 1
            while i >= 0:
                e = afe[i]
                if e is MARKER:
                    break
                if e.ns == HTML_NS and e.name == subject:
                    fe = e
                    break
                i -= 1
            if fe is None:
                self.trace.add("aaa:no-formatting-element")
                self.any_other_end_tag(subject)
                return
            fe_stack_idx = self.index_in_stack(fe)
            if fe_stack_idx < 0:
                self.err()
                self.trace.add("aaa:not-in-stack")
                del afe[self.index_in_afe(fe)]
                return
            if not self.node_in_scope(fe):
                self.err()
                self.trace.add("aaa:not-in-scope")
                self.trace.add("dev:aaa-not-in-scope")
                if "aaa-not-in-scope" in self.compat:
                    self.any_other_end_tag(subject)
                return
            if fe is not stack[-1]:
                self.err()
            # furthest block
            fb = None
            fb_idx = -1
            k = fe_stack_idx + 1
            while k < len(stack):
                if self.is_special(stack[k]):
                    fb = stack[k]
                    fb_idx = k
                    break
                k += 1
            if fb is None:
                self.trace.add("aaa:no-furthest-block")
                del stack[fe_stack_idx:]
                del afe[self.index_in_afe(fe)]
                return
            self.trace.add("aaa:furthest-block")
            common_ancestor = stack[fe_stack_idx - 1]
            bookmark = self.index_in_afe(fe)
            node_idx = fb_idx
            last_node = fb
            inner = 0
            while True:
                inner += 1
                node_idx -= 1
                node = stack[node_idx]
                if node is fe:
                    break
                node_afe_idx = self.index_in_afe(node)
                if inner > 3:
                    self.trace.add("aaa:inner>3")
                    self.trace.add("dev:aaa-inner-loop")
                    if "aaa-inner-loop" in self.compat:
                        # html5lib: the loop simply ends after three iterations
                        break
                    if node_afe_idx >= 0:
                        del afe[node_afe_idx]
                        if node_afe_idx < bookmark:
                            bookmark -= 1
                        node_afe_idx = -1
                if node_afe_idx < 0:
                    del stack[node_idx]
                    continue
                new = self.clone_element(node)
                afe[node_afe_idx] = new
                stack[node_idx] = new
                node = new
                if last_node is fb:
                    bookmark = node_afe_idx + 1
                node.append(last_node)
                last_node = node
            # step 15: insert last node at the appropriate place, override = common ancestor
            parent, before = self.appropriate_place(common_ancestor)
            parent.insert_before(last_node, before)
            # 16-18
            new = self.clone_element(fe)
            kids = fb.children
            fb.children = []
            for c in kids:
                c.parent = new
            new.children = kids
            fb.append(new)
            # 19
            fe_afe_idx = self.index_in_afe(fe)
            del afe[fe_afe_idx]
            if fe_afe_idx < bookmark:
                if bookmark - 1 < len(afe):
                    # html5lib computes the bookmark as a list index before it removes the
                    # formatting element and does not correct it: the clone lands one entry
                    # too far down the list (visible only when an entry follows)
                    self.trace.add("dev:aaa-bookmark")
                    if "aaa-bookmark" not in self.compat:
                        bookmark -= 1
                else:
                    bookmark -= 1
            afe.insert(bookmark, new)
            # 20
            self.remove_from_stack(fe)
            stack.insert(self.index_in_stack(fb) + 1, new)

    def any_other_end_tag(self, name):
        """'any other end tag' of the "in body" insertion mode"""
        stack = self.stack
        i = len(stack) - 1
        compat_ns = "any-other-end-tag-ns" in self.compat
        while i >= 0:
            node = stack[i]
            if node.name == name and node.ns != HTML_NS:
                self.trace.add("dev:any-other-end-tag-ns")
            if node.name == name and (node.ns == HTML_NS or compat_ns):
                self.generate_implied_end_tags(except_for=name)
                if node is not stack[-1]:
                    self.err()
                # pop up to and including node (it may already be gone only if implied
                # end tags popped it, which the except_for prevents)
                idx = self.index_in_stack(node)
                if idx >= 0:
                    del stack[idx:]
                return
            if self.is_special(node):
                self.err()
                return
            i -= 1

    # ================================================================== insertion modes
    # Token shapes: ("doctype", name, public, system, force_quirks) ("start", name, attrs, sc)
    # ("end", name) ("comment", data) ("chars", data, cls) ("eof",)

    # ------------------------------------------------------------------ initial
    def m_initial(self, token):
        kind = token[0]
        if kind == "chars" and token[2] == "ws":
            return None
        if kind == "comment":
            self.insert_comment(token[1], self.document)
            return None
        if kind == "doctype":
            name, public, system, force_quirks = token[1], token[2], token[3], token[4]
            if (name != "html" or public is not None
                    or (system is not None and system != "about:legacy-compat")):
                self.err()
            node = Node("doctype", name=name if name is not None else "",
                        public=public if public is not None else "",
                        system=system if system is not None else "")
            self.document.append(node)
            self.trace.add("doctype")
            self.quirks = self.doctype_quirks(name, public, system, force_quirks)
            self.set_mode("before html")
            return None
        # anything else
        self.err()
        self.quirks = "quirks"
        self.set_mode("before html")
        return REPROCESS

    @staticmethod
    def doctype_quirks(name, public, system, force_quirks):
        pub = _ascii_lower(public) if public is not None else None
        sysid = _ascii_lower(system) if system is not None else None
        if force_quirks or name != "html":
            return "quirks"
        if pub is not None:
            if pub in QUIRKS_PUBLIC_EXACT:
                return "quirks"
            if pub.startswith(QUIRKS_PUBLIC_PREFIXES):
                return "quirks"
        if sysid is not None and sysid == QUIRKS_SYSTEM_EXACT:
            return "quirks"
        if pub is not None and pub.startswith(HTML401_PREFIXES):
            if sysid is None:
                return "quirks"
            return "limited-quirks"
        if pub is not None and pub.startswith(LIMITED_QUIRKS_PREFIXES):
            return "limited-quirks"
        return "no-quirks"

    # ------------------------------------------------------------------ before html
    def m_before_html(self, token):
        kind = token[0]
        if kind == "doctype":
            self.err()
            self.trace.add("doctype-ignored")
            return None
        if kind == "comment":
            self.insert_comment(token[1], self.document)
            return None
        if kind == "chars" and token[2] == "ws":
            return None
        if kind == "start" and token[1] == "html":
            el = self.create_element("html", [(None, n, v) for (n, v) in token[2]])
            self.document.append(el)
            self.stack.append(el)
            self.set_mode("before head")
            return None
        if kind == "end" and token[1] not in ("head", "body", "html", "br"):
            self.err()
            return None
        el = self.create_element("html", [])
        self.document.append(el)
        self.stack.append(el)
        self.set_mode("before head")
        return REPROCESS

    # ------------------------------------------------------------------ before head
    def m_before_head(self, token):
        kind = token[0]
        if kind == "chars" and token[2] == "ws":
            return None
        if kind == "comment":
            self.insert_comment(token[1])
            return None
        if kind == "doctype":
            self.err()
            self.trace.add("doctype-ignored")
            return None
        if kind == "start":
            if token[1] == "html":
                return self.m_in_body(token)
            if token[1] == "head":
                self.head = self.insert_html_element("head", token[2])
                self.set_mode("in head")
                return None
        if kind == "end" and token[1] not in ("head", "body", "html", "br"):
            self.err()
            return None
        self.head = self.insert_html_element("head")
        self.set_mode("in head")
        return REPROCESS

    # ------------------------------------------------------------------ in head
    def m_in_head(self, token):
        kind = token[0]
        if kind == "chars" and token[2] == "ws":
            self.insert_text(token[1])
            return None
        if kind == "comment":
            self.insert_comment(token[1])
            return None
        if kind == "doctype":
            self.err()
            self.trace.add("doctype-ignored")
            return None
        if kind == "start":
            name = token[1]
            if name == "html":
                return self.m_in_body(token)
            if name in ("base", "basefont", "bgsound", "link"):
                self.insert_html_element(name, token[2])
                self.stack.pop()
                return None
            if name == "meta":
                self.insert_html_element(name, token[2])
                self.stack.pop()
                # harness extension: the meta elements processed by the "in head" rules, in order
                # (this is where the standard may change the encoding; used by the C06 model)
                self.meta_log.append(dict(token[2]))
                return None
            if name == "command":
                self.trace.add("dev:command")
                if "command" in self.compat:
                    self.insert_html_element(name, token[2])
                    self.stack.pop()
                    return None
            if name == "title":
                self.generic_text(token, "rcdata")
                return None
            if (name == "noscript" and self.scripting) or name in ("noframes", "style"):
                self.generic_text(token, "rawtext")
                return None
            if name == "noscript":
                self.insert_html_element(name, token[2])
                self.set_mode("in head noscript")
                return None
            if name == "script":
                self.insert_html_element(name, token[2])
                self.tok.state = "script_data"
                self.original_mode = self.mode
                self.set_mode("text")
                return None
            if name == "template":
                self.trace.add("template")
                self.insert_html_element(name, token[2])
                self.push_marker()
                self.frameset_ok = False
                self.set_mode("in template")
                self.template_modes.append("in template")
                return None
            if name == "head":
                self.err()
                return None
        elif kind == "end":
            name = token[1]
            if name == "head":
                self.stack.pop()
                self.set_mode("after head")
                return None
            if name == "template":
                self.trace.add("template")
                if not self.template_on_stack():
                    self.err()
                    return None
                self.generate_implied_end_tags(thorough=True)
                if not self.is_html(self.stack[-1], "template"):
                    self.err()
                self.pop_until("template")
                self.clear_afe_to_marker()
                self.template_modes.pop()
                self.reset_insertion_mode()
                return None
            if name not in ("body", "html", "br"):
                self.err()
                return None
        # anything else
        self.stack.pop()   # the head element
        self.set_mode("after head")
        return REPROCESS

    # ------------------------------------------------------------------ in head noscript
    def m_in_head_noscript(self, token):
        kind = token[0]
        if kind == "doctype":
            self.err()
            self.trace.add("doctype-ignored")
            return None
        if kind == "start":
            name = token[1]
            if name == "html":
                return self.m_in_body(token)
            if name in ("basefont", "bgsound", "link", "meta", "noframes", "style"):
                return self.m_in_head(token)
            if name in ("head", "noscript"):
                self.err()
                return None
        elif kind == "end":
            name = token[1]
            if name == "noscript":
                self.stack.pop()
                self.set_mode("in head")
                return None
            if name != "br":
                self.err()
                return None
        elif kind == "comment" or (kind == "chars" and token[2] == "ws"):
            return self.m_in_head(token)
        # anything else
        self.err()
        self.stack.pop()
        self.set_mode("in head")
        return REPROCESS

    # ------------------------------------------------------------------ after head
    def m_after_head(self, token):
        kind = token[0]
        if kind == "chars" and token[2] == "ws":
            self.insert_text(token[1])
            return None
        if kind == "comment":
            self.insert_comment(token[1])
            return None
        if kind == "doctype":
            self.err()
            self.trace.add("doctype-ignored")
            return None
        if kind == "start":
            name = token[1]
            if name == "html":
                return self.m_in_body(token)
            if name == "body":
                self.insert_html_element(name, token[2])
                self.frameset_ok = False
                self.set_mode("in body")
                return None
            if name == "frameset":
                self.insert_html_element(name, token[2])
                self.trace.add("frameset")
                self.set_mode("in frameset")
                return None
            if name in ("base", "basefont", "bgsound", "link", "meta", "noframes", "script",
                        "style", "template", "title"):
                self.err()
                head = self.head
                self.stack.append(head)
                r = self.m_in_head(token)
                self.remove_from_stack(head)
                return r
            if name == "head":
                self.err()
                return None
        elif kind == "end":
            name = token[1]
            if name == "template":
                return self.m_in_head(token)
            if name not in ("body", "html", "br"):
                self.err()
                return None
        # anything else
        self.insert_html_element("body")
        self.set_mode("in body")
        return REPROCESS

    # ------------------------------------------------------------------ in body
    BODY_HEADISH_START = frozenset(["base", "basefont", "bgsound", "link", "meta", "noframes",
                                    "script", "style", "template", "title"])
    BODY_BLOCK_START = frozenset("""address article aside blockquote center details dialog dir
        div dl fieldset figcaption figure footer header hgroup main menu nav ol p section summary
        ul""".split())
    BODY_BLOCK_END = frozenset("""address article aside blockquote button center details dialog
        dir div dl fieldset figcaption figure footer header hgroup listing main menu nav ol pre
        section summary ul""".split())
    BODY_FORMATTING_START = frozenset("b big code em font i s small strike strong tt u".split())
    BODY_IGNORED_START = frozenset("caption col colgroup frame head tbody td tfoot th thead tr"
                                   .split())

    def m_in_body(self, token):
        kind = token[0]
        if kind == "chars":
            cls = token[2]
            if cls == "nul":
                self.err()
                self.trace.add("nul-dropped")
                return None
            data = token[1]
            if (self.h5l_drop_lf and cls == "ws" and not self.run_has_nonws
                    and self.mode in ("in body", "after after body", "after after frameset")):
                # the phases whose whitespace tokens reach InBodyPhase.processSpaceCharacters
                self.h5l_drop_lf = False
                cur = self.stack[-1]
                if (data[:1] == "\n" and cur.name in ("pre", "listing", "textarea")
                        and not cur.children):
                    data = data[1:]
                    if not data:
                        return None
            self.reconstruct_afe()
            self.insert_text(data)
            if cls == "text":
                self.frameset_ok = False
            return None
        if kind == "comment":
            self.insert_comment(token[1])
            return None
        if kind == "doctype":
            self.err()
            self.trace.add("doctype-ignored")
            return None
        if kind == "start":
            return self.in_body_start(token)
        if kind == "end":
            return self.in_body_end(token)
        # EOF
        if self.template_modes:
            return self.m_in_template(token)
        self.check_open_elements_at_end()
        self.stop_parsing()
        return None

    EOF_OK_OPEN = frozenset("""dd dt li optgroup option p rb rp rt rtc tbody td tfoot th thead tr
        body html""".split())

    def check_open_elements_at_end(self):
        """EOF / </body> / </html> in body: parse error if anything else is still open"""
        for n in self.stack:
            if n.ns != HTML_NS or n.name not in self.EOF_OK_OPEN:
                self.err()
                return

    def h5l_foster_flag_reset(self):
        """html5lib closes the element through the *current phase*; when that is a table phase
        the nested call switches its insertFromTable flag off for the rest of the token"""
        if self.foster and self.mode in ("in table", "in table body", "in row"):
            self.trace.add("dev:foster-flag-reset")
            if "foster-flag-reset" in self.compat:
                self.foster = False

    def set_skip_lf(self):
        if "pre-lf" in self.compat:
            # html5lib: the next *whitespace token* handled by "in body" drops a leading LF if
            # the current node is then an empty pre/listing/textarea
            self.h5l_drop_lf = True
            self.lf_element_pending = True
        else:
            self.skip_lf = True

    def in_body_start(self, token):
        name = token[1]
        attrs = token[2]
        stack = self.stack
        if name == "html":
            self.err()
            if self.template_on_stack():
                self.trace.add("template")
                return None
            if self.add_missing_attrs(stack[0], attrs):
                self.trace.add("html-attrs-merged")
            return None
        if name in self.BODY_HEADISH_START:
            return self.m_in_head(token)
        if name == "body":
            self.err()
            if len(stack) == 1 or not self.is_html(stack[1], "body"):
                return None
            if self.template_on_stack():
                self.trace.add("template")
                return None
            self.frameset_ok = False
            if self.add_missing_attrs(stack[1], attrs):
                self.trace.add("body-attrs-merged")
            return None
        if name == "frameset":
            self.err()
            if len(stack) == 1 or not self.is_html(stack[1], "body"):
                return None
            if not self.frameset_ok:
                return None
            body = stack[1]
            if body.parent is not None:
                body.parent.remove(body)
            del stack[1:]
            self.insert_html_element(name, attrs)
            self.trace.add("frameset")
            self.trace.add("frameset-replaces-body")
            self.set_mode("in frameset")
            return None
        if name in self.BODY_BLOCK_START:
            if name == "dialog":
                p_open = self.in_button_scope("p")
                if p_open or self.afe_needs_reconstruct():
                    # html5lib has no dialog start tag rule: "any other start tag"
                    self.trace.add("dev:dialog-close-p")
                    if "dialog-close-p" in self.compat:
                        self.reconstruct_afe()
                        self.insert_html_element(name, attrs)
                        return None
                if p_open:
                    self.close_p()
            elif self.in_button_scope("p"):
                self.close_p()
            self.insert_html_element(name, attrs)
            return None
        if name in HEADINGS:
            if self.in_button_scope("p"):
                self.close_p()
            cur = stack[-1]
            if cur.ns == HTML_NS and cur.name in HEADINGS:
                self.err()
                self.trace.add("heading-nesting")
                stack.pop()
            self.insert_html_element(name, attrs)
            return None
        if name in ("pre", "listing"):
            if self.in_button_scope("p"):
                self.close_p()
            self.insert_html_element(name, attrs)
            self.set_skip_lf()
            self.frameset_ok = False
            return None
        if name == "form":
            has_template = self.template_on_stack()
            if self.form is not None and not has_template:
                self.err()
                self.trace.add("form-pointer-ignore")
                return None
            if has_template:
                self.trace.add("template")
            if self.in_button_scope("p"):
                self.close_p()
            el = self.insert_html_element(name, attrs)
            if not has_template:
                self.form = el
            return None
        if name == "li":
            self.frameset_ok = False
            i = len(stack) - 1
            while True:
                node = stack[i]
                if self.is_html(node, "li"):
                    if "special-extra" in self.compat and not self.in_list_item_scope("li"):
                        # html5lib closes through endTagListItem, which tests the scope; with
                        # its shorter special list the walk can pass a scoping element
                        self.err()
                        break
                    self.generate_implied_end_tags(except_for="li")
                    if not self.is_html(stack[-1], "li"):
                        self.err()
                    self.pop_until("li")
                    self.h5l_foster_flag_reset()
                    break
                if self.is_special(node) and not (
                        node.ns == HTML_NS and node.name in ("address", "div", "p")):
                    break
                i -= 1
            if self.in_button_scope("p"):
                self.close_p()
                self.h5l_foster_flag_reset()
            self.insert_html_element(name, attrs)
            return None
        if name in ("dd", "dt"):
            self.frameset_ok = False
            i = len(stack) - 1
            while True:
                node = stack[i]
                if self.is_html(node, "dd"):
                    if "special-extra" in self.compat and not self.in_scope("dd"):
                        self.err()
                        break
                    self.generate_implied_end_tags(except_for="dd")
                    if not self.is_html(stack[-1], "dd"):
                        self.err()
                    self.pop_until("dd")
                    self.h5l_foster_flag_reset()
                    break
                if self.is_html(node, "dt"):
                    if "special-extra" in self.compat and not self.in_scope("dt"):
                        self.err()
                        break
                    self.generate_implied_end_tags(except_for="dt")
                    if not self.is_html(stack[-1], "dt"):
                        self.err()
                    self.pop_until("dt")
                    self.h5l_foster_flag_reset()
                    break
                if self.is_special(node) and not (
                        node.ns == HTML_NS and node.name in ("address", "div", "p")):
                    break
                i -= 1
            if self.in_button_scope("p"):
                self.close_p()
                self.h5l_foster_flag_reset()
            self.insert_html_element(name, attrs)
            return None
        if name == "plaintext":
            if self.in_button_scope("p"):
                self.close_p()
            self.insert_html_element(name, attrs)
            self.tok.state = "plaintext"
            return None
        if name == "button":
            if self.in_scope("button"):
                self.err()
                self.generate_implied_end_tags()
                self.pop_until("button")
                if self.foster:
                    self.trace.add("dev:button-in-table")
                    if "button-in-table" in self.compat:
                        return None
            self.reconstruct_afe()
            self.insert_html_element(name, attrs)
            self.frameset_ok = False
            return None
        if name == "a":
            afe = self.afe
            i = len(afe) - 1
            found = None
            while i >= 0:
                e = afe[i]
                if e is MARKER:
                    break
                if e.ns == HTML_NS and e.name == "a":
                    found = e
                    break
                i -= 1
            if found is not None:
                self.err()
                self.adoption_agency("a")
                idx = self.index_in_afe(found)
                if idx >= 0:
                    del afe[idx]
                self.remove_from_stack(found)
            self.reconstruct_afe()
            el = self.insert_html_element(name, attrs)
            self.push_afe(el)
            return None
        if name in self.BODY_FORMATTING_START:
            self.reconstruct_afe()
            el = self.insert_html_element(name, attrs)
            self.push_afe(el)
            return None
        if name == "nobr":
            self.reconstruct_afe()
            if self.in_scope("nobr"):
                self.err()
                self.adoption_agency("nobr")
                self.reconstruct_afe()
            el = self.insert_html_element(name, attrs)
            self.push_afe(el)
            return None
        if name in ("applet", "marquee", "object"):
            self.reconstruct_afe()
            self.insert_html_element(name, attrs)
            self.push_marker()
            self.frameset_ok = False
            return None
        if name == "table":
            if self.in_button_scope("p"):
                if self.quirks != "quirks":
                    self.close_p()
                else:
                    self.trace.add("quirks-table-close-p-skip")
            self.insert_html_element(name, attrs)
            self.frameset_ok = False
            self.set_mode("in table")
            return None
        if name in ("area", "br", "embed", "img", "keygen", "wbr"):
            self.reconstruct_afe()
            self.insert_html_element(name, attrs)
            stack.pop()
            self.frameset_ok = False
            return None
        if name == "input":
            self.reconstruct_afe()
            self.insert_html_element(name, attrs)
            stack.pop()
            hidden = False
            for (n, v) in attrs:
                if n == "type":
                    hidden = _ascii_lower(v) == "hidden"
                    break
            if not hidden:
                self.frameset_ok = False
            return None
        if name in ("param", "source", "track"):
            self.insert_html_element(name, attrs)
            stack.pop()
            return None
        if name == "hr":
            if self.in_button_scope("p"):
                self.close_p()
            self.insert_html_element(name, attrs)
            stack.pop()
            self.frameset_ok = False
            return None
        if name == "image":
            self.err()
            self.trace.add("image-to-img")
            return self.in_body_start(("start", "img", attrs, token[3]))
        if name == "textarea":
            self.trace.add("dev:textarea")
            el = self.insert_html_element(name, attrs)
            self.set_skip_lf()
            self.tok.state = "rcdata"
            self.original_mode = self.mode
            self.frameset_ok = False
            if "textarea" in self.compat:
                # html5lib: stays in the current insertion mode (see phase 2 notes)
                self.textarea_from_body = el
                return None
            self.textarea_from_body = el
            self.set_mode("text")
            return None
        if name == "xmp":
            if self.in_button_scope("p"):
                self.close_p()
            self.reconstruct_afe()
            self.frameset_ok = False
            self.generic_text(token, "rawtext")
            return None
        if name == "iframe":
            self.frameset_ok = False
            self.generic_text(token, "rawtext")
            return None
        if name == "noembed" or (name == "noscript" and self.scripting):
            self.generic_text(token, "rawtext")
            return None
        if name == "select":
            self.reconstruct_afe()
            self.insert_html_element(name, attrs)
            self.frameset_ok = False
            if self.mode in TABLE_MODES_FOR_SELECT:
                self.set_mode("in select in table")
            else:
                self.set_mode("in select")
            return None
        if name in ("optgroup", "option"):
            if self.is_html(stack[-1], "option"):
                stack.pop()
                self.h5l_foster_flag_reset()
            self.reconstruct_afe()
            self.insert_html_element(name, attrs)
            return None
        if name in ("rb", "rtc"):
            self.trace.add("dev:rb-rtc")
            if "rb-rtc" not in self.compat:
                if self.in_scope("ruby"):
                    self.generate_implied_end_tags()
                    if not self.is_html(stack[-1], "ruby"):
                        self.err()
                self.insert_html_element(name, attrs)
                return None
            # compat: html5lib treats rb/rtc as "any other start tag"
            self.reconstruct_afe()
            self.insert_html_element(name, attrs)
            return None
        if name in ("rp", "rt"):
            if self.in_scope("ruby"):
                if "rb-rtc" in self.compat:
                    self.generate_implied_end_tags()
                else:
                    self.generate_implied_end_tags(except_for="rtc")
                cur = stack[-1]
                if not (cur.ns == HTML_NS and cur.name in ("rtc", "ruby")):
                    self.err()
                if self.is_html(cur, "rtc"):
                    self.trace.add("dev:rb-rtc")
            self.insert_html_element(name, attrs)
            return None
        if name == "math" or name == "svg":
            self.reconstruct_afe()
            ns = MATHML_NS if name == "math" else SVG_NS
            fattrs = self.adjust_foreign_attrs(attrs, ns)
            self.insert_element(name, fattrs, ns)
            if token[3]:
                stack.pop()
                self.trace.add("foreign-self-closing")
            return None
        if name in self.BODY_IGNORED_START:
            self.err()
            return None
        # any other start tag
        if name == "menuitem":
            self.trace.add("ambiguous:menuitem")
        if name == "command":
            self.trace.add("dev:command")
            if "command" in self.compat:
                self.insert_html_element(name, attrs)
                stack.pop()
                return None
        if name == "isindex":
            self.trace.add("dev:isindex")
            if "isindex" in self.compat:
                return self.compat_isindex(token)
        self.reconstruct_afe()
        self.insert_html_element(name, attrs)
        return None

    def in_body_end(self, token):
        name = token[1]
        stack = self.stack
        if name == "template":
            return self.m_in_head(token)
        if name == "body":
            if not self.in_scope("body"):
                self.err()
                self.trace.add("scope-barrier")
                return None
            self.check_open_elements_at_end()
            self.set_mode("after body")
            return None
        if name == "html":
            if not self.in_scope("body"):
                self.err()
                self.trace.add("scope-barrier")
                return None
            self.check_open_elements_at_end()
            self.set_mode("after body")
            return REPROCESS
        if name in self.BODY_BLOCK_END:
            if name == "pre":
                # html5lib's InBodyPhase.endTagBlock switches its drop-newline flag off
                # (compat "pre-lf"; the flag is never set without that switch)
                self.h5l_drop_lf = False
            if not self.in_scope(name):
                self.err()
                self.trace.add("scope-barrier")
                return None
            self.generate_implied_end_tags()
            if not self.is_html(stack[-1], name):
                self.err()
            self.pop_until(name)
            return None
        if name == "form":
            if not self.template_on_stack():
                node = self.form
                self.form = None
                if node is None or not self.node_in_scope(node):
                    self.err()
                    return None
                self.generate_implied_end_tags()
                if stack[-1] is not node:
                    self.err()
                    self.trace.add("form-end-remove-middle")
                self.remove_from_stack(node)
                return None
            self.trace.add("template")
            if not self.in_scope("form"):
                self.err()
                return None
            self.generate_implied_end_tags()
            if not self.is_html(stack[-1], "form"):
                self.err()
            self.pop_until("form")
            return None
        if name == "p":
            if not self.in_button_scope("p"):
                self.err()
                self.trace.add("implied-p")
                self.insert_html_element("p")
            self.close_p()
            return None
        if name == "li":
            if not self.in_list_item_scope("li"):
                self.err()
                self.trace.add("scope-barrier")
                return None
            self.generate_implied_end_tags(except_for="li")
            if not self.is_html(stack[-1], "li"):
                self.err()
            self.pop_until("li")
            return None
        if name in ("dd", "dt"):
            if not self.in_scope(name):
                self.err()
                self.trace.add("scope-barrier")
                return None
            self.generate_implied_end_tags(except_for=name)
            if not self.is_html(stack[-1], name):
                self.err()
            self.pop_until(name)
            return None
        if name in HEADINGS:
            if not self.in_scope(HEADINGS):
                self.err()
                self.trace.add("scope-barrier")
                return None
            self.generate_implied_end_tags()
            if not self.is_html(stack[-1], name):
                self.err()
            self.pop_until(HEADINGS)
            return None
        if name in FORMATTING:
            self.adoption_agency(name)
            return None
        if name in ("applet", "marquee", "object"):
            if not self.in_scope(name):
                self.err()
                self.trace.add("scope-barrier")
                return None
            self.generate_implied_end_tags()
            if not self.is_html(stack[-1], name):
                self.err()
            self.pop_until(name)
            self.clear_afe_to_marker()
            return None
        if name == "br":
            self.err()
            self.trace.add("br-end-tag")
            if self.frameset_ok:
                self.trace.add("dev:br-end-frameset-ok")
                if "br-end-frameset-ok" in self.compat:
                    self.reconstruct_afe()
                    self.insert_html_element("br")
                    stack.pop()
                    return None
            return self.in_body_start(("start", "br", [], False))
        self.any_other_end_tag(name)
        return None

    # ------------------------------------------------------------------ text
    def m_text(self, token):
        kind = token[0]
        if kind == "chars":
            self.insert_text(token[1])
            return None
        if kind == "eof":
            self.err()
            self.stack.pop()
            self.set_mode(self.original_mode)
            return REPROCESS
        if kind == "end":
            self.stack.pop()
            self.set_mode(self.original_mode)
            return None
        # not reachable with a conforming tokenizer (text mode only sees chars/end/eof)
        return None

    # ------------------------------------------------------------------ in table
    TABLE_CONTEXT = frozenset(["table", "template", "html"])
    TABLE_BODY_CONTEXT = frozenset(["tbody", "tfoot", "thead", "template", "html"])
    TABLE_ROW_CONTEXT = frozenset(["tr", "template", "html"])

    def m_in_table(self, token):
        kind = token[0]
        stack = self.stack
        if kind == "chars":
            cur = stack[-1]
            if cur.ns == HTML_NS and cur.name in TABLE_FOSTER_TARGETS:
                self.pending_table_chars = []
                self.original_mode = self.mode
                self.set_mode("in table text")
                return REPROCESS
            if ((token[2] == "ws" and not self.run_has_nonws and self.afe_needs_reconstruct())
                    or cur.ns != HTML_NS):
                # (current node foreign = an integration point: html5lib keeps the characters
                # pending while the foreign-content rules handle comments / end tags)
                self.trace.add("dev:table-text-current-node")
            if "table-text-current-node" in self.compat:
                self.pending_table_chars = []
                self.original_mode = self.mode
                self.set_mode("in table text")
                return REPROCESS
            return self.in_table_anything_else(token)
        if kind == "comment":
            self.insert_comment(token[1])
            return None
        if kind == "doctype":
            self.err()
            self.trace.add("doctype-ignored")
            return None
        if kind == "start":
            name = token[1]
            if name == "caption":
                self.clear_stack_to(self.TABLE_CONTEXT)
                self.push_marker()
                self.insert_html_element(name, token[2])
                self.set_mode("in caption")
                return None
            if name == "colgroup":
                self.clear_stack_to(self.TABLE_CONTEXT)
                self.insert_html_element(name, token[2])
                self.set_mode("in column group")
                return None
            if name == "col":
                self.clear_stack_to(self.TABLE_CONTEXT)
                self.insert_html_element("colgroup")
                self.set_mode("in column group")
                return REPROCESS
            if name in ("tbody", "tfoot", "thead"):
                self.clear_stack_to(self.TABLE_CONTEXT)
                self.insert_html_element(name, token[2])
                self.set_mode("in table body")
                return None
            if name in ("td", "th", "tr"):
                self.clear_stack_to(self.TABLE_CONTEXT)
                self.insert_html_element("tbody")
                self.set_mode("in table body")
                return REPROCESS
            if name == "table":
                self.err()
                if self.context is not None:
                    # html5lib (fragment parse): closes through its *current* phase, which can
                    # pop a row group / row although no table is in scope, and never
                    # reprocesses the start tag
                    self.trace.add("dev:table-in-table-fragment")
                    if "table-in-table-fragment" in self.compat:
                        return self.h5l_table_in_table_fragment()
                if not self.in_table_scope("table"):
                    return None
                self.pop_until("table")
                self.reset_insertion_mode()
                return REPROCESS
            if name in ("style", "script", "template"):
                return self.m_in_head(token)
            if name == "input":
                hidden = False
                for (n, v) in token[2]:
                    if n == "type":
                        hidden = _ascii_lower(v) == "hidden"
                        break
                if not hidden:
                    return self.in_table_anything_else(token)
                self.err()
                self.insert_html_element(name, token[2])
                stack.pop()
                return None
            if name == "form":
                self.err()
                if self.template_on_stack() or self.form is not None:
                    return None
                self.form = self.insert_html_element(name, token[2])
                stack.pop()
                return None
            return self.in_table_anything_else(token)
        if kind == "end":
            name = token[1]
            if name == "table":
                if not self.in_table_scope("table"):
                    self.err()
                    return None
                self.pop_until("table")
                self.reset_insertion_mode()
                return None
            if name in ("body", "caption", "col", "colgroup", "html", "tbody", "td", "tfoot",
                        "th", "thead", "tr"):
                self.err()
                return None
            if name == "template":
                return self.m_in_head(token)
            return self.in_table_anything_else(token)
        # EOF
        return self.m_in_body(token)

    def h5l_table_in_table_fragment(self):
        """html5lib, fragment parse (parser.innerHTML set), <table> start tag reaching
        InTablePhase.startTagTable: it calls ``self.parser.phase.processEndTag(</table>)`` --
        the *current* phase, which for "in table body" / "in row" only closes the row group /
        the row and whose "reprocess" return value is discarded -- and then drops the start
        tag (``if not self.parser.innerHTML: return token``)."""
        stack = self.stack
        mode = self.mode
        if mode == "in table body":
            # InTableBodyPhase.endTagTable
            if self.in_table_scope(("tbody", "thead", "tfoot")):
                self.clear_stack_to(self.TABLE_BODY_CONTEXT)
                stack.pop()
                self.set_mode("in table")
        elif mode == "in row":
            # InRowPhase.endTagTable -> endTagTr
            if self.in_table_scope("tr"):
                self.clear_stack_to(self.TABLE_ROW_CONTEXT)
                stack.pop()
                self.set_mode("in table body")
        else:
            # InTablePhase.endTagTable
            if self.in_table_scope("table"):
                self.generate_implied_end_tags()
                while stack[-1].name != "table":     # names only, as html5lib
                    stack.pop()
                stack.pop()
                self.reset_insertion_mode()
        return None

    def in_table_anything_else(self, token):
        self.err()
        self.foster = True
        try:
            r = self.m_in_body(token)
        finally:
            self.foster = False
        return r

    # ------------------------------------------------------------------ in table text
    def m_in_table_text(self, token):
        kind = token[0]
        if kind == "chars":
            if token[2] == "nul":
                self.err()
                self.trace.add("nul-dropped")
                return None
            self.pending_table_chars.append(token)
            return None
        if kind == "doctype":
            self.trace.add("dev:table-text-doctype")
            if "table-text-doctype" in self.compat:
                self.err()
                return None
        self.flush_table_text()
        return REPROCESS

    def flush_table_text(self):
        """the 'anything else' entry of "in table text" up to (not including) the reprocessing"""
        pending = self.pending_table_chars
        self.pending_table_chars = []
        nonws = False
        for t in pending:
            if t[2] != "ws":
                nonws = True
                break
        if nonws:
            self.err()
            self.trace.add("table-text-foster")
            for t in pending:
                self.in_table_anything_else(t)
        elif pending:
            self.trace.add("table-text-ws")
            self.insert_text("".join(t[1] for t in pending))
        self.set_mode(self.original_mode)

    # ------------------------------------------------------------------ in caption
    def m_in_caption(self, token):
        kind = token[0]
        if kind == "end":
            name = token[1]
            if name == "caption":
                self.close_caption()
                return None
            if name == "table":
                if self.close_caption():
                    return REPROCESS
                return None
            if name in ("body", "col", "colgroup", "html", "tbody", "td", "tfoot", "th",
                        "thead", "tr"):
                self.err()
                return None
        elif kind == "start":
            if token[1] in ("caption", "col", "colgroup", "tbody", "td", "tfoot", "th", "thead",
                            "tr"):
                if self.close_caption():
                    return REPROCESS
                return None
        if kind == "chars" and self.cell_caption_ws(token):
            return None
        return self.m_in_body(token)

    def cell_caption_ws(self, token):
        """html5lib's in cell / in caption phases insert a whitespace token without
        reconstructing the active formatting elements; returns True if handled (compat)"""
        if token[2] == "ws" and not self.run_has_nonws and self.afe_needs_reconstruct():
            self.trace.add("dev:cell-caption-ws")
            if "cell-caption-ws" in self.compat:
                self.insert_text(token[1])
                return True
        return False

    def close_caption(self):
        if not self.in_table_scope("caption"):
            self.err()
            return False
        self.generate_implied_end_tags()
        if not self.is_html(self.stack[-1], "caption"):
            self.err()
        self.pop_until("caption")
        self.clear_afe_to_marker()
        self.set_mode("in table")
        return True

    # ------------------------------------------------------------------ in column group
    def m_in_column_group(self, token):
        kind = token[0]
        stack = self.stack
        if kind == "chars" and token[2] == "ws":
            if self.colgroup_ws_deviation():
                return None
            self.insert_text(token[1])
            return None
        if kind == "comment":
            self.insert_comment(token[1])
            return None
        if kind == "doctype":
            self.err()
            self.trace.add("doctype-ignored")
            return None
        if kind == "start":
            name = token[1]
            if name == "html":
                return self.m_in_body(token)
            if name == "col":
                self.insert_html_element(name, token[2])
                stack.pop()
                return None
            if name == "template":
                return self.m_in_head(token)
        elif kind == "end":
            name = token[1]
            if name == "colgroup":
                if not self.is_html(stack[-1], "colgroup"):
                    self.err()
                    return None
                stack.pop()
                self.set_mode("in table")
                return None
            if name == "col":
                self.err()
                return None
            if name == "template":
                return self.m_in_head(token)
        elif kind == "eof":
            return self.m_in_body(token)
        # anything else
        if not self.is_html(stack[-1], "colgroup"):
            self.err()
            return None
        stack.pop()
        self.set_mode("in table")
        return REPROCESS

    def colgroup_ws_deviation(self):
        """html5lib drops a whole character token (with the whitespace inside it) when the
        current node is not colgroup (fragment case)"""
        if self.run_has_nonws and not self.is_html(self.stack[-1], "colgroup"):
            self.trace.add("dev:colgroup-text")
            return "colgroup-text" in self.compat
        return False

    # ------------------------------------------------------------------ in table body
    def m_in_table_body(self, token):
        kind = token[0]
        stack = self.stack
        if kind == "start":
            name = token[1]
            if name == "tr":
                self.clear_stack_to(self.TABLE_BODY_CONTEXT)
                self.insert_html_element(name, token[2])
                self.set_mode("in row")
                return None
            if name in ("th", "td"):
                self.err()
                self.clear_stack_to(self.TABLE_BODY_CONTEXT)
                self.insert_html_element("tr")
                self.set_mode("in row")
                return REPROCESS
            if name in ("caption", "col", "colgroup", "tbody", "tfoot", "thead"):
                return self.table_body_close_and_reprocess()
        elif kind == "end":
            name = token[1]
            if name in ("tbody", "tfoot", "thead"):
                if not self.in_table_scope(name):
                    self.err()
                    return None
                self.clear_stack_to(self.TABLE_BODY_CONTEXT)
                stack.pop()
                self.set_mode("in table")
                return None
            if name == "table":
                return self.table_body_close_and_reprocess()
            if name in ("body", "caption", "col", "colgroup", "html", "td", "th", "tr"):
                self.err()
                return None
        return self.m_in_table(token)

    def table_body_close_and_reprocess(self):
        if not self.in_table_scope(("tbody", "thead", "tfoot")):
            self.err()
            return None
        self.clear_stack_to(self.TABLE_BODY_CONTEXT)
        self.stack.pop()
        self.set_mode("in table")
        return REPROCESS

    # ------------------------------------------------------------------ in row
    def m_in_row(self, token):
        kind = token[0]
        stack = self.stack
        if kind == "start":
            name = token[1]
            if name in ("th", "td"):
                self.clear_stack_to(self.TABLE_ROW_CONTEXT)
                self.insert_html_element(name, token[2])
                self.set_mode("in cell")
                self.push_marker()
                return None
            if name in ("caption", "col", "colgroup", "tbody", "tfoot", "thead", "tr"):
                return REPROCESS if self.close_row() else None
        elif kind == "end":
            name = token[1]
            if name == "tr":
                self.close_row()
                return None
            if name == "table":
                return REPROCESS if self.close_row() else None
            if name in ("tbody", "tfoot", "thead"):
                if not self.in_table_scope(name):
                    self.err()
                    return None
                return REPROCESS if self.close_row() else None
            if name in ("body", "caption", "col", "colgroup", "html", "td", "th"):
                self.err()
                return None
        return self.m_in_table(token)

    def close_row(self):
        if not self.in_table_scope("tr"):
            self.err()
            return False
        self.clear_stack_to(self.TABLE_ROW_CONTEXT)
        self.stack.pop()
        self.set_mode("in table body")
        return True

    # ------------------------------------------------------------------ in cell
    def m_in_cell(self, token):
        kind = token[0]
        stack = self.stack
        if kind == "end":
            name = token[1]
            if name in ("td", "th"):
                if not self.in_table_scope(name):
                    self.err()
                    return None
                self.generate_implied_end_tags()
                if not self.is_html(stack[-1], name):
                    self.err()
                self.pop_until(name)
                self.clear_afe_to_marker()
                self.set_mode("in row")
                return None
            if name in ("body", "caption", "col", "colgroup", "html"):
                self.err()
                return None
            if name in ("table", "tbody", "tfoot", "thead", "tr"):
                if not self.in_table_scope(name):
                    self.err()
                    return None
                self.close_cell()
                return REPROCESS
        elif kind == "start":
            if token[1] in ("caption", "col", "colgroup", "tbody", "td", "tfoot", "th", "thead",
                            "tr"):
                if not self.in_table_scope(("td", "th")):
                    self.err()
                    return None
                self.close_cell()
                return REPROCESS
        if kind == "chars" and self.cell_caption_ws(token):
            return None
        return self.m_in_body(token)

    def close_cell(self):
        self.generate_implied_end_tags()
        cur = self.stack[-1]
        if not (cur.ns == HTML_NS and cur.name in ("td", "th")):
            self.err()
        self.pop_until(("td", "th"))
        self.clear_afe_to_marker()
        self.set_mode("in row")

    # ------------------------------------------------------------------ in select
    def m_in_select(self, token):
        kind = token[0]
        stack = self.stack
        if kind == "chars":
            if token[2] == "nul":
                self.err()
                self.trace.add("nul-dropped")
                return None
            self.insert_text(token[1])
            return None
        if kind == "comment":
            self.insert_comment(token[1])
            return None
        if kind == "doctype":
            self.err()
            self.trace.add("doctype-ignored")
            return None
        if kind == "start":
            name = token[1]
            if name == "html":
                return self.m_in_body(token)
            if name == "option":
                if self.is_html(stack[-1], "option"):
                    stack.pop()
                self.insert_html_element(name, token[2])
                return None
            if name == "optgroup":
                if self.is_html(stack[-1], "option"):
                    stack.pop()
                if self.is_html(stack[-1], "optgroup"):
                    stack.pop()
                self.insert_html_element(name, token[2])
                return None
            if name == "select":
                self.err()
                if not self.in_select_scope("select"):
                    return None
                self.pop_until("select")
                self.reset_insertion_mode()
                return None
            if name in ("input", "keygen", "textarea"):
                self.err()
                if not self.in_select_scope("select"):
                    return None
                self.pop_until("select")
                self.reset_insertion_mode()
                return REPROCESS
            if name in ("script", "template"):
                return self.m_in_head(token)
            self.err()
            return None
        if kind == "end":
            name = token[1]
            if name == "optgroup":
                if (self.is_html(stack[-1], "option") and len(stack) >= 2
                        and self.is_html(stack[-2], "optgroup")):
                    stack.pop()
                if self.is_html(stack[-1], "optgroup"):
                    stack.pop()
                else:
                    self.err()
                return None
            if name == "option":
                if self.is_html(stack[-1], "option"):
                    stack.pop()
                else:
                    self.err()
                return None
            if name == "select":
                if not self.in_select_scope("select"):
                    self.err()
                    return None
                self.pop_until("select")
                self.reset_insertion_mode()
                return None
            if name == "template":
                return self.m_in_head(token)
            self.err()
            return None
        # EOF
        return self.m_in_body(token)

    # ------------------------------------------------------------------ in select in table
    SELECT_IN_TABLE_NAMES = frozenset(["caption", "table", "tbody", "tfoot", "thead", "tr", "td",
                                       "th"])

    def m_in_select_in_table(self, token):
        kind = token[0]
        if kind == "start" and token[1] in self.SELECT_IN_TABLE_NAMES:
            self.err()
            self.trace.add("select-in-table-breakout")
            self.pop_until("select")
            self.reset_insertion_mode()
            return REPROCESS
        if kind == "end" and token[1] in self.SELECT_IN_TABLE_NAMES:
            self.err()
            if not self.in_table_scope(token[1]):
                return None
            self.trace.add("select-in-table-breakout")
            self.pop_until("select")
            self.reset_insertion_mode()
            return REPROCESS
        return self.m_in_select(token)

    # ------------------------------------------------------------------ in template
    def m_in_template(self, token):
        self.trace.add("template")
        kind = token[0]
        if kind in ("chars", "comment", "doctype"):
            return self.m_in_body(token)
        if kind == "start":
            name = token[1]
            if name in self.BODY_HEADISH_START:
                return self.m_in_head(token)
            if name in ("caption", "colgroup", "tbody", "tfoot", "thead"):
                new = "in table"
            elif name == "col":
                new = "in column group"
            elif name == "tr":
                new = "in table body"
            elif name in ("td", "th"):
                new = "in row"
            else:
                new = "in body"
            self.template_modes.pop()
            self.template_modes.append(new)
            self.set_mode(new)
            return REPROCESS
        if kind == "end":
            if token[1] == "template":
                return self.m_in_head(token)
            self.err()
            return None
        # EOF
        if not self.template_on_stack():
            self.stop_parsing()
            return None
        self.err()
        self.pop_until("template")
        self.clear_afe_to_marker()
        self.template_modes.pop()
        self.reset_insertion_mode()
        return REPROCESS

    # ------------------------------------------------------------------ after body
    def m_after_body(self, token):
        kind = token[0]
        if kind == "chars" and token[2] == "ws":
            self.trace.add("after-body-ws")
            if self.afe_needs_reconstruct() and not self.run_has_nonws:
                self.trace.add("dev:after-body-ws")
                if "after-body-ws" in self.compat:
                    self.insert_text(token[1])
                    return None
            return self.m_in_body(token)
        if kind == "comment":
            self.insert_comment(token[1], self.stack[0])
            return None
        if kind == "doctype":
            self.err()
            self.trace.add("doctype-ignored")
            return None
        if kind == "start" and token[1] == "html":
            return self.m_in_body(token)
        if kind == "end" and token[1] == "html":
            if self.context is not None:
                self.err()
                return None
            self.set_mode("after after body")
            return None
        if kind == "eof":
            self.stop_parsing()
            return None
        self.err()
        self.set_mode("in body")
        return REPROCESS

    # ------------------------------------------------------------------ frameset modes
    def frameset_text(self, token):
        """character handling shared by in frameset / after frameset (ws inserted, rest ignored)"""
        cls = token[2]
        if cls == "ws":
            if self.run_has_nonws:
                self.trace.add("frameset-text-mixed")
                self.trace.add("dev:frameset-text")
                if "frameset-text" in self.compat:
                    return None
            self.insert_text(token[1])
            return None
        if cls == "text":
            if self.run_has_ws:
                self.trace.add("frameset-text-mixed")
        else:
            self.trace.add("nul-dropped")
        self.err()
        return None

    def m_in_frameset(self, token):
        kind = token[0]
        stack = self.stack
        if kind == "chars":
            return self.frameset_text(token)
        if kind == "comment":
            self.insert_comment(token[1])
            return None
        if kind == "doctype":
            self.err()
            self.trace.add("doctype-ignored")
            return None
        if kind == "start":
            name = token[1]
            if name == "html":
                return self.m_in_body(token)
            if name == "frameset":
                self.insert_html_element(name, token[2])
                self.trace.add("frameset")
                return None
            if name == "frame":
                self.insert_html_element(name, token[2])
                stack.pop()
                return None
            if name == "noframes":
                return self.m_in_head(token)
            self.err()
            return None
        if kind == "end":
            if token[1] == "frameset":
                if len(stack) == 1 and self.is_html(stack[0], "html"):
                    self.err()
                    return None
                stack.pop()
                if self.context is None and not self.is_html(stack[-1], "frameset"):
                    self.set_mode("after frameset")
                return None
            self.err()
            return None
        # EOF
        self.stop_parsing()
        return None

    def m_after_frameset(self, token):
        kind = token[0]
        if kind == "chars":
            return self.frameset_text(token)
        if kind == "comment":
            self.insert_comment(token[1])
            return None
        if kind == "doctype":
            self.err()
            self.trace.add("doctype-ignored")
            return None
        if kind == "start":
            if token[1] == "html":
                return self.m_in_body(token)
            if token[1] == "noframes":
                return self.m_in_head(token)
            self.err()
            return None
        if kind == "end":
            if token[1] == "html":
                self.set_mode("after after frameset")
                return None
            self.err()
            return None
        self.stop_parsing()
        return None

    # ------------------------------------------------------------------ after after ...
    def m_after_after_body(self, token):
        kind = token[0]
        if kind == "comment":
            self.insert_comment(token[1], self.document)
            return None
        if (kind == "doctype" or (kind == "chars" and token[2] == "ws")
                or (kind == "start" and token[1] == "html")):
            return self.m_in_body(token)
        if kind == "eof":
            self.stop_parsing()
            return None
        self.err()
        self.set_mode("in body")
        return REPROCESS

    def m_after_after_frameset(self, token):
        kind = token[0]
        if kind == "comment":
            self.insert_comment(token[1], self.document)
            return None
        if kind == "chars" and token[2] != "ws":
            return self.frameset_text(token)
        if (kind == "doctype" or kind == "chars"
                or (kind == "start" and token[1] == "html")):
            if kind == "chars":
                if self.run_has_nonws:
                    self.trace.add("frameset-text-mixed")
                    self.trace.add("dev:frameset-text")
                    if "frameset-text" in self.compat:
                        return None
            return self.m_in_body(token)
        if kind == "eof":
            self.stop_parsing()
            return None
        if kind == "start" and token[1] == "noframes":
            return self.m_in_head(token)
        self.err()
        return None

    # ------------------------------------------------------------------ foreign content
    def adjust_foreign_attrs(self, token_attrs, ns):
        """adjust MathML / SVG attributes (by ns of the element being created) and then
        adjust foreign attributes; returns a list of (attr_ns, local, value)"""
        out = []
        for (n, v) in token_attrs:
            if ns == MATHML_NS:
                if n == "definitionurl":
                    n = "definitionURL"
            elif ns == SVG_NS:
                if n in SVG_ATTRS:
                    n = SVG_ATTRS[n]
                elif n in SVG_ATTRS_OBSOLETE:
                    self.trace.add("ambiguous:svg-attr-obsolete")
            f = FOREIGN_ATTRS.get(n)
            if f is not None:
                out.append((f[0], f[1], v))
            else:
                if n == "xml:base":
                    self.trace.add("ambiguous:xml-base")
                out.append((None, n, v))
        return out

    def foreign_content(self, token):
        self.trace.add("foreign")
        kind = token[0]
        stack = self.stack
        if kind == "chars":
            cls = token[2]
            if cls == "nul":
                self.err()
                self.trace.add("nul-replaced")
                self.trace.add("dev:cdata-nul")
                self.insert_text(u"\ufffd" * len(token[1]))
                return None
            self.insert_text(token[1])
            if cls == "text":
                self.frameset_ok = False
            return None
        if kind == "comment":
            self.insert_comment(token[1])
            return None
        if kind == "doctype":
            self.err()
            self.trace.add("doctype-ignored")
            return None
        if kind == "start":
            name = token[1]
            attrs = token[2]
            breakout = name in FOREIGN_BREAKOUT
            if not breakout and name == "font":
                for (n, v) in attrs:
                    if n in ("color", "face", "size"):
                        breakout = True
                        break
            if breakout:
                self.err()
                if self.context is not None:
                    # June 2020 wording: in the fragment case act as "any other start tag"
                    self.trace.add("ambiguous:foreign-breakout-fragment")
                else:
                    self.trace.add("foreign-breakout")
                    stack.pop()
                    while True:
                        cur = stack[-1]
                        if (cur.ns == HTML_NS
                                or (cur.ns == MATHML_NS and cur.name in MATHML_TEXT_IP)
                                or self.is_html_integration_point(cur)):
                            break
                        stack.pop()
                    return REPROCESS
            # any other start tag
            acn = self.adjusted_current_node()
            ns = acn.ns
            if ns == SVG_NS:
                if name in SVG_TAG_NAMES:
                    if name == "fedropshadow":
                        self.trace.add("ambiguous:fedropshadow")
                    name = SVG_TAG_NAMES[name]
            fattrs = self.adjust_foreign_attrs(attrs, ns)
            self.insert_element(name, fattrs, ns)
            if token[3]:
                # (script in SVG: "act as end tag script" == pop, scripts are not executed)
                stack.pop()
                self.trace.add("foreign-self-closing")
            return None
        if kind == "end":
            name = token[1]
            if name in ("p", "br"):
                self.trace.add("ambiguous:foreign-end-p-br")
            cur = stack[-1]
            if name == "script" and cur.ns == SVG_NS and cur.name == "script":
                stack.pop()
                return None
            # any other end tag
            i = len(stack) - 1
            node = stack[i]
            if _ascii_lower(node.name) != name:
                self.err()
            while True:
                if i == 0:
                    return None
                if _ascii_lower(node.name) == name:
                    if self.mode == "in table text":
                        # html5lib ("XXX this isn't in the spec but it seems necessary"):
                        # pending table text is flushed before the elements are popped.
                        # Unreachable without the table-text-current-node switch.
                        self.flush_table_text()
                        i = self.index_in_stack(node)
                    del stack[i:]
                    return None
                i -= 1
                node = stack[i]
                if node.ns != HTML_NS:
                    continue
                self.trace.add("foreign-end-to-html")
                return self.MODES[self.mode](self, token)
        return None  # EOF never reaches the foreign-content rules

    # ------------------------------------------------------------------ compat helpers
    def compat_isindex(self, token):
        """html5lib's InBodyPhase.startTagIsIndex (the pre-2016 isindex expansion)"""
        self.err()
        if self.form is not None:
            return None
        attrs = token[2]
        d = dict(attrs)
        form_attrs = [("action", d["action"])] if "action" in d else []
        self.in_body_start(("start", "form", form_attrs, False))
        self.in_body_start(("start", "hr", [], False))
        self.in_body_start(("start", "label", [], False))
        prompt = d.get("prompt", "This is a searchable index. Enter search keywords: ")
        if prompt:
            allws = True
            for c in prompt:
                if c not in WS:
                    allws = False
                    break
            self.m_in_body(("chars", prompt, "ws" if allws else "text"))
        new = []
        seen_name = False
        for (n, v) in attrs:
            if n in ("action", "prompt"):
                continue
            if n == "name":
                seen_name = True
                v = "isindex"
            new.append((n, v))
        if not seen_name:
            new.append(("name", "isindex"))
        self.in_body_start(("start", "input", new, token[3]))
        self.in_body_end(("end", "label"))
        self.in_body_start(("start", "hr", [], False))
        self.in_body_end(("end", "form"))
        return None

    MODES = {
        "initial": m_initial,
        "before html": m_before_html,
        "before head": m_before_head,
        "in head": m_in_head,
        "in head noscript": m_in_head_noscript,
        "after head": m_after_head,
        "in body": m_in_body,
        "text": m_text,
        "in table": m_in_table,
        "in table text": m_in_table_text,
        "in caption": m_in_caption,
        "in column group": m_in_column_group,
        "in table body": m_in_table_body,
        "in row": m_in_row,
        "in cell": m_in_cell,
        "in select": m_in_select,
        "in select in table": m_in_select_in_table,
        "in template": m_in_template,
        "after body": m_after_body,
        "in frameset": m_in_frameset,
        "after frameset": m_after_frameset,
        "after after body": m_after_after_body,
        "after after frameset": m_after_after_frameset,
    }


INSERTION_MODES = sorted(_Parser.MODES)


# --------------------------------------------------------------------------------------
# Entry points
# --------------------------------------------------------------------------------------
def parse_document(text, scripting=False, compat=frozenset()):
    p = _Parser(text, scripting=scripting, compat=compat)
    p.run()
    return Result(p.document, p.quirks, p.trace, p.modes, p.meta_log)


def parse_fragment(text, context="div", scripting=False, compat=frozenset()):
    p = _Parser(text, scripting=scripting, compat=compat, context=context)
    p.run()
    root = p.document.children[0]
    frag = Node("fragment")
    kids = root.children
    root.children = []
    for c in kids:
        c.parent = frag
    frag.children = kids
    return Result(frag, "no-quirks", p.trace, p.modes)
