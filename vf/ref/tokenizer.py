"""Reference implementation of the WHATWG HTML tokenizer (standard as of June 2020).

Transcribed state by state from the standard's "Tokenization" section (13.2.5.1 to
13.2.5.80).  It is an oracle for differential tests: plain, one method per state, the
standard's branch order kept in the comments.  Pure stdlib.  Parse errors are not
reported; the behaviour on erroneous input is the standard's.

Interface
---------
``normalize_newlines(text)``  CRLF -> LF, lone CR -> LF (input stream preprocessing).

``RefTokenizer(text, initial_state="data", last_start_tag=None, cdata_allowed=None,
record_transitions=False)``; ``text`` must already be newline-normalised.

Tokens (tuples):
    ("doctype", name|None, public|None, system|None, force_quirks)
    ("start", name, [(attr_name, attr_value), ...], self_closing)
    ("end", name)
    ("comment", data)
    ("chars", data)          a run of consecutive character tokens, coalesced
    ("eof",)

The tokenizer is strictly pull-based: ``next_token`` runs state steps (each consumes at
most one input character, except for the fixed look-aheads of "markup declaration open",
"after DOCTYPE name" and "named character reference") only until a token is available.
When a tag token is returned nothing after its ">" has been looked at, so the consumer may
assign ``tok.state`` at that moment.  ``cdata_allowed`` is called at the moment "<![CDATA["
is recognised, after every earlier token (pending characters included) has been returned.

``transitions`` (when ``record_transitions``): set of (state_name, char_class) pairs.  For
the ordinary states char_class classifies the consumed character ("ws", "<", ">", "/", "!",
"?", "-", "=", '"', "'", "&", "#", ";", "`", "[", "]", "upper", "lower", "digit", "nul",
"eof", "other").  The states that do not consume exactly one character add pseudo classes:
    markup_declaration_open:      "match:--", "match:doctype", "match:cdata:allowed",
                                  "match:cdata:denied", "match:none"
    after_doctype_name:           additionally "match:public", "match:system", "match:none"
    named_character_reference:    "match", "match:attr-legacy", "nomatch"
                                  (plus the class of every character consumed)
    numeric_character_reference_end: "zero", "overflow", "surrogate", "c1", "nonchar",
                                  "control", "ok"
"""

from collections import deque
from html.entities import html5 as _HTML5_ENTITIES

__all__ = ["normalize_newlines", "RefTokenizer", "tokenize", "STATE_NAMES"]


def normalize_newlines(text):
    """Input stream preprocessing: CRLF -> LF, then every remaining CR -> LF."""
    return text.replace("\r\n", "\n").replace("\r", "\n")


# --------------------------------------------------------------------------------------
# Character classes (ASCII only, as the standard defines them)
# --------------------------------------------------------------------------------------
_WS = frozenset("\t\n\f ")  # TAB, LF, FF, SPACE (CR never reaches the tokenizer)
_UPPER = frozenset("ABCDEFGHIJKLMNOPQRSTUVWXYZ")
_LOWER = frozenset("abcdefghijklmnopqrstuvwxyz")
_ALPHA = _UPPER | _LOWER
_DIGIT = frozenset("0123456789")
_ALNUM = _ALPHA | _DIGIT
_HEX_UPPER = frozenset("ABCDEF")
_HEX_LOWER = frozenset("abcdef")
_HEX = _DIGIT | _HEX_UPPER | _HEX_LOWER

_REPLACEMENT = "\ufffd"

_ASCII_LOWER_TABLE = {c: c + 0x20 for c in range(ord("A"), ord("Z") + 1)}


def _ascii_lower(s):
    """ASCII-lowercase (only A-Z are changed)."""
    return s.translate(_ASCII_LOWER_TABLE)


_CLASS_OF = {
    "\t": "ws", "\n": "ws", "\f": "ws", " ": "ws",
    "<": "<", ">": ">", "/": "/", "!": "!", "?": "?", "-": "-", "=": "=",
    '"': '"', "'": "'", "&": "&", "#": "#", ";": ";", "`": "`", "[": "[", "]": "]",
    "\0": "nul",
}
for _c in _UPPER:
    _CLASS_OF[_c] = "upper"
for _c in _LOWER:
    _CLASS_OF[_c] = "lower"
for _c in _DIGIT:
    _CLASS_OF[_c] = "digit"
del _c


def _classify(c):
    if c is None:
        return "eof"
    return _CLASS_OF.get(c, "other")


# Named character reference table: keys without the leading "&" ("amp;", "amp", ...).
_ENTITY_PREFIXES = set()
for _k in _HTML5_ENTITIES:
    for _i in range(1, len(_k) + 1):
        _ENTITY_PREFIXES.add(_k[:_i])
del _k, _i
_ENTITY_PREFIXES = frozenset(_ENTITY_PREFIXES)

# Numeric character reference end state: the C1 replacement table.
_C1_TABLE = {
    0x80: 0x20AC, 0x82: 0x201A, 0x83: 0x0192, 0x84: 0x201E, 0x85: 0x2026, 0x86: 0x2020,
    0x87: 0x2021, 0x88: 0x02C6, 0x89: 0x2030, 0x8A: 0x0160, 0x8B: 0x2039, 0x8C: 0x0152,
    0x8E: 0x017D, 0x91: 0x2018, 0x92: 0x2019, 0x93: 0x201C, 0x94: 0x201D, 0x95: 0x2022,
    0x96: 0x2013, 0x97: 0x2014, 0x98: 0x02DC, 0x99: 0x2122, 0x9A: 0x0161, 0x9B: 0x203A,
    0x9C: 0x0153, 0x9E: 0x017E, 0x9F: 0x0178,
}

_ATTR_VALUE_STATES = frozenset((
    "attribute_value_double_quoted",
    "attribute_value_single_quoted",
    "attribute_value_unquoted",
))

# The 80 states of 13.2.5, in the standard's order.
STATE_NAMES = (
    "data",                                           # 13.2.5.1
    "rcdata",                                         # 13.2.5.2
    "rawtext",                                        # 13.2.5.3
    "script_data",                                    # 13.2.5.4
    "plaintext",                                      # 13.2.5.5
    "tag_open",                                       # 13.2.5.6
    "end_tag_open",                                   # 13.2.5.7
    "tag_name",                                       # 13.2.5.8
    "rcdata_less_than_sign",                          # 13.2.5.9
    "rcdata_end_tag_open",                            # 13.2.5.10
    "rcdata_end_tag_name",                            # 13.2.5.11
    "rawtext_less_than_sign",                         # 13.2.5.12
    "rawtext_end_tag_open",                           # 13.2.5.13
    "rawtext_end_tag_name",                           # 13.2.5.14
    "script_data_less_than_sign",                     # 13.2.5.15
    "script_data_end_tag_open",                       # 13.2.5.16
    "script_data_end_tag_name",                       # 13.2.5.17
    "script_data_escape_start",                       # 13.2.5.18
    "script_data_escape_start_dash",                  # 13.2.5.19
    "script_data_escaped",                            # 13.2.5.20
    "script_data_escaped_dash",                       # 13.2.5.21
    "script_data_escaped_dash_dash",                  # 13.2.5.22
    "script_data_escaped_less_than_sign",             # 13.2.5.23
    "script_data_escaped_end_tag_open",               # 13.2.5.24
    "script_data_escaped_end_tag_name",               # 13.2.5.25
    "script_data_double_escape_start",                # 13.2.5.26
    "script_data_double_escaped",                     # 13.2.5.27
    "script_data_double_escaped_dash",                # 13.2.5.28
    "script_data_double_escaped_dash_dash",           # 13.2.5.29
    "script_data_double_escaped_less_than_sign",      # 13.2.5.30
    "script_data_double_escape_end",                  # 13.2.5.31
    "before_attribute_name",                          # 13.2.5.32
    "attribute_name",                                 # 13.2.5.33
    "after_attribute_name",                           # 13.2.5.34
    "before_attribute_value",                         # 13.2.5.35
    "attribute_value_double_quoted",                  # 13.2.5.36
    "attribute_value_single_quoted",                  # 13.2.5.37
    "attribute_value_unquoted",                       # 13.2.5.38
    "after_attribute_value_quoted",                   # 13.2.5.39
    "self_closing_start_tag",                         # 13.2.5.40
    "bogus_comment",                                  # 13.2.5.41
    "markup_declaration_open",                        # 13.2.5.42
    "comment_start",                                  # 13.2.5.43
    "comment_start_dash",                             # 13.2.5.44
    "comment",                                        # 13.2.5.45
    "comment_less_than_sign",                         # 13.2.5.46
    "comment_less_than_sign_bang",                    # 13.2.5.47
    "comment_less_than_sign_bang_dash",               # 13.2.5.48
    "comment_less_than_sign_bang_dash_dash",          # 13.2.5.49
    "comment_end_dash",                               # 13.2.5.50
    "comment_end",                                    # 13.2.5.51
    "comment_end_bang",                               # 13.2.5.52
    "doctype",                                        # 13.2.5.53
    "before_doctype_name",                            # 13.2.5.54
    "doctype_name",                                   # 13.2.5.55
    "after_doctype_name",                             # 13.2.5.56
    "after_doctype_public_keyword",                   # 13.2.5.57
    "before_doctype_public_identifier",               # 13.2.5.58
    "doctype_public_identifier_double_quoted",        # 13.2.5.59
    "doctype_public_identifier_single_quoted",        # 13.2.5.60
    "after_doctype_public_identifier",                # 13.2.5.61
    "between_doctype_public_and_system_identifiers",  # 13.2.5.62
    "after_doctype_system_keyword",                   # 13.2.5.63
    "before_doctype_system_identifier",               # 13.2.5.64
    "doctype_system_identifier_double_quoted",        # 13.2.5.65
    "doctype_system_identifier_single_quoted",        # 13.2.5.66
    "after_doctype_system_identifier",                # 13.2.5.67
    "bogus_doctype",                                  # 13.2.5.68
    "cdata_section",                                  # 13.2.5.69
    "cdata_section_bracket",                          # 13.2.5.70
    "cdata_section_end",                              # 13.2.5.71
    "character_reference",                            # 13.2.5.72
    "named_character_reference",                      # 13.2.5.73
    "ambiguous_ampersand",                            # 13.2.5.74
    "numeric_character_reference",                    # 13.2.5.75
    "hexadecimal_character_reference_start",          # 13.2.5.76
    "decimal_character_reference_start",              # 13.2.5.77
    "hexadecimal_character_reference",                # 13.2.5.78
    "decimal_character_reference",                    # 13.2.5.79
    "numeric_character_reference_end",                # 13.2.5.80
)


class RefTokenizer:
    """Pull-based HTML tokenizer following the standard's state machine.

    Each state of the standard is the method ``s_<state name>``; ``self.state`` holds the
    state name and may be assigned by the consumer between tokens.
    """

    def __init__(self, text, initial_state="data", last_start_tag=None,
                 cdata_allowed=None, record_transitions=False):
        self._text = text
        self._n = len(text)
        self._pos = 0                      # index of the next input character
        self.state = initial_state
        self.last_start_tag = last_start_tag
        self._cdata_allowed = cdata_allowed
        self._rec = bool(record_transitions)
        self.transitions = set()

        self._queue = deque()              # tokens ready to be returned
        self._pending = []                 # character tokens not yet put in the queue
        self._done = False                 # the end-of-file token has been emitted

        self._return_state = "data"        # "return state"
        self._temp = []                    # "temporary buffer" (list of strings)
        self._charref_code = 0             # "character reference code"

        # current tag token
        self._tag_kind = "start"           # "start" | "end"
        self._tag_name = []
        self._tag_self_closing = False
        self._tag_attrs = []               # attributes kept on the token: [name_parts, value_parts]
        self._tag_attr_names = set()       # names of the attributes kept on the token
        self._attr = [[], []]              # current attribute (possibly removed from the token)
        # current comment token
        self._comment = []
        # current DOCTYPE token (None = "missing")
        self._dt_name = None
        self._dt_public = None
        self._dt_system = None
        self._dt_force_quirks = False

        self._dispatch = {name: getattr(self, "s_" + name) for name in STATE_NAMES}

    # ----------------------------------------------------------------------------------
    # public pull interface
    # ----------------------------------------------------------------------------------
    def next_token(self):
        queue = self._queue
        dispatch = self._dispatch
        if not self.charref_boundaries:
            while not queue:
                if self._done:
                    return ("eof",)
                dispatch[self.state]()
            return queue.popleft()
        # harness extension: characters emitted by any state other than "data" (the "<" of an
        # aborted tag, "</", reference results, ...) form character tokens of their own
        B = self._BOUNDARY
        while not queue:
            if self._done:
                return ("eof",)
            st = self.state
            if st == "data" or st == "ambiguous_ampersand":
                # (the alphanumerics after an unmatched "&" belong to the following text run)
                dispatch[st]()
            else:
                pend = self._pending
                n0 = len(pend)
                dispatch[st]()
                if self._pending is pend and len(pend) > n0:
                    pend.insert(n0, B)
                    pend.append(B)
        return queue.popleft()

    def __iter__(self):
        while True:
            token = self.next_token()
            yield token
            if token[0] == "eof":
                return

    # ----------------------------------------------------------------------------------
    # input helpers
    # ----------------------------------------------------------------------------------
    def _consume(self):
        """Consume the next input character; None stands for EOF."""
        p = self._pos
        self._pos = p + 1
        c = self._text[p] if p < self._n else None
        if self._rec:
            self.transitions.add((self.state, _classify(c)))
        return c

    def _reconsume_in(self, state):
        """Reconsume the current input character in the given state."""
        self._pos -= 1
        self.state = state

    def _peek(self):
        """The next input character (not consumed); None at EOF."""
        p = self._pos
        return self._text[p] if p < self._n else None

    # ----------------------------------------------------------------------------------
    # emission helpers
    # ----------------------------------------------------------------------------------
    def _emit_char(self, c):
        self._pending.append(c)

    # Harness extension (not part of the standard): with ``charref_boundaries`` set, the code
    # points flushed for one character reference in text are delivered as a character token of
    # their own.  Only the *grouping* of character tokens changes, never their concatenation; a
    # consumer that models html5lib's token granularity (compat switches of the reference tree
    # builder) needs the boundaries.
    charref_boundaries = False
    _BOUNDARY = object()

    def _flush_pending(self):
        if self._pending:
            if self.charref_boundaries:
                run = []
                B = self._BOUNDARY
                for c in self._pending:
                    if c is B:
                        if run:
                            self._queue.append(("chars", "".join(run)))
                            run = []
                    else:
                        run.append(c)
                if run:
                    self._queue.append(("chars", "".join(run)))
            else:
                self._queue.append(("chars", "".join(self._pending)))
            self._pending = []

    def _emit(self, token):
        """Emit a non-character token (all pending characters go first)."""
        self._flush_pending()
        self._queue.append(token)

    def _emit_eof(self):
        self._emit(("eof",))
        self._done = True

    # -- tags
    def _new_tag(self, kind):
        self._tag_kind = kind
        self._tag_name = []
        self._tag_self_closing = False
        self._tag_attrs = []
        self._tag_attr_names = set()
        self._attr = [[], []]

    def _start_new_attribute(self, name=""):
        """Start a new attribute in the current tag token (name and value empty)."""
        self._attr = [[name] if name else [], []]
        self._tag_attrs.append(self._attr)

    def _leave_attribute_name(self):
        """'When the user agent leaves the attribute name state ...': if the token already
        has an attribute with exactly this name, the new attribute is removed from the
        token; it remains the tokenizer's "current attribute" (its value is discarded)."""
        attr = self._attr
        name = "".join(attr[0])
        attr[0] = [name]
        if name in self._tag_attr_names:
            # duplicate-attribute: remove from the token (it is the last one appended)
            if self._tag_attrs and self._tag_attrs[-1] is attr:
                self._tag_attrs.pop()
        else:
            self._tag_attr_names.add(name)

    def _emit_current_tag(self):
        name = "".join(self._tag_name)
        if self._tag_kind == "start":
            attrs = [("".join(a[0]), "".join(a[1])) for a in self._tag_attrs]
            self.last_start_tag = name
            self._emit(("start", name, attrs, self._tag_self_closing))
        else:
            # attributes and the self-closing flag of end tags are dropped
            self._emit(("end", name))

    def _is_appropriate_end_tag(self):
        """An end tag whose name is that of the last start tag emitted (none: never)."""
        return (self._tag_kind == "end"
                and self.last_start_tag is not None
                and "".join(self._tag_name) == self.last_start_tag)

    # -- comments
    def _new_comment(self, data=""):
        self._comment = [data] if data else []

    def _emit_current_comment(self):
        self._emit(("comment", "".join(self._comment)))

    # -- DOCTYPE
    def _new_doctype(self):
        self._dt_name = None
        self._dt_public = None
        self._dt_system = None
        self._dt_force_quirks = False

    def _emit_current_doctype(self):
        self._emit((
            "doctype",
            None if self._dt_name is None else "".join(self._dt_name),
            None if self._dt_public is None else "".join(self._dt_public),
            None if self._dt_system is None else "".join(self._dt_system),
            self._dt_force_quirks,
        ))

    # -- character references
    def _charref_in_attribute(self):
        """'consumed as part of an attribute': the return state is an attribute value state."""
        return self._return_state in _ATTR_VALUE_STATES

    def _flush_code_points_consumed_as_a_character_reference(self):
        """Append the temporary buffer to the current attribute's value, or emit it as
        character tokens, depending on the return state."""
        if self._return_state in _ATTR_VALUE_STATES:
            self._attr[1].extend(self._temp)
        elif self.charref_boundaries:
            self._pending.append(self._BOUNDARY)
            self._pending.extend(self._temp)
            self._pending.append(self._BOUNDARY)
        else:
            self._pending.extend(self._temp)

    # ==================================================================================
    # 13.2.5.1 Data state
    # ==================================================================================
    def s_data(self):
        c = self._consume()
        if c == "&":
            # set the return state to the data state; switch to character reference
            self._return_state = "data"
            self.state = "character_reference"
        elif c == "<":
            self.state = "tag_open"
        elif c == "\0":
            # parse error; emit the current input character (NUL) as is
            self._emit_char(c)
        elif c is None:
            self._emit_eof()
        else:
            self._emit_char(c)

    # 13.2.5.2 RCDATA state
    def s_rcdata(self):
        c = self._consume()
        if c == "&":
            self._return_state = "rcdata"
            self.state = "character_reference"
        elif c == "<":
            self.state = "rcdata_less_than_sign"
        elif c == "\0":
            self._emit_char(_REPLACEMENT)
        elif c is None:
            self._emit_eof()
        else:
            self._emit_char(c)

    # 13.2.5.3 RAWTEXT state
    def s_rawtext(self):
        c = self._consume()
        if c == "<":
            self.state = "rawtext_less_than_sign"
        elif c == "\0":
            self._emit_char(_REPLACEMENT)
        elif c is None:
            self._emit_eof()
        else:
            self._emit_char(c)

    # 13.2.5.4 Script data state
    def s_script_data(self):
        c = self._consume()
        if c == "<":
            self.state = "script_data_less_than_sign"
        elif c == "\0":
            self._emit_char(_REPLACEMENT)
        elif c is None:
            self._emit_eof()
        else:
            self._emit_char(c)

    # 13.2.5.5 PLAINTEXT state
    def s_plaintext(self):
        c = self._consume()
        if c == "\0":
            self._emit_char(_REPLACEMENT)
        elif c is None:
            self._emit_eof()
        else:
            self._emit_char(c)

    # 13.2.5.6 Tag open state
    def s_tag_open(self):
        c = self._consume()
        if c == "!":
            self.state = "markup_declaration_open"
        elif c == "/":
            self.state = "end_tag_open"
        elif c in _ALPHA:
            # create a new start tag token, name = ""; reconsume in tag name
            self._new_tag("start")
            self._reconsume_in("tag_name")
        elif c == "?":
            # unexpected-question-mark-instead-of-tag-name: comment "" ; reconsume in bogus comment
            self._new_comment()
            self._reconsume_in("bogus_comment")
        elif c is None:
            # eof-before-tag-name: emit "<" and EOF
            self._emit_char("<")
            self._emit_eof()
        else:
            # invalid-first-character-of-tag-name: emit "<"; reconsume in data
            self._emit_char("<")
            self._reconsume_in("data")

    # 13.2.5.7 End tag open state
    def s_end_tag_open(self):
        c = self._consume()
        if c in _ALPHA:
            self._new_tag("end")
            self._reconsume_in("tag_name")
        elif c == ">":
            # missing-end-tag-name: switch to data (nothing emitted)
            self.state = "data"
        elif c is None:
            # eof-before-tag-name: emit "<", "/" and EOF
            self._emit_char("<")
            self._emit_char("/")
            self._emit_eof()
        else:
            # invalid-first-character-of-tag-name: comment ""; reconsume in bogus comment
            self._new_comment()
            self._reconsume_in("bogus_comment")

    # 13.2.5.8 Tag name state
    def s_tag_name(self):
        c = self._consume()
        if c in _WS:
            self.state = "before_attribute_name"
        elif c == "/":
            self.state = "self_closing_start_tag"
        elif c == ">":
            self.state = "data"
            self._emit_current_tag()
        elif c in _UPPER:
            self._tag_name.append(chr(ord(c) + 0x20))
        elif c == "\0":
            self._tag_name.append(_REPLACEMENT)
        elif c is None:
            # eof-in-tag: emit EOF (the tag token is dropped)
            self._emit_eof()
        else:
            self._tag_name.append(c)

    # ----------------------------------------------------------------------------------
    # RCDATA / RAWTEXT / script data end tags
    # ----------------------------------------------------------------------------------
    # 13.2.5.9 RCDATA less-than sign state
    def s_rcdata_less_than_sign(self):
        c = self._consume()
        if c == "/":
            self._temp = []
            self.state = "rcdata_end_tag_open"
        else:
            self._emit_char("<")
            self._reconsume_in("rcdata")

    # 13.2.5.10 RCDATA end tag open state
    def s_rcdata_end_tag_open(self):
        c = self._consume()
        if c in _ALPHA:
            self._new_tag("end")
            self._reconsume_in("rcdata_end_tag_name")
        else:
            self._emit_char("<")
            self._emit_char("/")
            self._reconsume_in("rcdata")

    def _generic_end_tag_name(self, parent_state):
        """Shared text of the RCDATA / RAWTEXT / script data / script data escaped
        'end tag name' states; only the state to fall back to differs."""
        c = self._consume()
        if c in _WS:
            # if appropriate end tag token: before attribute name; otherwise "anything else"
            if self._is_appropriate_end_tag():
                self.state = "before_attribute_name"
                return
        elif c == "/":
            if self._is_appropriate_end_tag():
                self.state = "self_closing_start_tag"
                return
        elif c == ">":
            if self._is_appropriate_end_tag():
                self.state = "data"
                self._emit_current_tag()
                return
        elif c in _UPPER:
            # append the lower-case version to the tag name, the character itself to the buffer
            self._tag_name.append(chr(ord(c) + 0x20))
            self._temp.append(c)
            return
        elif c in _LOWER:
            self._tag_name.append(c)
            self._temp.append(c)
            return
        # anything else: emit "<", "/", and the temporary buffer; reconsume in the parent state
        self._emit_char("<")
        self._emit_char("/")
        self._pending.extend(self._temp)
        self._reconsume_in(parent_state)

    # 13.2.5.11 RCDATA end tag name state
    def s_rcdata_end_tag_name(self):
        self._generic_end_tag_name("rcdata")

    # 13.2.5.12 RAWTEXT less-than sign state
    def s_rawtext_less_than_sign(self):
        c = self._consume()
        if c == "/":
            self._temp = []
            self.state = "rawtext_end_tag_open"
        else:
            self._emit_char("<")
            self._reconsume_in("rawtext")

    # 13.2.5.13 RAWTEXT end tag open state
    def s_rawtext_end_tag_open(self):
        c = self._consume()
        if c in _ALPHA:
            self._new_tag("end")
            self._reconsume_in("rawtext_end_tag_name")
        else:
            self._emit_char("<")
            self._emit_char("/")
            self._reconsume_in("rawtext")

    # 13.2.5.14 RAWTEXT end tag name state
    def s_rawtext_end_tag_name(self):
        self._generic_end_tag_name("rawtext")

    # 13.2.5.15 Script data less-than sign state
    def s_script_data_less_than_sign(self):
        c = self._consume()
        if c == "/":
            self._temp = []
            self.state = "script_data_end_tag_open"
        elif c == "!":
            # switch to script data escape start; emit "<" and "!"
            self.state = "script_data_escape_start"
            self._emit_char("<")
            self._emit_char("!")
        else:
            self._emit_char("<")
            self._reconsume_in("script_data")

    # 13.2.5.16 Script data end tag open state
    def s_script_data_end_tag_open(self):
        c = self._consume()
        if c in _ALPHA:
            self._new_tag("end")
            self._reconsume_in("script_data_end_tag_name")
        else:
            self._emit_char("<")
            self._emit_char("/")
            self._reconsume_in("script_data")

    # 13.2.5.17 Script data end tag name state
    def s_script_data_end_tag_name(self):
        self._generic_end_tag_name("script_data")

    # 13.2.5.18 Script data escape start state
    def s_script_data_escape_start(self):
        c = self._consume()
        if c == "-":
            self.state = "script_data_escape_start_dash"
            self._emit_char("-")
        else:
            self._reconsume_in("script_data")

    # 13.2.5.19 Script data escape start dash state
    def s_script_data_escape_start_dash(self):
        c = self._consume()
        if c == "-":
            self.state = "script_data_escaped_dash_dash"
            self._emit_char("-")
        else:
            self._reconsume_in("script_data")

    # 13.2.5.20 Script data escaped state
    def s_script_data_escaped(self):
        c = self._consume()
        if c == "-":
            self.state = "script_data_escaped_dash"
            self._emit_char("-")
        elif c == "<":
            self.state = "script_data_escaped_less_than_sign"
        elif c == "\0":
            self._emit_char(_REPLACEMENT)
        elif c is None:
            # eof-in-script-html-comment-like-text
            self._emit_eof()
        else:
            self._emit_char(c)

    # 13.2.5.21 Script data escaped dash state
    def s_script_data_escaped_dash(self):
        c = self._consume()
        if c == "-":
            self.state = "script_data_escaped_dash_dash"
            self._emit_char("-")
        elif c == "<":
            self.state = "script_data_escaped_less_than_sign"
        elif c == "\0":
            self.state = "script_data_escaped"
            self._emit_char(_REPLACEMENT)
        elif c is None:
            self._emit_eof()
        else:
            self.state = "script_data_escaped"
            self._emit_char(c)

    # 13.2.5.22 Script data escaped dash dash state
    def s_script_data_escaped_dash_dash(self):
        c = self._consume()
        if c == "-":
            self._emit_char("-")
        elif c == "<":
            self.state = "script_data_escaped_less_than_sign"
        elif c == ">":
            self.state = "script_data"
            self._emit_char(">")
        elif c == "\0":
            self.state = "script_data_escaped"
            self._emit_char(_REPLACEMENT)
        elif c is None:
            self._emit_eof()
        else:
            self.state = "script_data_escaped"
            self._emit_char(c)

    # 13.2.5.23 Script data escaped less-than sign state
    def s_script_data_escaped_less_than_sign(self):
        c = self._consume()
        if c == "/":
            self._temp = []
            self.state = "script_data_escaped_end_tag_open"
        elif c in _ALPHA:
            # temporary buffer = ""; emit "<"; reconsume in script data double escape start
            self._temp = []
            self._emit_char("<")
            self._reconsume_in("script_data_double_escape_start")
        else:
            self._emit_char("<")
            self._reconsume_in("script_data_escaped")

    # 13.2.5.24 Script data escaped end tag open state
    def s_script_data_escaped_end_tag_open(self):
        c = self._consume()
        if c in _ALPHA:
            self._new_tag("end")
            self._reconsume_in("script_data_escaped_end_tag_name")
        else:
            self._emit_char("<")
            self._emit_char("/")
            self._reconsume_in("script_data_escaped")

    # 13.2.5.25 Script data escaped end tag name state
    def s_script_data_escaped_end_tag_name(self):
        self._generic_end_tag_name("script_data_escaped")

    # 13.2.5.26 Script data double escape start state
    def s_script_data_double_escape_start(self):
        c = self._consume()
        if c in _WS or c == "/" or c == ">":
            if "".join(self._temp) == "script":
                self.state = "script_data_double_escaped"
            else:
                self.state = "script_data_escaped"
            self._emit_char(c)
        elif c in _UPPER:
            self._temp.append(chr(ord(c) + 0x20))
            self._emit_char(c)
        elif c in _LOWER:
            self._temp.append(c)
            self._emit_char(c)
        else:
            self._reconsume_in("script_data_escaped")

    # 13.2.5.27 Script data double escaped state
    def s_script_data_double_escaped(self):
        c = self._consume()
        if c == "-":
            self.state = "script_data_double_escaped_dash"
            self._emit_char("-")
        elif c == "<":
            self.state = "script_data_double_escaped_less_than_sign"
            self._emit_char("<")
        elif c == "\0":
            self._emit_char(_REPLACEMENT)
        elif c is None:
            self._emit_eof()
        else:
            self._emit_char(c)

    # 13.2.5.28 Script data double escaped dash state
    def s_script_data_double_escaped_dash(self):
        c = self._consume()
        if c == "-":
            self.state = "script_data_double_escaped_dash_dash"
            self._emit_char("-")
        elif c == "<":
            self.state = "script_data_double_escaped_less_than_sign"
            self._emit_char("<")
        elif c == "\0":
            self.state = "script_data_double_escaped"
            self._emit_char(_REPLACEMENT)
        elif c is None:
            self._emit_eof()
        else:
            self.state = "script_data_double_escaped"
            self._emit_char(c)

    # 13.2.5.29 Script data double escaped dash dash state
    def s_script_data_double_escaped_dash_dash(self):
        c = self._consume()
        if c == "-":
            self._emit_char("-")
        elif c == "<":
            self.state = "script_data_double_escaped_less_than_sign"
            self._emit_char("<")
        elif c == ">":
            self.state = "script_data"
            self._emit_char(">")
        elif c == "\0":
            self.state = "script_data_double_escaped"
            self._emit_char(_REPLACEMENT)
        elif c is None:
            self._emit_eof()
        else:
            self.state = "script_data_double_escaped"
            self._emit_char(c)

    # 13.2.5.30 Script data double escaped less-than sign state
    def s_script_data_double_escaped_less_than_sign(self):
        c = self._consume()
        if c == "/":
            self._temp = []
            self.state = "script_data_double_escape_end"
            self._emit_char("/")
        else:
            self._reconsume_in("script_data_double_escaped")

    # 13.2.5.31 Script data double escape end state
    def s_script_data_double_escape_end(self):
        c = self._consume()
        if c in _WS or c == "/" or c == ">":
            if "".join(self._temp) == "script":
                self.state = "script_data_escaped"
            else:
                self.state = "script_data_double_escaped"
            self._emit_char(c)
        elif c in _UPPER:
            self._temp.append(chr(ord(c) + 0x20))
            self._emit_char(c)
        elif c in _LOWER:
            self._temp.append(c)
            self._emit_char(c)
        else:
            self._reconsume_in("script_data_double_escaped")

    # ----------------------------------------------------------------------------------
    # attributes
    # ----------------------------------------------------------------------------------
    # 13.2.5.32 Before attribute name state
    def s_before_attribute_name(self):
        c = self._consume()
        if c in _WS:
            pass  # ignore
        elif c == "/" or c == ">" or c is None:
            self._reconsume_in("after_attribute_name")
        elif c == "=":
            # unexpected-equals-sign-before-attribute-name: new attribute, name = "=", value = ""
            self._start_new_attribute("=")
            self.state = "attribute_name"
        else:
            self._start_new_attribute()
            self._reconsume_in("attribute_name")

    # 13.2.5.33 Attribute name state
    def s_attribute_name(self):
        c = self._consume()
        if c in _WS or c == "/" or c == ">" or c is None:
            self._leave_attribute_name()
            self._reconsume_in("after_attribute_name")
        elif c == "=":
            self._leave_attribute_name()
            self.state = "before_attribute_value"
        elif c in _UPPER:
            self._attr[0].append(chr(ord(c) + 0x20))
        elif c == "\0":
            self._attr[0].append(_REPLACEMENT)
        else:
            # '"', "'", "<": unexpected-character-in-attribute-name, then as anything else
            self._attr[0].append(c)

    # 13.2.5.34 After attribute name state
    def s_after_attribute_name(self):
        c = self._consume()
        if c in _WS:
            pass  # ignore
        elif c == "/":
            self.state = "self_closing_start_tag"
        elif c == "=":
            self.state = "before_attribute_value"
        elif c == ">":
            self.state = "data"
            self._emit_current_tag()
        elif c is None:
            # eof-in-tag
            self._emit_eof()
        else:
            self._start_new_attribute()
            self._reconsume_in("attribute_name")

    # 13.2.5.35 Before attribute value state
    def s_before_attribute_value(self):
        c = self._consume()
        if c in _WS:
            pass  # ignore
        elif c == '"':
            self.state = "attribute_value_double_quoted"
        elif c == "'":
            self.state = "attribute_value_single_quoted"
        elif c == ">":
            # missing-attribute-value: switch to data; emit the tag
            self.state = "data"
            self._emit_current_tag()
        else:
            self._reconsume_in("attribute_value_unquoted")

    # 13.2.5.36 Attribute value (double-quoted) state
    def s_attribute_value_double_quoted(self):
        c = self._consume()
        if c == '"':
            self.state = "after_attribute_value_quoted"
        elif c == "&":
            self._return_state = "attribute_value_double_quoted"
            self.state = "character_reference"
        elif c == "\0":
            self._attr[1].append(_REPLACEMENT)
        elif c is None:
            # eof-in-tag
            self._emit_eof()
        else:
            self._attr[1].append(c)

    # 13.2.5.37 Attribute value (single-quoted) state
    def s_attribute_value_single_quoted(self):
        c = self._consume()
        if c == "'":
            self.state = "after_attribute_value_quoted"
        elif c == "&":
            self._return_state = "attribute_value_single_quoted"
            self.state = "character_reference"
        elif c == "\0":
            self._attr[1].append(_REPLACEMENT)
        elif c is None:
            self._emit_eof()
        else:
            self._attr[1].append(c)

    # 13.2.5.38 Attribute value (unquoted) state
    def s_attribute_value_unquoted(self):
        c = self._consume()
        if c in _WS:
            self.state = "before_attribute_name"
        elif c == "&":
            self._return_state = "attribute_value_unquoted"
            self.state = "character_reference"
        elif c == ">":
            self.state = "data"
            self._emit_current_tag()
        elif c == "\0":
            self._attr[1].append(_REPLACEMENT)
        elif c is None:
            # eof-in-tag
            self._emit_eof()
        else:
            # '"', "'", "<", "=", "`": unexpected-character-in-unquoted-attribute-value,
            # then as anything else
            self._attr[1].append(c)

    # 13.2.5.39 After attribute value (quoted) state
    def s_after_attribute_value_quoted(self):
        c = self._consume()
        if c in _WS:
            self.state = "before_attribute_name"
        elif c == "/":
            self.state = "self_closing_start_tag"
        elif c == ">":
            self.state = "data"
            self._emit_current_tag()
        elif c is None:
            self._emit_eof()
        else:
            # missing-whitespace-between-attributes
            self._reconsume_in("before_attribute_name")

    # 13.2.5.40 Self-closing start tag state
    def s_self_closing_start_tag(self):
        c = self._consume()
        if c == ">":
            self._tag_self_closing = True
            self.state = "data"
            self._emit_current_tag()
        elif c is None:
            self._emit_eof()
        else:
            # unexpected-solidus-in-tag
            self._reconsume_in("before_attribute_name")

    # ----------------------------------------------------------------------------------
    # comments
    # ----------------------------------------------------------------------------------
    # 13.2.5.41 Bogus comment state
    def s_bogus_comment(self):
        c = self._consume()
        if c == ">":
            self.state = "data"
            self._emit_current_comment()
        elif c is None:
            self._emit_current_comment()
            self._emit_eof()
        elif c == "\0":
            self._comment.append(_REPLACEMENT)
        else:
            self._comment.append(c)

    # 13.2.5.42 Markup declaration open state
    def s_markup_declaration_open(self):
        text = self._text
        p = self._pos
        if self._rec:
            self.transitions.add((self.state, _classify(self._peek())))
        if text.startswith("--", p):
            # two U+002D: consume them, create a comment token "", switch to comment start
            if self._rec:
                self.transitions.add((self.state, "match:--"))
            self._pos = p + 2
            self._new_comment()
            self.state = "comment_start"
        elif _ascii_lower(text[p:p + 7]) == "doctype":
            # ASCII case-insensitive match for "DOCTYPE"
            if self._rec:
                self.transitions.add((self.state, "match:doctype"))
            self._pos = p + 7
            self.state = "doctype"
        elif text.startswith("[CDATA[", p):
            # case-sensitive match for "[CDATA[".  The answer to "is there an adjusted
            # current node that is not in the HTML namespace" belongs to the consumer; it
            # must have seen every earlier token, so pending characters are delivered
            # first and this step is redone on the next pull.
            if self._cdata_allowed is not None and self._pending:
                self._flush_pending()
                return
            allowed = bool(self._cdata_allowed()) if self._cdata_allowed is not None else False
            if self._rec:
                self.transitions.add(
                    (self.state, "match:cdata:allowed" if allowed else "match:cdata:denied"))
            self._pos = p + 7
            if allowed:
                self.state = "cdata_section"
            else:
                # cdata-in-html-content: comment "[CDATA["; switch to bogus comment
                self._new_comment("[CDATA[")
                self.state = "bogus_comment"
        else:
            # incorrectly-opened-comment: comment ""; switch to bogus comment (nothing consumed)
            if self._rec:
                self.transitions.add((self.state, "match:none"))
            self._new_comment()
            self.state = "bogus_comment"

    # 13.2.5.43 Comment start state
    def s_comment_start(self):
        c = self._consume()
        if c == "-":
            self.state = "comment_start_dash"
        elif c == ">":
            # abrupt-closing-of-empty-comment
            self.state = "data"
            self._emit_current_comment()
        else:
            self._reconsume_in("comment")

    # 13.2.5.44 Comment start dash state
    def s_comment_start_dash(self):
        c = self._consume()
        if c == "-":
            self.state = "comment_end"
        elif c == ">":
            # abrupt-closing-of-empty-comment
            self.state = "data"
            self._emit_current_comment()
        elif c is None:
            # eof-in-comment
            self._emit_current_comment()
            self._emit_eof()
        else:
            self._comment.append("-")
            self._reconsume_in("comment")

    # 13.2.5.45 Comment state
    def s_comment(self):
        c = self._consume()
        if c == "<":
            self._comment.append(c)
            self.state = "comment_less_than_sign"
        elif c == "-":
            self.state = "comment_end_dash"
        elif c == "\0":
            self._comment.append(_REPLACEMENT)
        elif c is None:
            self._emit_current_comment()
            self._emit_eof()
        else:
            self._comment.append(c)

    # 13.2.5.46 Comment less-than sign state
    def s_comment_less_than_sign(self):
        c = self._consume()
        if c == "!":
            self._comment.append(c)
            self.state = "comment_less_than_sign_bang"
        elif c == "<":
            self._comment.append(c)
        else:
            self._reconsume_in("comment")

    # 13.2.5.47 Comment less-than sign bang state
    def s_comment_less_than_sign_bang(self):
        c = self._consume()
        if c == "-":
            self.state = "comment_less_than_sign_bang_dash"
        else:
            self._reconsume_in("comment")

    # 13.2.5.48 Comment less-than sign bang dash state
    def s_comment_less_than_sign_bang_dash(self):
        c = self._consume()
        if c == "-":
            self.state = "comment_less_than_sign_bang_dash_dash"
        else:
            self._reconsume_in("comment_end_dash")

    # 13.2.5.49 Comment less-than sign bang dash dash state
    def s_comment_less_than_sign_bang_dash_dash(self):
        c = self._consume()
        if c == ">" or c is None:
            self._reconsume_in("comment_end")
        else:
            # nested-comment parse error
            self._reconsume_in("comment_end")

    # 13.2.5.50 Comment end dash state
    def s_comment_end_dash(self):
        c = self._consume()
        if c == "-":
            self.state = "comment_end"
        elif c is None:
            self._emit_current_comment()
            self._emit_eof()
        else:
            self._comment.append("-")
            self._reconsume_in("comment")

    # 13.2.5.51 Comment end state
    def s_comment_end(self):
        c = self._consume()
        if c == ">":
            self.state = "data"
            self._emit_current_comment()
        elif c == "!":
            self.state = "comment_end_bang"
        elif c == "-":
            self._comment.append("-")
        elif c is None:
            self._emit_current_comment()
            self._emit_eof()
        else:
            self._comment.append("--")
            self._reconsume_in("comment")

    # 13.2.5.52 Comment end bang state
    def s_comment_end_bang(self):
        c = self._consume()
        if c == "-":
            self._comment.append("--!")
            self.state = "comment_end_dash"
        elif c == ">":
            # incorrectly-closed-comment
            self.state = "data"
            self._emit_current_comment()
        elif c is None:
            self._emit_current_comment()
            self._emit_eof()
        else:
            self._comment.append("--!")
            self._reconsume_in("comment")

    # ----------------------------------------------------------------------------------
    # DOCTYPE
    # ----------------------------------------------------------------------------------
    # 13.2.5.53 DOCTYPE state
    def s_doctype(self):
        c = self._consume()
        if c in _WS:
            self.state = "before_doctype_name"
        elif c == ">":
            self._reconsume_in("before_doctype_name")
        elif c is None:
            # eof-in-doctype: new DOCTYPE token, force-quirks on; emit it; emit EOF
            self._new_doctype()
            self._dt_force_quirks = True
            self._emit_current_doctype()
            self._emit_eof()
        else:
            # missing-whitespace-before-doctype-name
            self._reconsume_in("before_doctype_name")

    # 13.2.5.54 Before DOCTYPE name state
    def s_before_doctype_name(self):
        c = self._consume()
        if c in _WS:
            pass  # ignore
        elif c in _UPPER:
            self._new_doctype()
            self._dt_name = [chr(ord(c) + 0x20)]
            self.state = "doctype_name"
        elif c == "\0":
            self._new_doctype()
            self._dt_name = [_REPLACEMENT]
            self.state = "doctype_name"
        elif c == ">":
            # missing-doctype-name
            self._new_doctype()
            self._dt_force_quirks = True
            self.state = "data"
            self._emit_current_doctype()
        elif c is None:
            self._new_doctype()
            self._dt_force_quirks = True
            self._emit_current_doctype()
            self._emit_eof()
        else:
            self._new_doctype()
            self._dt_name = [c]
            self.state = "doctype_name"

    # 13.2.5.55 DOCTYPE name state
    def s_doctype_name(self):
        c = self._consume()
        if c in _WS:
            self.state = "after_doctype_name"
        elif c == ">":
            self.state = "data"
            self._emit_current_doctype()
        elif c in _UPPER:
            self._dt_name.append(chr(ord(c) + 0x20))
        elif c == "\0":
            self._dt_name.append(_REPLACEMENT)
        elif c is None:
            self._dt_force_quirks = True
            self._emit_current_doctype()
            self._emit_eof()
        else:
            self._dt_name.append(c)

    # 13.2.5.56 After DOCTYPE name state
    def s_after_doctype_name(self):
        c = self._consume()
        if c in _WS:
            pass  # ignore
        elif c == ">":
            self.state = "data"
            self._emit_current_doctype()
        elif c is None:
            self._dt_force_quirks = True
            self._emit_current_doctype()
            self._emit_eof()
        else:
            # the six characters starting from the current input character
            p = self._pos - 1
            six = _ascii_lower(self._text[p:p + 6])
            if six == "public":
                if self._rec:
                    self.transitions.add((self.state, "match:public"))
                self._pos = p + 6
                self.state = "after_doctype_public_keyword"
            elif six == "system":
                if self._rec:
                    self.transitions.add((self.state, "match:system"))
                self._pos = p + 6
                self.state = "after_doctype_system_keyword"
            else:
                # invalid-character-sequence-after-doctype-name
                if self._rec:
                    self.transitions.add((self.state, "match:none"))
                self._dt_force_quirks = True
                self._reconsume_in("bogus_doctype")

    # 13.2.5.57 After DOCTYPE public keyword state
    def s_after_doctype_public_keyword(self):
        c = self._consume()
        if c in _WS:
            self.state = "before_doctype_public_identifier"
        elif c == '"':
            # missing-whitespace-after-doctype-public-keyword
            self._dt_public = []
            self.state = "doctype_public_identifier_double_quoted"
        elif c == "'":
            self._dt_public = []
            self.state = "doctype_public_identifier_single_quoted"
        elif c == ">":
            # missing-doctype-public-identifier
            self._dt_force_quirks = True
            self.state = "data"
            self._emit_current_doctype()
        elif c is None:
            self._dt_force_quirks = True
            self._emit_current_doctype()
            self._emit_eof()
        else:
            # missing-quote-before-doctype-public-identifier
            self._dt_force_quirks = True
            self._reconsume_in("bogus_doctype")

    # 13.2.5.58 Before DOCTYPE public identifier state
    def s_before_doctype_public_identifier(self):
        c = self._consume()
        if c in _WS:
            pass  # ignore
        elif c == '"':
            self._dt_public = []
            self.state = "doctype_public_identifier_double_quoted"
        elif c == "'":
            self._dt_public = []
            self.state = "doctype_public_identifier_single_quoted"
        elif c == ">":
            self._dt_force_quirks = True
            self.state = "data"
            self._emit_current_doctype()
        elif c is None:
            self._dt_force_quirks = True
            self._emit_current_doctype()
            self._emit_eof()
        else:
            self._dt_force_quirks = True
            self._reconsume_in("bogus_doctype")

    def _doctype_identifier_quoted(self, quote, which, after_state):
        """Shared text of the four 'DOCTYPE public/system identifier (x-quoted)' states."""
        c = self._consume()
        ident = self._dt_public if which == "public" else self._dt_system
        if c == quote:
            self.state = after_state
        elif c == "\0":
            ident.append(_REPLACEMENT)
        elif c == ">":
            # abrupt-doctype-public/system-identifier
            self._dt_force_quirks = True
            self.state = "data"
            self._emit_current_doctype()
        elif c is None:
            self._dt_force_quirks = True
            self._emit_current_doctype()
            self._emit_eof()
        else:
            ident.append(c)

    # 13.2.5.59 DOCTYPE public identifier (double-quoted) state
    def s_doctype_public_identifier_double_quoted(self):
        if self._dt_public is None:
            self._dt_public = []
        self._doctype_identifier_quoted('"', "public", "after_doctype_public_identifier")

    # 13.2.5.60 DOCTYPE public identifier (single-quoted) state
    def s_doctype_public_identifier_single_quoted(self):
        if self._dt_public is None:
            self._dt_public = []
        self._doctype_identifier_quoted("'", "public", "after_doctype_public_identifier")

    # 13.2.5.61 After DOCTYPE public identifier state
    def s_after_doctype_public_identifier(self):
        c = self._consume()
        if c in _WS:
            self.state = "between_doctype_public_and_system_identifiers"
        elif c == ">":
            self.state = "data"
            self._emit_current_doctype()
        elif c == '"':
            # missing-whitespace-between-doctype-public-and-system-identifiers
            self._dt_system = []
            self.state = "doctype_system_identifier_double_quoted"
        elif c == "'":
            self._dt_system = []
            self.state = "doctype_system_identifier_single_quoted"
        elif c is None:
            self._dt_force_quirks = True
            self._emit_current_doctype()
            self._emit_eof()
        else:
            # missing-quote-before-doctype-system-identifier
            self._dt_force_quirks = True
            self._reconsume_in("bogus_doctype")

    # 13.2.5.62 Between DOCTYPE public and system identifiers state
    def s_between_doctype_public_and_system_identifiers(self):
        c = self._consume()
        if c in _WS:
            pass  # ignore
        elif c == ">":
            self.state = "data"
            self._emit_current_doctype()
        elif c == '"':
            self._dt_system = []
            self.state = "doctype_system_identifier_double_quoted"
        elif c == "'":
            self._dt_system = []
            self.state = "doctype_system_identifier_single_quoted"
        elif c is None:
            self._dt_force_quirks = True
            self._emit_current_doctype()
            self._emit_eof()
        else:
            self._dt_force_quirks = True
            self._reconsume_in("bogus_doctype")

    # 13.2.5.63 After DOCTYPE system keyword state
    def s_after_doctype_system_keyword(self):
        c = self._consume()
        if c in _WS:
            self.state = "before_doctype_system_identifier"
        elif c == '"':
            # missing-whitespace-after-doctype-system-keyword
            self._dt_system = []
            self.state = "doctype_system_identifier_double_quoted"
        elif c == "'":
            self._dt_system = []
            self.state = "doctype_system_identifier_single_quoted"
        elif c == ">":
            # missing-doctype-system-identifier
            self._dt_force_quirks = True
            self.state = "data"
            self._emit_current_doctype()
        elif c is None:
            self._dt_force_quirks = True
            self._emit_current_doctype()
            self._emit_eof()
        else:
            self._dt_force_quirks = True
            self._reconsume_in("bogus_doctype")

    # 13.2.5.64 Before DOCTYPE system identifier state
    def s_before_doctype_system_identifier(self):
        c = self._consume()
        if c in _WS:
            pass  # ignore
        elif c == '"':
            self._dt_system = []
            self.state = "doctype_system_identifier_double_quoted"
        elif c == "'":
            self._dt_system = []
            self.state = "doctype_system_identifier_single_quoted"
        elif c == ">":
            self._dt_force_quirks = True
            self.state = "data"
            self._emit_current_doctype()
        elif c is None:
            self._dt_force_quirks = True
            self._emit_current_doctype()
            self._emit_eof()
        else:
            self._dt_force_quirks = True
            self._reconsume_in("bogus_doctype")

    # 13.2.5.65 DOCTYPE system identifier (double-quoted) state
    def s_doctype_system_identifier_double_quoted(self):
        if self._dt_system is None:
            self._dt_system = []
        self._doctype_identifier_quoted('"', "system", "after_doctype_system_identifier")

    # 13.2.5.66 DOCTYPE system identifier (single-quoted) state
    def s_doctype_system_identifier_single_quoted(self):
        if self._dt_system is None:
            self._dt_system = []
        self._doctype_identifier_quoted("'", "system", "after_doctype_system_identifier")

    # 13.2.5.67 After DOCTYPE system identifier state
    def s_after_doctype_system_identifier(self):
        c = self._consume()
        if c in _WS:
            pass  # ignore
        elif c == ">":
            self.state = "data"
            self._emit_current_doctype()
        elif c is None:
            self._dt_force_quirks = True
            self._emit_current_doctype()
            self._emit_eof()
        else:
            # unexpected-character-after-doctype-system-identifier; force-quirks NOT set
            self._reconsume_in("bogus_doctype")

    # 13.2.5.68 Bogus DOCTYPE state
    def s_bogus_doctype(self):
        c = self._consume()
        if c == ">":
            self.state = "data"
            self._emit_current_doctype()
        elif c == "\0":
            pass  # unexpected-null-character; ignore
        elif c is None:
            self._emit_current_doctype()
            self._emit_eof()
        else:
            pass  # ignore

    # ----------------------------------------------------------------------------------
    # CDATA sections
    # ----------------------------------------------------------------------------------
    # 13.2.5.69 CDATA section state
    def s_cdata_section(self):
        c = self._consume()
        if c == "]":
            self.state = "cdata_section_bracket"
        elif c is None:
            # eof-in-cdata
            self._emit_eof()
        else:
            # NUL included: emitted as is (handled by the tree construction stage)
            self._emit_char(c)

    # 13.2.5.70 CDATA section bracket state
    def s_cdata_section_bracket(self):
        c = self._consume()
        if c == "]":
            self.state = "cdata_section_end"
        else:
            self._emit_char("]")
            self._reconsume_in("cdata_section")

    # 13.2.5.71 CDATA section end state
    def s_cdata_section_end(self):
        c = self._consume()
        if c == "]":
            self._emit_char("]")
        elif c == ">":
            self.state = "data"
        else:
            self._emit_char("]")
            self._emit_char("]")
            self._reconsume_in("cdata_section")

    # ----------------------------------------------------------------------------------
    # character references
    # ----------------------------------------------------------------------------------
    # 13.2.5.72 Character reference state
    def s_character_reference(self):
        # set the temporary buffer to the empty string; append "&" to it
        self._temp = ["&"]
        c = self._consume()
        if c in _ALNUM:
            self._reconsume_in("named_character_reference")
        elif c == "#":
            self._temp.append(c)
            self.state = "numeric_character_reference"
        else:
            self._flush_code_points_consumed_as_a_character_reference()
            self._reconsume_in(self._return_state)

    # 13.2.5.73 Named character reference state
    def s_named_character_reference(self):
        # Consume the maximum number of characters possible such that the consumed
        # characters are one of the identifiers of the named character references table;
        # each consumed character is appended to the temporary buffer.
        text = self._text
        n = self._n
        start = self._pos
        i = start
        name = ""
        matched = ""                       # longest identifier found so far
        while i < n:
            candidate = name + text[i]
            if candidate not in _ENTITY_PREFIXES:
                break
            name = candidate
            i += 1
            if name in _HTML5_ENTITIES:
                matched = name
        if matched:
            self._pos = start + len(matched)
            self._temp.append(matched)
            if self._rec:
                for ch in matched:
                    self.transitions.add((self.state, _classify(ch)))
            nxt = self._peek()
            if (self._charref_in_attribute() and matched[-1] != ";"
                    and (nxt == "=" or nxt in _ALNUM)):
                # for historical reasons: flush the consumed code points literally
                if self._rec:
                    self.transitions.add((self.state, "match:attr-legacy"))
                self._flush_code_points_consumed_as_a_character_reference()
                self.state = self._return_state
            else:
                # (missing-semicolon-after-character-reference if no ";")
                if self._rec:
                    self.transitions.add((self.state, "match"))
                self._temp = [_HTML5_ENTITIES[matched]]
                self._flush_code_points_consumed_as_a_character_reference()
                self.state = self._return_state
        else:
            # no match: nothing is consumed here; flush "&"; the alphanumerics that follow
            # are handled (literally) by the ambiguous ampersand state
            if self._rec:
                self.transitions.add((self.state, "nomatch"))
            self._flush_code_points_consumed_as_a_character_reference()
            self.state = "ambiguous_ampersand"

    # 13.2.5.74 Ambiguous ampersand state
    def s_ambiguous_ampersand(self):
        c = self._consume()
        if c in _ALNUM:
            if self._charref_in_attribute():
                self._attr[1].append(c)
            else:
                self._emit_char(c)
        elif c == ";":
            # unknown-named-character-reference; reconsume in the return state
            self._reconsume_in(self._return_state)
        else:
            self._reconsume_in(self._return_state)

    # 13.2.5.75 Numeric character reference state
    def s_numeric_character_reference(self):
        self._charref_code = 0
        c = self._consume()
        if c == "x" or c == "X":
            self._temp.append(c)
            self.state = "hexadecimal_character_reference_start"
        else:
            self._reconsume_in("decimal_character_reference_start")

    # 13.2.5.76 Hexadecimal character reference start state
    def s_hexadecimal_character_reference_start(self):
        c = self._consume()
        if c in _HEX:
            self._reconsume_in("hexadecimal_character_reference")
        else:
            # absence-of-digits-in-numeric-character-reference
            self._flush_code_points_consumed_as_a_character_reference()
            self._reconsume_in(self._return_state)

    # 13.2.5.77 Decimal character reference start state
    def s_decimal_character_reference_start(self):
        c = self._consume()
        if c in _DIGIT:
            self._reconsume_in("decimal_character_reference")
        else:
            self._flush_code_points_consumed_as_a_character_reference()
            self._reconsume_in(self._return_state)

    def _accumulate(self, base, digit):
        code = self._charref_code * base + digit
        # clamp: anything above 0x10FFFF is equivalent for the numeric end state
        if code > 0x10FFFF:
            code = 0x110000
        self._charref_code = code

    # 13.2.5.78 Hexadecimal character reference state
    def s_hexadecimal_character_reference(self):
        c = self._consume()
        if c in _DIGIT:
            self._accumulate(16, ord(c) - 0x30)
        elif c in _HEX_UPPER:
            self._accumulate(16, ord(c) - 0x37)
        elif c in _HEX_LOWER:
            self._accumulate(16, ord(c) - 0x57)
        elif c == ";":
            self.state = "numeric_character_reference_end"
        else:
            # missing-semicolon-after-character-reference
            self._reconsume_in("numeric_character_reference_end")

    # 13.2.5.79 Decimal character reference state
    def s_decimal_character_reference(self):
        c = self._consume()
        if c in _DIGIT:
            self._accumulate(10, ord(c) - 0x30)
        elif c == ";":
            self.state = "numeric_character_reference_end"
        else:
            self._reconsume_in("numeric_character_reference_end")

    # 13.2.5.80 Numeric character reference end state (consumes nothing)
    def s_numeric_character_reference_end(self):
        code = self._charref_code
        if code == 0:
            kind = "zero"                  # null-character-reference
            code = 0xFFFD
        elif code > 0x10FFFF:
            kind = "overflow"              # character-reference-outside-unicode-range
            code = 0xFFFD
        elif 0xD800 <= code <= 0xDFFF:
            kind = "surrogate"             # surrogate-character-reference
            code = 0xFFFD
        elif (0xFDD0 <= code <= 0xFDEF) or (code & 0xFFFE) == 0xFFFE:
            kind = "nonchar"               # noncharacter-character-reference; unchanged
        elif code in _C1_TABLE:
            kind = "c1"                    # control-character-reference; table lookup
            code = _C1_TABLE[code]
        elif code == 0x0D or ((code < 0x20 or 0x7F <= code <= 0x9F)
                              and code not in (0x09, 0x0A, 0x0C, 0x0D, 0x20)):
            kind = "control"               # control-character-reference; unchanged
        else:
            kind = "ok"
        if self._rec:
            self.transitions.add((self.state, kind))
        self._temp = [chr(code)]
        self._flush_code_points_consumed_as_a_character_reference()
        self.state = self._return_state


def tokenize(text, **kwargs):
    """Convenience: the full token list (up to and including ("eof",)) for ``text``."""
    return list(RefTokenizer(text, **kwargs))
