"""Self-test of vf/ref/tokenizer.py: hand-derived expectations + oracle-free invariants.

Run:  /venv/bin/python /verif/vf/ref/test_tokenizer_selftest.py
"""
import os
import random
import sys
import time

sys.path.insert(0, os.path.dirname(os.path.dirname(os.path.dirname(os.path.abspath(__file__)))))

from vf.ref.tokenizer import RefTokenizer, normalize_newlines, STATE_NAMES, tokenize  # noqa: E402

FFFD = "\ufffd"


def toks(text, **kw):
    """Token list without the final eof, adjacent chars tokens merged."""
    out = []
    t = RefTokenizer(text, **kw)
    got = list(t)
    assert got[-1] == ("eof",), got
    assert t.next_token() == ("eof",)
    assert t.next_token() == ("eof",)
    for tok in got[:-1]:
        assert tok[0] != "eof"
        if tok[0] == "chars" and out and out[-1][0] == "chars":
            out[-1] = ("chars", out[-1][1] + tok[1])
        else:
            out.append(tok)
    for tok in out:
        if tok[0] == "chars":
            assert tok[1] != ""
    return out


def C(s):
    return ("chars", s)


def S(name, attrs=(), sc=False):
    return ("start", name, list(attrs), sc)


def E(name):
    return ("end", name)


def K(data):
    return ("comment", data)


def D(name, pub, sys_, fq):
    return ("doctype", name, pub, sys_, fq)


YES = lambda: True   # noqa: E731
NO = lambda: False   # noqa: E731

RC = dict(initial_state="rcdata", last_start_tag="title")
RT = dict(initial_state="rawtext", last_start_tag="style")
SD = dict(initial_state="script_data", last_start_tag="script")
PT = dict(initial_state="plaintext")

CASES = [
    # ------------------------------------------------------------------ data / tag open
    ("", {}, []),
    ("abc", {}, [C("abc")]),
    ("a\0b", {}, [C("a\0b")]),
    ("<", {}, [C("<")]),
    ("<a>", {}, [S("a")]),
    ("<A>", {}, [S("a")]),
    ("<aBc1>", {}, [S("abc1")]),
    ("<a", {}, []),
    ("x<a", {}, [C("x")]),
    ("</", {}, [C("</")]),
    ("</>", {}, []),
    ("a</>b", {}, [C("ab")]),
    ("</ >", {}, [K(" ")]),
    ("<?x>", {}, [K("?x")]),
    ("<?", {}, [K("?")]),
    ("<?\0>", {}, [K("?" + FFFD)]),
    ("<!x>", {}, [K("x")]),
    ("<!>", {}, [K("")]),
    ("<!", {}, [K("")]),
    ("<!-", {}, [K("-")]),
    ("<!-x>", {}, [K("-x")]),
    ("</\0>", {}, [K(FFFD)]),
    ("</1>", {}, [K("1")]),
    ("</1", {}, [K("1")]),
    ("<1>", {}, [C("<1>")]),
    ("< a>", {}, [C("< a>")]),
    ("<<a>", {}, [C("<"), S("a")]),
    ("<\0", {}, [C("<\0")]),
    ("<&amp;", {}, [C("<&")]),
    ("<\u00c9>", {}, [C("<\u00c9>")]),
    ("<a\u00c9>", {}, [S("a\u00c9")]),
    ("<a\u212a>", {}, [S("a\u212a")]),
    ("<a\0>", {}, [S("a" + FFFD)]),
    ("<a<b>", {}, [S("a<b")]),
    ("<a>b</a>", {}, [S("a"), C("b"), E("a")]),
    ("</A>", {}, [E("a")]),
    ("</a >", {}, [E("a")]),
    ("</a b>", {}, [E("a")]),
    ("</a/>", {}, [E("a")]),
    ("</a b='c'/>", {}, [E("a")]),
    # ------------------------------------------------------------------ attributes
    ("<a/>", {}, [S("a", [], True)]),
    ("<a />", {}, [S("a", [], True)]),
    ("<a/b>", {}, [S("a", [("b", "")])]),
    ("<a b=c/>", {}, [S("a", [("b", "c/")])]),
    ("<a =b>", {}, [S("a", [("=b", "")])]),
    ("<a ==b>", {}, [S("a", [("=", "b")])]),
    ("<a a=1 a=2>", {}, [S("a", [("a", "1")])]),
    ("<a a=1 A=2 b=3>", {}, [S("a", [("a", "1"), ("b", "3")])]),
    ("<a a a=2 b>", {}, [S("a", [("a", ""), ("b", "")])]),
    ("<a b='c'd>", {}, [S("a", [("b", "c"), ("d", "")])]),
    ('<a b="c">', {}, [S("a", [("b", "c")])]),
    ('<a b="c"d="e">', {}, [S("a", [("b", "c"), ("d", "e")])]),
    ("<a b = c>", {}, [S("a", [("b", "c")])]),
    ("<a b =c>", {}, [S("a", [("b", "c")])]),
    ("<a b=>", {}, [S("a", [("b", "")])]),
    ("<a b= >", {}, [S("a", [("b", "")])]),
    ("<a B=C>", {}, [S("a", [("b", "C")])]),
    ("<a \0=\0>", {}, [S("a", [(FFFD, FFFD)])]),
    ("<a b=\"\0\" c='\0'>", {}, [S("a", [("b", FFFD), ("c", FFFD)])]),
    ("<a b\"'<=c>", {}, [S("a", [("b\"'<", "c")])]),
    ("<a b=c\"'<=`d>", {}, [S("a", [("b", "c\"'<=`d")])]),
    ('<a b="c', {}, []),
    ("<a b='c'", {}, []),
    ('<a b="c"/', {}, []),
    ("<a ", {}, []),
    ("<a b", {}, []),
    ("<a b ", {}, []),
    ("<a b=", {}, []),
    ("<a b=c", {}, []),
    ("<a/", {}, []),
    ("<a / >", {}, [S("a")]),
    ("<a//>", {}, [S("a", [], True)]),
    ("<a b c>", {}, [S("a", [("b", ""), ("c", "")])]),
    ("<a\tb\nc\fd e>", {}, [S("a", [("b", ""), ("c", ""), ("d", ""), ("e", "")])]),
    ("<a b='x'/>", {}, [S("a", [("b", "x")], True)]),
    ("<a b=x />", {}, [S("a", [("b", "x")], True)]),
    ('<a b="x" />', {}, [S("a", [("b", "x")], True)]),
    ("<a b=x/>", {}, [S("a", [("b", "x/")])]),
    ("<a b<c>", {}, [S("a", [("b<c", "")])]),
    ("<a b='>'>", {}, [S("a", [("b", ">")])]),
    ("<a b=''>", {}, [S("a", [("b", "")])]),
    ("<a b=\"'\">", {}, [S("a", [("b", "'")])]),
    ("<a b=\n'c'>", {}, [S("a", [("b", "c")])]),
    ("<a b/=c>", {}, [S("a", [("b", ""), ("=c", "")])]),
    ("<a b /c>", {}, [S("a", [("b", ""), ("c", "")])]),
    ("<a b=1 b=2 c=3 b=4>", {}, [S("a", [("b", "1"), ("c", "3")])]),
    # ------------------------------------------------------------------ charrefs in attributes
    ('<a b="&amp;">', {}, [S("a", [("b", "&")])]),
    ('<a b="&ampx">', {}, [S("a", [("b", "&ampx")])]),
    ("<a b=&amp=>", {}, [S("a", [("b", "&amp=")])]),
    ("<a b=&amp>", {}, [S("a", [("b", "&")])]),
    ('<a b="&amp">', {}, [S("a", [("b", "&")])]),
    ("<a b='&notit;'>", {}, [S("a", [("b", "&notit;")])]),
    ("<a b='&notin;'>", {}, [S("a", [("b", "\u2209")])]),
    ('<a b="&noti">', {}, [S("a", [("b", "&noti")])]),
    ('<a b="&not;i">', {}, [S("a", [("b", "\u00aci")])]),
    ('<a b="&not">', {}, [S("a", [("b", "\u00ac")])]),
    ('<a b="&not=">', {}, [S("a", [("b", "&not=")])]),
    ('<a b="&not-">', {}, [S("a", [("b", "\u00ac-")])]),
    ("<a b=&>", {}, [S("a", [("b", "&")])]),
    ("<a b=&#x41;c>", {}, [S("a", [("b", "Ac")])]),
    ('<a b="&#;">', {}, [S("a", [("b", "&#;")])]),
    ("<a b='&'>", {}, [S("a", [("b", "&")])]),
    ("<a b='&x;'>", {}, [S("a", [("b", "&x;")])]),
    ("<a b='&#0;&#x80;'>", {}, [S("a", [("b", FFFD + "\u20ac")])]),
    ("<a b=&lt c>", {}, [S("a", [("b", "<"), ("c", "")])]),
    ("<a b=a&b>", {}, [S("a", [("b", "a&b")])]),
    ('<a b="&amp', {}, []),
    ("<a &amp;=1>", {}, [S("a", [("&amp;", "1")])]),
    # ------------------------------------------------------------------ charrefs in data
    ("&ampx", {}, [C("&x")]),
    ("&amp;", {}, [C("&")]),
    ("&amp", {}, [C("&")]),
    ("&AMP;", {}, [C("&")]),
    ("&Amp;", {}, [C("&Amp;")]),
    ("&notit;", {}, [C("\u00acit;")]),
    ("&notin;", {}, [C("\u2209")]),
    ("&noti", {}, [C("\u00aci")]),
    ("&not=", {}, [C("\u00ac=")]),
    ("&", {}, [C("&")]),
    ("& ", {}, [C("& ")]),
    ("&;", {}, [C("&;")]),
    ("&x;", {}, [C("&x;")]),
    ("&nosuch;", {}, [C("&nosuch;")]),
    ("&am", {}, [C("&am")]),
    ("&&amp;", {}, [C("&&")]),
    ("&a<b>", {}, [C("&a"), S("b")]),
    ("&lt", {}, [C("<")]),
    ("&ltx", {}, [C("<x")]),
    ("&lt;a>", {}, [C("<a>")]),
    ("&NotEqualTilde;", {}, [C("\u2242\u0338")]),
    ("&#x80;", {}, [C("\u20ac")]),
    ("&#128;", {}, [C("\u20ac")]),
    ("&#0;", {}, [C(FFFD)]),
    ("&#x0000;", {}, [C(FFFD)]),
    ("&#xD800;", {}, [C(FFFD)]),
    ("&#xDFFF;", {}, [C(FFFD)]),
    ("&#x110000;", {}, [C(FFFD)]),
    ("&#99999999999;", {}, [C(FFFD)]),
    ("&#x" + "F" * 5000 + ";", {}, [C(FFFD)]),
    ("&#x10FFFF;", {}, [C("\U0010ffff")]),
    ("&#xFFFF;", {}, [C("\uffff")]),
    ("&#xFDD0;", {}, [C("\ufdd0")]),
    ("&#;", {}, [C("&#;")]),
    ("&#x;", {}, [C("&#x;")]),
    ("&#X;", {}, [C("&#X;")]),
    ("&#xz", {}, [C("&#xz")]),
    ("&#", {}, [C("&#")]),
    ("&#x", {}, [C("&#x")]),
    ("&#a", {}, [C("&#a")]),
    ("&#1", {}, [C("\x01")]),
    ("&#X41", {}, [C("A")]),
    ("&#x4a;", {}, [C("J")]),
    ("&#x4A", {}, [C("J")]),
    ("&#65", {}, [C("A")]),
    ("&#65x", {}, [C("Ax")]),
    ("&#65;x", {}, [C("Ax")]),
    ("&#x41g", {}, [C("Ag")]),
    ("&#x81;", {}, [C("\x81")]),
    ("&#x8D;", {}, [C("\x8d")]),
    ("&#13;", {}, [C("\r")]),
    ("&#x9F;", {}, [C("\u0178")]),
    ("&#x82;&#x8c;&#x99;", {}, [C("\u201a\u0152\u2122")]),
    ("&#x7F;", {}, [C("\x7f")]),
    ("&#<a>", {}, [C("&#"), S("a")]),
    ("&#x&amp;", {}, [C("&#x&")]),
    ("&#00000000000000000000000000065;", {}, [C("A")]),
    # ------------------------------------------------------------------ comments
    ("<!---->", {}, [K("")]),
    ("<!-->", {}, [K("")]),
    ("<!--->", {}, [K("")]),
    ("<!--a--!>", {}, [K("a")]),
    ("<!--a--!b-->", {}, [K("a--!b")]),
    ("<!----!>", {}, [K("")]),
    ("<!--", {}, [K("")]),
    ("<!--a", {}, [K("a")]),
    ("<!--a-", {}, [K("a")]),
    ("<!--a--", {}, [K("a")]),
    ("<!--a--!", {}, [K("a")]),
    ("<!---", {}, [K("")]),
    ("<!----", {}, [K("")]),
    ("<!-- -->", {}, [K(" ")]),
    ("<!--a-->b", {}, [K("a"), C("b")]),
    ("<!--a-b-->", {}, [K("a-b")]),
    ("<!--a--b-->", {}, [K("a--b")]),
    ("<!--a--->", {}, [K("a-")]),
    ("<!--a---->", {}, [K("a--")]),
    ("<!----->", {}, [K("-")]),
    ("<!---a-->", {}, [K("-a")]),
    ("<!--\0-->", {}, [K(FFFD)]),
    ("<!---\0-->", {}, [K("-" + FFFD)]),
    ("<!--a\0b-->", {}, [K("a" + FFFD + "b")]),
    ("<!--<!-->", {}, [K("<!")]),
    ("<!--<!--->", {}, [K("<!-")]),
    ("<!--<!--x-->", {}, [K("<!--x")]),
    ("<!--<<!x-->", {}, [K("<<!x")]),
    ("<!--<!-x-->", {}, [K("<!-x")]),
    ("<!--<!x-->", {}, [K("<!x")]),
    ("<!--<-->", {}, [K("<")]),
    ("<!--<", {}, [K("<")]),
    ("<!--<!", {}, [K("<!")]),
    ("<!--<!-", {}, [K("<!")]),
    ("<!--<!--", {}, [K("<!")]),
    ("<!--a--!-->", {}, [K("a--!")]),
    ("<!--a--!--!>", {}, [K("a--!")]),
    ("<!--a--!-b-->", {}, [K("a--!-b")]),
    ("<!--&amp;-->", {}, [K("&amp;")]),
    ("<!-- > -->", {}, [K(" > ")]),
    ("<!-- --", {}, [K(" ")]),
    ("<!-- -- >", {}, [K(" -- >")]),
    # ------------------------------------------------------------------ DOCTYPE
    ("<!DOCTYPE>", {}, [D(None, None, None, True)]),
    ("<!DOCTYPE", {}, [D(None, None, None, True)]),
    ("<!DOCTYPE >", {}, [D(None, None, None, True)]),
    ("<!DOCTYPE ", {}, [D(None, None, None, True)]),
    ("<!DOCTYPE html>", {}, [D("html", None, None, False)]),
    ("<!doctype HTML>", {}, [D("html", None, None, False)]),
    ("<!DoCtYpE hTmL>x", {}, [D("html", None, None, False), C("x")]),
    ("<!DOCTYPEhtml>", {}, [D("html", None, None, False)]),
    ("<!DOCTYPE html", {}, [D("html", None, None, True)]),
    ("<!DOCTYPE html ", {}, [D("html", None, None, True)]),
    ("<!DOCTYPE html >", {}, [D("html", None, None, False)]),
    ("<!DOCTYPE \0>", {}, [D(FFFD, None, None, False)]),
    ("<!DOCTYPE a\0>", {}, [D("a" + FFFD, None, None, False)]),
    ("<!DOCTYPE \u00c9A>", {}, [D("\u00c9a", None, None, False)]),
    ("<!DOCTYP html>", {}, [K("DOCTYP html")]),
    ("<!doctype html PUBLIC \"a\" 'b'>", {}, [D("html", "a", "b", False)]),
    ('<!DOCTYPE a SYSTEM"x">', {}, [D("a", None, "x", False)]),
    ('<!DOCTYPE a PUBLIC"x">', {}, [D("a", "x", None, False)]),
    ("<!DOCTYPE a PUBLIC'x'>", {}, [D("a", "x", None, False)]),
    ("<!DOCTYPE a PUBLIC>", {}, [D("a", None, None, True)]),
    ("<!DOCTYPE a PUBLIC >", {}, [D("a", None, None, True)]),
    ("<!DOCTYPE a PUBLIC", {}, [D("a", None, None, True)]),
    ("<!DOCTYPE a PUBLIC ", {}, [D("a", None, None, True)]),
    ('<!DOCTYPE a PUBLIC "x>', {}, [D("a", "x", None, True)]),
    ('<!DOCTYPE a PUBLIC "x', {}, [D("a", "x", None, True)]),
    ('<!DOCTYPE a PUBLIC "x"', {}, [D("a", "x", None, True)]),
    ('<!DOCTYPE a PUBLIC "x" ', {}, [D("a", "x", None, True)]),
    ('<!DOCTYPE a PUBLIC "x""y">', {}, [D("a", "x", "y", False)]),
    ('<!DOCTYPE a PUBLIC "x" >', {}, [D("a", "x", None, False)]),
    ('<!DOCTYPE a PUBLIC "x" y>', {}, [D("a", "x", None, True)]),
    ('<!DOCTYPE a PUBLIC "x"y>', {}, [D("a", "x", None, True)]),
    ("<!DOCTYPE a PUBLIC x>", {}, [D("a", None, None, True)]),
    ("<!DOCTYPE a PUBLICx>", {}, [D("a", None, None, True)]),
    ("<!DOCTYPE a PUBLIC 'x' 'y'z>", {}, [D("a", "x", "y", False)]),
    ('<!DOCTYPE a PUBLIC "x" "y', {}, [D("a", "x", "y", True)]),
    ('<!DOCTYPE a PUBLIC "x" "y>', {}, [D("a", "x", "y", True)]),
    ("<!DOCTYPE a SYSTEM>", {}, [D("a", None, None, True)]),
    ("<!DOCTYPE a SYSTEM >", {}, [D("a", None, None, True)]),
    ("<!DOCTYPE a SYSTEM", {}, [D("a", None, None, True)]),
    ("<!DOCTYPE a SYSTEM ", {}, [D("a", None, None, True)]),
    ("<!DOCTYPE a SYSTEM 'x' >", {}, [D("a", None, "x", False)]),
    ("<!DOCTYPE a SYSTEM 'x' y>", {}, [D("a", None, "x", False)]),
    ("<!DOCTYPE a SYSTEM 'x' y", {}, [D("a", None, "x", False)]),
    ("<!DOCTYPE a SYSTEM 'x>", {}, [D("a", None, "x", True)]),
    ('<!DOCTYPE a SYSTEM "x"', {}, [D("a", None, "x", True)]),
    ("<!DOCTYPE a SYSTEM x>", {}, [D("a", None, None, True)]),
    ("<!DOCTYPE a SYSTEMx>", {}, [D("a", None, None, True)]),
    ("<!DOCTYPE a x>", {}, [D("a", None, None, True)]),
    ("<!DOCTYPE a x", {}, [D("a", None, None, True)]),
    ("<!DOCTYPE a PUBLI>", {}, [D("a", None, None, True)]),
    ("<!DOCTYPE a PUBLI", {}, [D("a", None, None, True)]),
    ('<!DOCTYPE a pUbLiC "">', {}, [D("a", "", None, False)]),
    ("<!DOCTYPE a sYsTeM ''>", {}, [D("a", None, "", False)]),
    ("<!DOCTYPE a public '\0'>", {}, [D("a", FFFD, None, False)]),
    ('<!DOCTYPE a system "\0">', {}, [D("a", None, FFFD, False)]),
    ("<!DOCTYPE a x\0>y", {}, [D("a", None, None, True), C("y")]),
    ("<!DOCTYPE a \u017fYSTEM 'x'>", {}, [D("a", None, None, True)]),
    ('<!DOCTYPE html PUBLIC "-//W3C//DTD HTML 4.01//EN" "http://www.w3.org/TR/html4/strict.dtd">',
     {}, [D("html", "-//W3C//DTD HTML 4.01//EN", "http://www.w3.org/TR/html4/strict.dtd", False)]),
    # ------------------------------------------------------------------ RCDATA
    ("a</title x>b", RC, [C("a"), E("title"), C("b")]),
    ("</TITLE>", RC, [E("title")]),
    ("</tiTle>", RC, [E("title")]),
    ("</titlex>", RC, [C("</titlex>")]),
    ("</tiTlex >", RC, [C("</tiTlex >")]),
    ("</title", RC, [C("</title")]),
    ("</title/>", RC, [E("title")]),
    ("</title/", RC, []),
    ("</title ", RC, []),
    ("x</title ", RC, [C("x")]),
    ("</title>", dict(initial_state="rcdata"), [C("</title>")]),
    ("</title>", dict(initial_state="rcdata", last_start_tag="textarea"), [C("</title>")]),
    ("</title></textarea>", dict(initial_state="rcdata", last_start_tag="textarea"),
     [C("</title>"), E("textarea")]),
    ("<b>&amp;\0", RC, [C("<b>&" + FFFD)]),
    ("</>", RC, [C("</>")]),
    ("</ title>", RC, [C("</ title>")]),
    ("<", RC, [C("<")]),
    ("</", RC, [C("</")]),
    ("a&lt;b", RC, [C("a<b")]),
    ("&#x41;&ampx&", RC, [C("A&x&")]),
    ("<!--a--></title>", RC, [C("<!--a-->"), E("title")]),
    ("</t</title>", RC, [C("</t"), E("title")]),
    ("</title\0>", RC, [C("</title" + FFFD + ">")]),
    ("</title>&amp;<b>", RC, [E("title"), C("&"), S("b")]),
    # ------------------------------------------------------------------ RAWTEXT
    ("a&amp;</style>b", RT, [C("a&amp;"), E("style"), C("b")]),
    ("\0", RT, [C(FFFD)]),
    ("</styl>", RT, [C("</styl>")]),
    ("<!--</style>", RT, [C("<!--"), E("style")]),
    ("</STYLE foo=bar>", RT, [E("style")]),
    ("</style", RT, [C("</style")]),
    ("<</style>", RT, [C("<"), E("style")]),
    ("</", RT, [C("</")]),
    ("</1", RT, [C("</1")]),
    ("</style>", dict(initial_state="rawtext"), [C("</style>")]),
    # ------------------------------------------------------------------ script data
    ("a</script>b", SD, [C("a"), E("script"), C("b")]),
    ("a&amp;\0<b>", SD, [C("a&amp;" + FFFD + "<b>")]),
    ("<!--<script>--></script>", SD, [C("<!--<script>-->"), E("script")]),
    ("<!--<script></script>--></script>", SD, [C("<!--<script></script>-->"), E("script")]),
    ("<!--</script>", SD, [C("<!--"), E("script")]),
    ("<!--<script></script></script>", SD, [C("<!--<script></script>"), E("script")]),
    ("<!--<script>", SD, [C("<!--<script>")]),
    ("<!--<script></script>", SD, [C("<!--<script></script>")]),
    ("<!-- x", SD, [C("<!-- x")]),
    ("<!-x", SD, [C("<!-x")]),
    ("<!x", SD, [C("<!x")]),
    ("<!", SD, [C("<!")]),
    ("<!-", SD, [C("<!-")]),
    ("<!--", SD, [C("<!--")]),
    ("<!--\0", SD, [C("<!--" + FFFD)]),
    ("<!---\0-\0--\0", SD, [C("<!---" + FFFD + "-" + FFFD + "--" + FFFD)]),
    ("<!--<scriptx>--></script>", SD, [C("<!--<scriptx>-->"), E("script")]),
    ("<!--<scriptx></script>", SD, [C("<!--<scriptx>"), E("script")]),
    ("<!--<SCRIPT ></script>x</script>", SD, [C("<!--<SCRIPT ></script>x"), E("script")]),
    ("<!--<script>\0-\0--\0</scriptx>-</script>", SD,
     [C("<!--<script>" + FFFD + "-" + FFFD + "--" + FFFD + "</scriptx>-</script>")]),
    ("</scripty>", SD, [C("</scripty>")]),
    ("</script", SD, [C("</script")]),
    ("</SCRIPT >", SD, [E("script")]),
    ("<!--<a</script>", SD, [C("<!--<a"), E("script")]),
    ("<!--<script/-->x</script>y-->z</script>", SD,
     [C("<!--<script/-->x"), E("script"), C("y-->z"), E("script")]),
    ("<!--<script>-->x</script>", SD, [C("<!--<script>-->x"), E("script")]),
    ("<!-- --- >x--></script>", SD, [C("<!-- --- >x-->"), E("script")]),
    ("<!--<script> - -- </script> </script>", SD, [C("<!--<script> - -- </script> "), E("script")]),
    ("<!--<script></scrip></script></script>", SD,
     [C("<!--<script></scrip></script>"), E("script")]),
    ("<!--<script><</script></script>", SD, [C("<!--<script><</script>"), E("script")]),
    ("<!--</scr", SD, [C("<!--</scr")]),
    ("<!--</1", SD, [C("<!--</1")]),
    ("<!--<1", SD, [C("<!--<1")]),
    ("<!--x</script >", SD, [C("<!--x"), E("script")]),
    ("<!--x</script/>", SD, [C("<!--x"), E("script")]),
    ("<!--<script", SD, [C("<!--<script")]),
    ("<!--<script></script", SD, [C("<!--<script></script")]),
    ("<!-->x</script>", SD, [C("<!-->x"), E("script")]),
    ("<!--->x</script>", SD, [C("<!--->x"), E("script")]),
    ("</script>", dict(initial_state="script_data"), [C("</script>")]),
    # ------------------------------------------------------------------ PLAINTEXT
    ("a<b>&amp;\0</plaintext>", PT, [C("a<b>&amp;" + FFFD + "</plaintext>")]),
    ("", PT, []),
    # ------------------------------------------------------------------ CDATA
    ("<![CDATA[a]]>b", dict(cdata_allowed=YES), [C("ab")]),
    ("<![CDATA[]]]>", dict(cdata_allowed=YES), [C("]")]),
    ("<![CDATA[]]>", dict(cdata_allowed=YES), []),
    ("<![CDATA[a]b]]c]]]>d", dict(cdata_allowed=YES), [C("a]b]]c]d")]),
    ("<![CDATA[\0]]>", dict(cdata_allowed=YES), [C("\0")]),
    ("<![CDATA[", dict(cdata_allowed=YES), []),
    ("<![CDATA[a]", dict(cdata_allowed=YES), [C("a]")]),
    ("<![CDATA[a]]", dict(cdata_allowed=YES), [C("a]]")]),
    ("<![CDATA[<a>&amp;]]>", dict(cdata_allowed=YES), [C("<a>&amp;")]),
    ("x<![CDATA[a]]><b>", dict(cdata_allowed=YES), [C("xa"), S("b")]),
    ("<![CDATA[a]]>b", dict(cdata_allowed=NO), [K("[CDATA[a]]"), C("b")]),
    ("<![CDATA[a]]>b", {}, [K("[CDATA[a]]"), C("b")]),
    ("<![CDATA[", {}, [K("[CDATA[")]),
    ("<![cdata[a]]>", dict(cdata_allowed=YES), [K("[cdata[a]]")]),
    ("<![CDATA", dict(cdata_allowed=YES), [K("[CDATA")]),
    ("<![CDATA>x", dict(cdata_allowed=YES), [K("[CDATA"), C("x")]),
    ("a]]>b", dict(initial_state="cdata_section"), [C("ab")]),
    ("a]]]]>b", dict(initial_state="cdata_section"), [C("a]]b")]),
    # ------------------------------------------------------------------ mixtures
    ("<p class=x>Hi &amp; <b>bye</b><!-- c --></p>", {},
     [S("p", [("class", "x")]), C("Hi & "), S("b"), C("bye"), E("b"), K(" c "), E("p")]),
    ("<a href='?a=1&amp;b=2&copy=3&copy;'>", {},
     [S("a", [("href", "?a=1&b=2&copy=3\u00a9")])]),
    ("\r", {}, [C("\r")]),          # the tokenizer itself does not normalise
    ("<a\rb>", {}, [S("a\rb")]),    # CR is not tokenizer whitespace
    ("\ud800<a \udfff=\ud800>", {}, [C("\ud800"), S("a", [("\udfff", "\ud800")])]),
]


def run_cases():
    n = 0
    for text, kw, expected in CASES:
        got = toks(text, **kw)
        assert got == expected, "input %r %r\n  expected %r\n  got      %r" % (text, kw, expected, got)
        # same with transition recording on
        got2 = toks(text, record_transitions=True, **kw)
        assert got2 == expected, (text, kw)
        n += 1
    return n


def run_protocol_tests():
    n = 0
    # normalize_newlines
    assert normalize_newlines("a\r\nb\rc\n\r\r\nd") == "a\nb\nc\n\n\nd"
    assert normalize_newlines("\r") == "\n" and normalize_newlines("") == ""
    n += 1

    # consumer switches state after a start tag: nothing after ">" consumed yet
    t = RefTokenizer("x<title>a&amp;<b></title>c")
    assert t.next_token() == C("x")
    assert t.next_token() == S("title")
    assert t._pos == len("x<title>"), t._pos
    assert t.last_start_tag == "title"
    t.state = "rcdata"
    assert t.next_token() == C("a&<b>")
    assert t.next_token() == E("title")
    assert t.state == "data"
    assert t.next_token() == C("c")
    assert t.next_token() == ("eof",)
    assert t.next_token() == ("eof",)
    n += 1

    t = RefTokenizer("<script><!--<script></script>--></script><b>")
    assert t.next_token() == S("script")
    t.state = "script_data"
    assert t.next_token() == C("<!--<script></script>-->")
    assert t.next_token() == E("script")
    assert t.next_token() == S("b")
    assert t.last_start_tag == "b"
    assert t.next_token() == ("eof",)
    n += 1

    t = RefTokenizer("<plaintext></plaintext>")
    assert t.next_token() == S("plaintext")
    t.state = "plaintext"
    assert t.next_token() == C("</plaintext>")
    assert t.next_token() == ("eof",)
    n += 1

    t = RefTokenizer("<style>a</b></style>")
    assert t.next_token() == S("style")
    t.state = "rawtext"
    assert [t.next_token() for _ in range(3)] == [C("a</b>"), E("style"), ("eof",)]
    n += 1

    # last_start_tag is overwritten by emitted start tags (end tags do not change it)
    t = RefTokenizer("<a></b>", last_start_tag="title")
    assert t.last_start_tag == "title"
    assert t.next_token() == S("a")
    assert t.last_start_tag == "a"
    assert t.next_token() == E("b")
    assert t.last_start_tag == "a"
    n += 1

    # cdata_allowed is consulted when "<![CDATA[" is recognised, after earlier tokens are out
    log = []
    depth = [0]

    def allowed():
        log.append(("ask", depth[0]))
        return depth[0] > 0

    t = RefTokenizer("<![CDATA[a]]>q<svg>r<![CDATA[b]]></svg><![CDATA[c]]>", cdata_allowed=allowed)
    out = []
    for tok in t:
        log.append(tok)
        out.append(tok)
        if tok[0] == "start" and tok[1] == "svg":
            depth[0] += 1
        if tok[0] == "end" and tok[1] == "svg":
            depth[0] -= 1
    assert log == [
        ("ask", 0), K("[CDATA[a]]"), C("q"), S("svg"), C("r"), ("ask", 1), C("b"), E("svg"),
        ("ask", 0), K("[CDATA[c]]"), ("eof",),
    ], log
    n += 1

    # iteration protocol
    assert tokenize("a<b>") == [C("a"), S("b"), ("eof",)]
    assert list(RefTokenizer("")) == [("eof",)]
    n += 1

    # transitions recorded only on request, and are (state, class) pairs of known states
    t = RefTokenizer("<a b='&amp;'>x")
    list(t)
    assert t.transitions == set()
    t = RefTokenizer("<a b='&amp;'>x\0<!--c--><!DOCTYPE a PUBLIC 'x'>&#x41;", record_transitions=True)
    list(t)
    assert ("data", "<") in t.transitions
    assert ("data", "nul") in t.transitions
    assert ("data", "eof") in t.transitions
    assert ("tag_open", "lower") in t.transitions
    assert ("tag_name", "lower") in t.transitions      # reconsumed
    assert ("tag_name", "ws") in t.transitions
    assert ("attribute_value_single_quoted", "&") in t.transitions
    assert ("after_doctype_name", "match:public") in t.transitions
    assert ("hexadecimal_character_reference", ";") in t.transitions
    for st, cls in t.transitions:
        assert st in STATE_NAMES and isinstance(cls, str)
    n += 1

    assert len(STATE_NAMES) == 80 and len(set(STATE_NAMES)) == 80
    for name in STATE_NAMES:
        assert callable(getattr(RefTokenizer, "s_" + name))
    n += 1
    return n


def run_random(count=20000, seed=12345):
    rng = random.Random(seed)
    alphabet = list("<>/!?-=\"'&#;`[]x aAzZ09\n\t\0") + [
        "script", "title", "DOCTYPE", "doctype", "PUBLIC", "SYSTEM", "[CDATA[", "]]>", "--",
        "amp", "not", "notin;", "#x", "</", "<!--", "-->", "\u00e9", "\ud800", "\f",
    ]
    states = ["data", "rcdata", "rawtext", "script_data", "plaintext", "cdata_section"]
    lasts = [None, "title", "script", "x", "a"]
    for i in range(count):
        k = rng.randint(0, 14)
        text = "".join(rng.choice(alphabet) for _ in range(k))
        st = states[i % len(states)]
        last = rng.choice(lasts)
        cd = rng.choice([None, YES, NO])
        t = RefTokenizer(text, initial_state=st, last_start_tag=last, cdata_allowed=cd,
                         record_transitions=(i % 3 == 0))
        steps = 0
        out = []
        while True:
            tok = t.next_token()          # (i) no exception, terminates
            steps += 1
            assert steps <= 4 * len(text) + 8, text
            out.append(tok)
            if tok == ("eof",):
                break
        assert out.count(("eof",)) == 1
        for tok in out:
            assert isinstance(tok, tuple)
            if tok[0] == "chars":
                assert tok[1]
            elif tok[0] == "start":
                assert len({a for a, _ in tok[2]}) == len(tok[2])
                assert not any("A" <= ch <= "Z" for ch in tok[1])
                assert "\0" not in tok[1]
                for a, v in tok[2]:
                    assert a and "\0" not in a and "\0" not in v
                    assert not any("A" <= ch <= "Z" for ch in a)
            elif tok[0] == "comment":
                assert "\0" not in tok[1]
        merged = toks(text, initial_state=st, last_start_tag=last, cdata_allowed=cd)
        if st == "plaintext":
            # (ii) plaintext: one chars token, NUL -> U+FFFD
            expect = [C(text.replace("\0", FFFD))] if text else []
            assert merged == expect, (text, merged)
        if st == "data" and not any(ch in text for ch in "<&\0"):
            # (iii) nothing special: text comes back unchanged
            assert merged == ([C(text)] if text else []), (text, merged)
        if st in ("rawtext", "script_data") and last is None:
            # no appropriate end tag possible: everything is text
            expect = [C(text.replace("\0", FFFD))] if text else []
            assert merged == expect, (st, text, merged)
        if st == "rcdata" and last is None and "&" not in text:
            expect = [C(text.replace("\0", FFFD))] if text else []
            assert merged == expect, (st, text, merged)
        if st == "cdata_section" and "]]>" not in text:
            # ("]]]>" etc. contain "]]>"): no terminator, everything is text, NUL kept
            assert merged == ([C(text)] if text else []), (text, merged)
    return count


def run_scaling():
    """No recursion per character and no quadratic behaviour on long runs."""
    n = 0
    big = 200000
    inputs = [
        ("x" * big, {}, lambda o: o == [C("x" * big)]),
        ("<!--" + "-" * big, {}, lambda o: o == [K("-" * (big - 2))]),
        ("<a " + "b " * (big // 2) + ">", {}, lambda o: o == [S("a", [("b", "")])]),
        ("<a b='" + "&amp;" * (big // 5) + "'>", {}, lambda o: o == [S("a", [("b", "&" * (big // 5))])]),
        ("<" * big, {}, lambda o: o == [C("<" * big)]),
        ("&" * big, {}, lambda o: o == [C("&" * big)]),
        ("<!DOCTYPE " + "a" * big + ">", {}, lambda o: o == [D("a" * big, None, None, False)]),
        ("</title" * (big // 7), RC, lambda o: o == [C("</title" * (big // 7))]),
        ("<!--<script>" * (big // 12), SD, lambda o: o == [C("<!--<script>" * (big // 12))]),
        ("<a" + " x%d=1" % 0 + "".join(" x%d=1" % i for i in range(1, 20000)) + ">", {},
         lambda o: len(o) == 1 and len(o[0][2]) == 20000),
    ]
    t0 = time.time()
    total = 0
    for text, kw, check in inputs:
        out = toks(text, **kw)
        assert check(out), text[:40]
        total += len(text)
        n += 1
    dt = time.time() - t0
    return n, total / max(dt, 1e-9)


def main():
    n_cases = run_cases()
    assert n_cases >= 150
    n_proto = run_protocol_tests()
    n_rand = run_random()
    n_scale, rate = run_scaling()
    print("OK %d cases (+%d protocol checks, %d random strings, %d scaling inputs at %.0f chars/s)"
          % (n_cases, n_proto, n_rand, n_scale, rate))


if __name__ == "__main__":
    main()
