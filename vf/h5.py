"""Thin drivers around the html5lib under test (public API and the handles the properties name)."""
import io

_STATE = {"data": "dataState", "rcdata": "rcdataState", "rawtext": "rawtextState",
          "script_data": "scriptDataState", "plaintext": "plaintextState"}


class _StubTree(object):
    """What HTMLTokenizer.markupDeclarationOpenState consults to decide whether CDATA sections are allowed."""

    class _N(object):
        def __init__(self, ns):
            self.namespace = ns

    def __init__(self, cdata):
        # cdata: True (current node is foreign), False (an HTML element, namespaced), "nons" (an HTML element of a tree
        # built with namespaceHTMLElements=False: its namespace is None, and so is the builder's default namespace)
        self.defaultNamespace = None if cdata == "nons" else "http://www.w3.org/1999/xhtml"
        self.openElements = [self._N("http://www.w3.org/2000/svg" if cdata is True else self.defaultNamespace)]


class _StubParser(object):
    def __init__(self, cdata):
        self.tree = _StubTree(cdata)


def tokenize(text, state="data", last_start_tag=None, cdata=False, with_errors=False):
    """Run html5lib's tokenizer; returns neutral tokens in the format of vf.ref.tokenizer
    (character tokens concatenated, parse errors dropped or returned separately)."""
    from html5lib._tokenizer import HTMLTokenizer
    from html5lib.constants import tokenTypes
    tok = HTMLTokenizer(text, parser=_StubParser(cdata))
    tok.state = getattr(tok, _STATE[state])
    if last_start_tag is not None:
        tok.currentToken = {"type": tokenTypes["StartTag"], "name": last_start_tag}
    T = tokenTypes
    out = []
    errors = []
    for t in tok:
        ty = t["type"]
        if ty == T["Characters"] or ty == T["SpaceCharacters"]:
            if out and out[-1][0] == "chars":
                out[-1] = ("chars", out[-1][1] + t["data"])
            else:
                out.append(("chars", t["data"]))
        elif ty == T["StartTag"]:
            out.append(("start", t["name"], list(t["data"].items()), bool(t["selfClosing"])))
        elif ty == T["EndTag"]:
            out.append(("end", t["name"]))
        elif ty == T["Comment"]:
            out.append(("comment", t["data"]))
        elif ty == T["Doctype"]:
            out.append(("doctype", t["name"], t["publicId"], t["systemId"], not t["correct"]))
        elif ty == T["ParseError"]:
            errors.append(t["data"])
        else:
            out.append(("unknown", ty))
    out = [x for x in out if not (x[0] == "chars" and x[1] == "")]
    out.append(("eof",))
    if with_errors:
        return out, errors
    return out


def parser(builder="dom", namespace=True, strict=False, full_tree=None, debug=False):
    import html5lib
    kw = {}
    if builder == "etree" and full_tree is not None:
        kw["fullTree"] = bool(full_tree)   # None: the keyword is not passed at all; False is passed explicitly
    tb = html5lib.getTreeBuilder(builder, **kw)
    return html5lib.HTMLParser(tree=tb, strict=strict, namespaceHTMLElements=namespace, debug=debug)


def parse(text, builder="dom", namespace=True, scripting=False, container=None, full_tree=None, **kw):
    """Parse document (container None) or fragment with a brand-new parser; returns (result, parser)."""
    p = parser(builder, namespace, full_tree=full_tree)
    if container is None:
        r = p.parse(text, scripting=scripting, **kw)
    else:
        r = p.parseFragment(text, container=container, scripting=scripting, **kw)
    return r, p


def errors_of(p):
    return [(code, pos[0], pos[1], dict(v) if isinstance(v, dict) else v) for (pos, code, v) in p.errors]


def walk(tree, kind):
    import html5lib
    return html5lib.getTreeWalker(kind)(tree)


def serialize(tokens, encoding=None, **opts):
    from html5lib.serializer import HTMLSerializer
    s = HTMLSerializer(**opts)
    out = s.render(tokens, encoding) if encoding else s.render(tokens)
    return out, s


def tokenize_raw(text, state="data", last_start_tag=None, cdata=False):
    """html5lib's tokens as they are emitted (character tokens NOT concatenated; parse-error tokens left out): the granularity a
    tree builder that makes one text node per token - and the whitespace filter behind it - gets to see."""
    from html5lib._tokenizer import HTMLTokenizer
    from html5lib.constants import tokenTypes
    tok = HTMLTokenizer(text, parser=_StubParser(cdata))
    tok.state = getattr(tok, _STATE[state])
    if last_start_tag is not None:
        tok.currentToken = {"type": tokenTypes["StartTag"], "name": last_start_tag}
    return [(t["type"], t.get("name"), tuple(t["data"].items()) if isinstance(t.get("data"), dict) else t.get("data")) for t in tok if t["type"] != tokenTypes["ParseError"]]


class DispatchLimit(Exception):
    """Raised by parse_bounded when the tree-construction dispatcher was entered more often than the limit."""


STALL = 5000


class _BoundedLog(list):
    def __init__(self, limit, parser=None):
        list.__init__(self)
        self.limit = limit
        self.n = 0
        self.parser = parser
        self.pos = None
        self.still = 0

    def append(self, x):
        self.n += 1
        if self.n > self.limit:
            raise DispatchLimit("%d dispatches; last: %r" % (self.n, x))
        # second, much quicker criterion: thousands of dispatches in a row during which the tokenizer consumed no input.
        # One token is legitimately re-dispatched a handful of times (once per phase it is handed to), never thousands.
        try:
            st = self.parser.tokenizer.stream
            pos = (id(st.chunk), st.chunkOffset)
        except AttributeError:
            pos = None
        if pos is not None and pos == self.pos:
            self.still += 1
            if self.still > STALL:
                raise DispatchLimit("%d dispatches in a row without consuming input (%d in all); last: %r" % (self.still, self.n, x))
        else:
            self.pos = pos
            self.still = 0
        if len(self) < 50:
            list.append(self, x)


def parse_bounded(text, limit, builder="dom", namespace=True, scripting=False, container=None, full_tree=None):
    """Parse with HTMLParser(debug=True), whose main loop appends one record to parser.log per token dispatch;
    the log is replaced by a counting list, so a token that is reprocessed for ever becomes a deterministic
    DispatchLimit instead of a hang (no wall clock involved)."""
    import html5lib
    kw = {}
    if builder == "etree" and full_tree is not None:
        kw["fullTree"] = bool(full_tree)   # None: the keyword is not passed at all; False is passed explicitly
    tb = html5lib.getTreeBuilder(builder, **kw)

    class P(html5lib.HTMLParser):
        def reset(self):
            html5lib.HTMLParser.reset(self)
            self.log = _BoundedLog(limit, self)

    p = P(tree=tb, namespaceHTMLElements=namespace, debug=True)
    if container is None:
        r = p.parse(text, scripting=scripting)
    else:
        r = p.parseFragment(text, container=container, scripting=scripting)
    return r, p


_ALT = {}


def alt_etree():
    """A second ElementTree implementation (the pure-Python one, loaded under another module name beside the accelerated default):
    what getTreeBuilder / getTreeWalker('etree', implementation=X) are for."""
    if "m" not in _ALT:
        import importlib.util
        import sys
        import xml.etree.ElementTree as D
        saved = sys.modules.get("_elementtree", 0)
        sys.modules["_elementtree"] = None
        try:
            spec = importlib.util.spec_from_file_location("xml.etree.PyElementTree", D.__file__)
            m = importlib.util.module_from_spec(spec)
            spec.loader.exec_module(m)
        finally:
            if saved == 0:
                del sys.modules["_elementtree"]
            else:
                sys.modules["_elementtree"] = saved
        _ALT["m"] = m
    return _ALT["m"]
