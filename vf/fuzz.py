"""Coverage-guided fuzzing (atheris / libFuzzer) with the semantic oracles inside the target.

    python -m vf.fuzz <target> <workdir> [libFuzzer args...]

Targets (bytes are decoded by the same structured decoders the Hypothesis strategies use):
    c01   decode_text -> C01 differential oracle (reference tree constructor)
    c03   raw bytes / decoded soup -> C03 crash + skeleton oracle
    c02   decode_text -> C02 tokenizer differential
A finding is written to <workdir>/findings/<sha>.json (the generator-independent case) and counted;
the process never aborts on a finding, so a campaign keeps going behind a shallow defect.
html5lib is instrumented for coverage (the C-level `re` scanners give no gradient; the decoders
make up for it by turning bytes into structure).
"""
import hashlib
import json
import os
import sys


def main(argv):
    target, workdir = argv[1], argv[2]
    rest = argv[3:]
    os.makedirs(os.path.join(workdir, "corpus"), exist_ok=True)
    os.makedirs(os.path.join(workdir, "findings"), exist_ok=True)
    import atheris
    from vf.core import import_target, to_json
    with atheris.instrument_imports(include=["html5lib"]):
        import_target()
        import html5lib  # noqa
        import html5lib.html5parser  # noqa
        import html5lib._tokenizer  # noqa
        import html5lib._inputstream  # noqa
        import html5lib.treebuilders.etree  # noqa
        import html5lib.treebuilders.dom  # noqa
    from vf.gen import soup
    from vf.props import c01, c02, c03
    stats = {"execs": 0, "nontrivial": 0, "fail": 0, "known": 0, "excluded": 0, "buckets": {}}

    def record(case, v):
        stats["execs"] += 1
        if v.nontrivial:
            stats["nontrivial"] += 1
        if v.status == "known":
            stats["known"] += 1
        elif v.status == "excluded":
            stats["excluded"] += 1
        elif v.status == "fail":
            stats["fail"] += 1
            n = stats["buckets"].get(v.bucket, 0)
            stats["buckets"][v.bucket] = n + 1
            if n < 3:
                h = hashlib.sha1(json.dumps(to_json(case), sort_keys=True).encode()).hexdigest()[:12]
                with open(os.path.join(workdir, "findings", h + ".json"), "w") as f:
                    json.dump({"target": target, "case": to_json(case), "bucket": v.bucket, "what": v.what[:2000]}, f)

    def t_c01(data):
        if len(data) < 3:
            return
        container = soup.CONTEXTS[data[0] % len(soup.CONTEXTS)] if data[0] & 1 else None
        scripting = bool(data[1] & 1)
        _, text = soup.decode_text(data[2:], max_items=60)
        case = {"text": text, "container": container, "scripting": scripting}
        record(case, c01.check_case(case))

    def t_c02(data):
        if len(data) < 2:
            return
        cfg = c02.CONFIGS[data[0] % len(c02.CONFIGS)]
        _, text = soup.decode_text(data[1:], max_items=40)
        case = {"text": text, "state": cfg[0], "last": cfg[1], "cdata": cfg[2]}
        record(case, c02.check_case(case))

    def t_c03(data):
        if len(data) < 3:
            return
        cfgs = c03.CONFIGS
        b, ns, ft = cfgs[data[0] % len(cfgs)]
        container = soup.CONTEXTS[data[1] % len(soup.CONTEXTS)] if data[1] & 1 else None
        if data[2] & 1:
            inp = bytes(data[3:])
        else:
            inp = soup.decode_text(data[3:], max_items=80)[1]
        case = {"builder": b, "namespace": ns, "full_tree": ft, "container": container, "scripting": bool(data[2] & 2)}
        case["data" if isinstance(inp, bytes) else "text"] = inp
        record(case, c03.check_case(case, budget=10))

    fn = {"c01": t_c01, "c02": t_c02, "c03": t_c03}[target]

    def test_one(data):
        fn(data)

    import atexit

    def dump():
        with open(os.path.join(workdir, "stats.json"), "w") as f:
            json.dump(stats, f)
    atexit.register(dump)
    # libFuzzer does not run atexit handlers on its own exit path: dump periodically as well
    orig = test_one

    def wrapped(data):
        orig(data)
        if stats["execs"] % 2000 == 0:
            dump()
    atheris.Setup([argv[0], os.path.join(workdir, "corpus")] + rest, wrapped)
    atheris.Fuzz()


if __name__ == "__main__":
    main(sys.argv)
