"""Observation adapters: direct, iterative traversal of html5lib results into a *flat* abstract tree.

A flat tree is a list of records; depth-first, document order:
    (depth, "doctype", name, public, system)
    (depth, "comment", data)
    (depth, "text", data)                       adjacent text merged, empty text dropped
    (depth, "elem", ns, local, attrs)           attrs = tuple of (attr_ns|None, local, value) in stored order
The first record is (0, "doc") or (0, "frag") or (0, "root") (an element used as start node).
Flat lists keep comparison and hashing non-recursive (trees may be tens of thousands deep).
"""
from xml.dom import Node as _N
import xml.etree.ElementTree as ET

HTML_NS = "http://www.w3.org/1999/xhtml"
MATHML_NS = "http://www.w3.org/1998/Math/MathML"
SVG_NS = "http://www.w3.org/2000/svg"
XLINK_NS = "http://www.w3.org/1999/xlink"
XML_NS = "http://www.w3.org/XML/1998/namespace"
XMLNS_NS = "http://www.w3.org/2000/xmlns/"

_ETComment = ET.Comment
_ETPI = ET.ProcessingInstruction


def _push_text(out, depth, data):
    if not data:
        return
    last = out[-1]
    if last[1] == "text" and last[0] == depth:
        out[-1] = (depth, "text", last[2] + data)
    else:
        out.append((depth, "text", data))


def flat_dom(node):
    """minidom Document / DocumentFragment / Element -> flat tree."""
    t = node.nodeType
    if t == _N.DOCUMENT_NODE:
        out = [(0, "doc")]
    elif t == _N.DOCUMENT_FRAGMENT_NODE:
        out = [(0, "frag")]
    else:
        out = [(0, "root")]
        stack = [(node, 1)]
        return _flat_dom_walk(stack, out)
    stack = [(c, 1) for c in reversed(node.childNodes)]
    return _flat_dom_walk(stack, out)


def _flat_dom_walk(stack, out):
    while stack:
        n, d = stack.pop()
        t = n.nodeType
        if t == _N.ELEMENT_NODE:
            attrs = []
            amap = n.attributes
            if amap is not None:
                # NamedNodeMap keeps insertion order in its _attrs dict (public API: item(i))
                for i in range(amap.length):
                    a = amap.item(i)
                    if a.namespaceURI:
                        attrs.append((a.namespaceURI, a.localName, a.value))
                    else:
                        attrs.append((None, a.nodeName, a.value))
            ns = n.namespaceURI or None
            name = n.localName if (ns and n.localName) else n.nodeName
            if ns and ":" in n.nodeName:
                name = n.nodeName  # html5lib never creates prefixed element names; keep what is stored
            out.append((d, "elem", ns, name, tuple(attrs)))
            ch = n.childNodes
            for c in reversed(ch):
                stack.append((c, d + 1))
        elif t == _N.TEXT_NODE or t == _N.CDATA_SECTION_NODE:
            _push_text(out, d, n.data)
        elif t == _N.COMMENT_NODE:
            out.append((d, "comment", n.data))
        elif t == _N.DOCUMENT_TYPE_NODE:
            out.append((d, "doctype", n.name or "", n.publicId or "", n.systemId or ""))
        else:
            out.append((d, "other", t))
    return out


def _split_clark(tag):
    if tag[:1] == "{":
        i = tag.find("}")
        if i > 1:          # "{}x" is not Clark notation (an empty namespace is never written)
            return tag[1:i], tag[i + 1:]
    return None, tag


def flat_etree(el):
    """ElementTree result of html5lib (DOCUMENT_ROOT / DOCUMENT_FRAGMENT pseudo elements or a real element)."""
    tag = el.tag
    if tag == "DOCUMENT_ROOT":
        out = [(0, "doc")]
        _push_text(out, 1, el.text)
        stack = [("node", c, 1) for c in reversed(list(el))]
    elif tag == "DOCUMENT_FRAGMENT":
        out = [(0, "frag")]
        _push_text(out, 1, el.text)
        stack = [("node", c, 1) for c in reversed(list(el))]
    else:
        out = [(0, "root")]
        stack = [("rootnode", el, 1)]
    while stack:
        kind, n, d = stack.pop()
        if kind == "tail":
            _push_text(out, d, n)
            continue
        tag = n.tag
        if kind == "node" and n.tail:
            stack.append(("tail", n.tail, d))
        if tag is _ETComment or (callable(tag) and getattr(tag, "__name__", "") == "Comment"):    # Comment of any ElementTree implementation
            out.append((d, "comment", n.text if n.text is not None else ""))
        elif tag == "<!DOCTYPE>":
            out.append((d, "doctype", n.text or "", n.get("publicId") or "", n.get("systemId") or ""))
        elif tag is _ETPI or callable(tag):
            out.append((d, "other", "pi"))
        else:
            ns, name = _split_clark(tag)
            attrs = []
            for k, v in n.attrib.items():
                ans, alocal = _split_clark(k)
                attrs.append((ans, alocal, v))
            out.append((d, "elem", ns, name, tuple(attrs)))
            if n.text:
                # text before the first child
                pending = n.text
            else:
                pending = None
            children = list(n)
            for c in reversed(children):
                stack.append(("node", c, d + 1))
            if pending:
                stack.append(("tail", pending, d + 1))
    return out


def flat(result):
    if hasattr(result, "nodeType"):
        return flat_dom(result)
    return flat_etree(result)


def clarkify(fl):
    """Attribute keys as Clark-notation strings (the etree representation cannot distinguish
    (None, '{x}y') from ('x', 'y')); used for cross-builder comparison only."""
    out = []
    for r in fl:
        if r[1] == "elem":
            attrs = tuple((("{%s}%s" % (a[0], a[1])) if a[0] else a[1], a[2]) for a in r[4])
            out.append((r[0], "elem", r[2], r[3], attrs))
        else:
            out.append(r)
    return out


def minidom_evicts_encoding(fl):
    """Same recorded minidom limitation, structural consequence: the attribute it evicts is the `encoding` of a MathML annotation-xml
    element (`encoding=text/html x:encoding=y`).  html5lib asks the tree NODE, not the token, whether annotation-xml is an HTML
    integration point, so with the dom builder the content that follows is parsed as foreign content: the trees differ from there on.
    True iff the (etree) flat tree has such an element."""
    for r, m in zip(fl, minidom_colon_model(fl)):
        if r[1] == "elem" and r[3] == "annotation-xml" and r[2] not in (None, HTML_NS):
            enc = [a for a in r[4] if a[0] is None and a[1] == "encoding"]
            enc_m = [a for a in m[4] if a[0] is None and a[1] == "encoding"]
            if enc and enc != enc_m:
                return True
    return False


def html_ns_none(fl, to=HTML_NS):
    """Map namespace None of elements to the HTML namespace (namespaceHTMLElements=False results)."""
    return [(r[0], "elem", r[2] if r[2] is not None else to, r[3], r[4]) if r[1] == "elem" else r for r in fl]


def first_diff(a, b):
    """Index and the two records at the first difference of two flat trees (or None)."""
    n = min(len(a), len(b))
    for i in range(n):
        if a[i] != b[i]:
            return i, a[i], b[i]
    if len(a) != len(b):
        return n, (a[n] if len(a) > n else None), (b[n] if len(b) > n else None)
    return None


def dump(fl, limit=60):
    """Human-readable rendering (html5lib-tests style) for messages."""
    lines = []
    for r in fl[:limit]:
        ind = "| " + "  " * (r[0] - 1) if r[0] else ""
        k = r[1]
        if k in ("doc", "frag", "root"):
            lines.append("#" + k)
        elif k == "elem":
            pre = {None: "", HTML_NS: "", SVG_NS: "svg ", MATHML_NS: "math "}.get(r[2], "{%s}" % r[2])
            if r[2] is None:
                pre = "(nons) "
            lines.append("%s<%s%s>" % (ind, pre, r[3]))
            for a in r[4]:
                if len(a) == 2:
                    lines.append("%s  %s=\"%s\"" % (ind, a[0], a[1]))
                else:
                    lines.append("%s  %s%s=\"%s\"" % (ind, ("{%s}" % a[0]) if a[0] else "", a[1], a[2]))
        elif k == "text":
            lines.append('%s"%s"' % (ind, r[2]))
        elif k == "comment":
            lines.append("%s<!-- %s -->" % (ind, r[2]))
        elif k == "doctype":
            lines.append('%s<!DOCTYPE %s "%s" "%s">' % (ind, r[2], r[3], r[4]))
        else:
            lines.append("%s?%r" % (ind, r[1:]))
    if len(fl) > limit:
        lines.append("... (%d records)" % len(fl))
    return "\n".join(lines).encode("ascii", "backslashreplace").decode("ascii")


def flat_ref(root):
    """Reference tree (vf.ref.treebuilder.Node) -> flat tree.  Template contents are rendered as a
    ("content",) pseudo record followed by the contents one level deeper (html5lib-tests convention)."""
    k = root.kind
    out = [(0, "doc" if k == "document" else "frag" if k == "fragment" else "root")]
    if k in ("document", "fragment"):
        stack = [(c, 1) for c in reversed(root.children)]
    else:
        stack = [(root, 1)]
    while stack:
        n, d = stack.pop()
        if n is None:
            out.append((d, "content"))
            continue
        k = n.kind
        if k == "element":
            out.append((d, "elem", n.ns, n.name, tuple(tuple(a) for a in n.attrs)))
            for c in reversed(n.children):
                stack.append((c, d + 1))
            tc = getattr(n, "template_contents", None)
            if tc is not None:
                for c in reversed(tc.children):
                    stack.append((c, d + 2))
                stack.append((None, d + 1))
        elif k == "text":
            _push_text(out, d, n.data)
        elif k == "comment":
            out.append((d, "comment", n.data))
        elif k == "doctype":
            out.append((d, "doctype", n.name or "", n.public or "", n.system or ""))
    return out


def minidom_colon_model(fl):
    """Known-finding transformer (C04-dom-colon-attrs / C04-dom-doctype-colon): what xml.dom.minidom keeps of a tree.
    minidom indexes un-namespaced attributes by the part of their name after the first colon as well, so setting
    'href' after 'x:href' (or ':href') removes the earlier attribute; DocumentType keeps only the part of its name
    after the first colon.  Works on flat trees with (ns, local, value) attributes."""
    out = []
    for r in fl:
        if r[1] == "elem":
            kept = []
            for a in r[4]:
                if a[0] is None:
                    key = (None, a[1].split(":", 1)[-1])
                else:
                    key = (a[0], a[1])
                kept = [(k, b) for (k, b) in kept if k != key and not (b[0] is None and a[0] is None and b[1] == a[1])]
                kept.append((key, a))
            out.append((r[0], "elem", r[2], r[3], tuple(b for _, b in kept)))
        elif r[1] == "doctype":
            out.append((r[0], "doctype", r[2].split(":", 1)[-1], r[3], r[4]))
        else:
            out.append(r)
    return out
